"""C16 - filter updates are invariant to angle representation and observation order.

Lattice explorer over
  * the wrap / residual / circular-mean helpers of physics/maths.py (exact rational reference), the circular mean also
    under the unscented weights of every state dimension 2..8 down to alpha = 1e-6 and on sets with a tiny resultant,
  * the real UnscentedKalmanFilter on a linear dynamics stub with real Measurement/Observation objects whose
    components are stub MeasurementTypes flagged angular 0..2pi / angular -pi..pi / linear (every multiset of <= 4
    observations over the announced observation kinds, every permutation of each),
  * the real UKF with the real Azimuth/Elevation/Range/RangeRate measurement classes and sensors at known sites, the
    target placed on / next to / off the azimuth seam,
  * the real UKF fed one physical measurement whose components are declared in every order (Measurement built by
    Measurement.fromMeasurementLabels / by the sensor config path, noise covariance permuted with the labels),
  * the angular code of the real GeneticParticleFilter (calculateResidualsFromObservations, forecast, update's innovation).
"""
from __future__ import annotations

import itertools
import math
from datetime import datetime, timedelta

import numpy as np

from verif import framework as fw
from verif import scen  # noqa: F401  installs fake ray before resonaate is imported
from verif.oracles import c16_ref as ref

from resonaate.common.exceptions import ShapeError
from resonaate.data.observation import Observation
from resonaate.estimation.kalman.unscented_kalman_filter import UnscentedKalmanFilter
from resonaate.estimation.particle.genetic_particle_filter import GeneticParticleFilter
from resonaate.physics import maths as rmaths
from resonaate.physics.measurements import (
    VALID_ANGLE_MAP,
    VALID_ANGULAR_MEASUREMENTS,
    Azimuth,
    Elevation,
    IsAngle,
    Measurement,
    MeasurementType,
    Range,
    RangeRate,
)
from resonaate.physics.time.stardate import JulianDate, ScenarioTime, datetimeToJulianDate, julianDateToDatetime
from resonaate.physics.transforms.methods import lla2eci, sez2eci

PROPERTY = "C16"
LEVEL = "model_checking"
RULE = (
    "helpers: every (seam value, turn count) of the announced alphabets through wrapAngle2Pi / wrapAngleNegPiPi / "
    "vecWrapAngle2Pi / vecWrapAngleNeg, every ordered pair of them through residual / residuals / vecResiduals (all flag "
    "patterns up to length 4), every (centre, spread pattern, weighting, range, turn pattern) through angularMean "
    "(weightings: none, uniform, ramp, unscented with alpha in {1, 0.5, 1e-3, 1e-4, 1e-5}), every sigma-point cluster "
    "(state dimension n = 2..8, alpha from 1 down to 1e-6, kappa in {3 - n, 0}, centre, spread, curvature of the point "
    "image, turn pattern, range) through angularMean with the unscented mean weights, and every tiny-resultant set "
    "(opposed pair, evenly spread triple / quadruple with one weight or one angle off by delta, 3-point sets with weights "
    "~ 1/delta; delta = 1e-5..1e-11; weighted and unweighted) at every centre and range, each "
    "against exact rational / unit-vector references, plus on the code itself: rotation equivariance, invariance to a "
    "positive factor on the weights, and the mean staying with its cluster (inside the arc for positive weights, inside "
    "the analytic unscented envelope of the centre point otherwise). "
    "UKF: for every sigma weighting (n, alpha, kappa) (quick: alpha = 1, 1e-3, 1e-4, 1e-5 on 4 states, 1 on 2 states) every multiset of "
    "<= 4 observations over the observation kinds (single angular 0..2pi, single angular -pi..pi, single linear, "
    "[0..2pi, -pi..pi, linear], [linear, 0..2pi]), every permutation of it, on a real filter (predict + update) with the "
    "predicted angle of each angular component placed by a wrap offset on / within 1e-9 / within 1e-3 of its seam, plus "
    "the same stack with all offsets off-seam, with +2*pi*k on the measured and on the predicted angles, with a "
    "measurement half a turn away, and through forecast(); compared with an independent unit-vector UKF reference and "
    "with each other; the predicted measurement mean is also held inside the analytic unscented envelope of the centre "
    "sigma point's measurement. Real Azimuth/Elevation/Range(/RangeRate) stacks of 1..4 observations from sensors on one meridian "
    "with the target on / next to / off north, 6-state filter with alpha in {1e-3, 1, 1e-4} (thorough adds 0.05, 0.5, 1e-5), "
    "all permutations (quick: the 4-stack for two seam placements). Component order of ONE measurement: every ordered "
    "selection (60) of every subset of >= 2 of (azimuth, elevation, range, range rate) - all 24 orders of the radar-like "
    "4-set, the 6 of each 3-set, both of the optical-like pair and of every other pair - built through "
    "Measurement.fromMeasurementLabels with unequal variances and a full correlated R that the check permutes together "
    "with the labels: labels / component classes / IsAngle flags / r_matrix / calculateMeasurement keys+values / "
    "Observation.fromMeasurement states must be in the caller's order; then the real 6-state UKF (alpha in {1e-3, 1}, "
    "thorough adds 1e-4, 0.5; target on the azimuth seam and due east, thorough 5 placements) updated with that "
    "observation alone, and stacked before / after a second sensor's (az, el) observation (itself declared in either "
    "order), against an independent reference that never reads a Measurement object (own h, R, z for the declared order) "
    "and against the real filter fed the documented order (posterior and innovation equal up to the permutation); the "
    "same through the config path OpticalConfig / RadarConfig / AdvRadarConfig -> sensorFactory -> sensor.measurement "
    "(covariance in the documented order) against the reference and against the factory-built reversed order. GPF: "
    "the same stub stacks through calculateResidualsFromObservations / forecast / update on a fixed particle lattice "
    "(quick: 7 fixed orders of each 4-stack, thorough all 24). "
    "non-trivial = some angular component predicted within 1e-3 rad of its seam, or a turn count k != 0, or a "
    "non-identity permutation / non-alphabetical component order (helpers: value within 1e-3 of a seam or k != 0; sigma-point clusters: negative centre "
    "weight; tiny-resultant sets: all); distinct by construction (lattice points)."
)
ASSUMPTIONS = [
    "python fractions / math.fsum / atan2 are the arithmetic reference; the double 2*pi is the modulus (as in the code)",
    "the reference UKF is the textbook scaled unscented update (Wan & van der Merwe weights) with angular components "
    "handled as unit vectors; predicted angular spread is kept <= 0.3 rad (weighted circular mean is undefined when the "
    "weighted resultant vanishes); a resultant that is merely small because the weights are large (unscented weights: "
    "sum|w| ~ 1/alpha^2) or because the points nearly balance is NOT that case as long as it exceeds its own rounding "
    "error: tiny-resultant helper cases whose derived tolerance would exceed 0.05 rad are classified either-way",
    "mean-in-cluster envelope: |mean - y(centre point)| <= atan(B / (1 - Q)), B = w_side * sum_pairs |d+ + d-|, "
    "Q = w_side * sum d^2 / 2 (elementary bounds on sin / cos; requires Q < 1/2, otherwise either-way)",
    "real-sensor cases trust getSlantRangeVector / lla2eci / sez2eci / getAzimuth.. (subjects of C04, C14) to evaluate "
    "the measurement function itself; only its angular bookkeeping in the filter is checked here",
    "linear dynamics stub (constant velocity); UKF == Kalman filter equivalence is C06's subject",
    "component-order family: a Measurement's components, flags and r_matrix are in the order of the label list it was "
    "asked for (Measurement.__init__ keeps the order of its type list; the noise covariance is documented as being in the "
    "order of the measurement vector); shipped sensors report (azimuth, elevation[, range, range rate]) in that order "
    "(sensor docstrings / Observation columns) and take SensorConfig.covariance in the same order",
    "GPF: only the deterministic part (residuals, scores, innovation) is compared; resampling draws are not",
]
EXPECT_MIN_NONTRIVIAL = 2000

PI = math.pi
TWOPI = 2.0 * math.pi
EPS = float(np.finfo(float).eps)
LIN, A2, AN = ref.LIN, ref.A2, ref.AN
FLAG = {LIN: IsAngle.NOT_ANGLE, A2: IsAngle.ANGLE_0_2PI, AN: IsAngle.ANGLE_NEG_PI_PI}
LABELS = ["azimuth_rad", "elevation_rad", "range_km", "range_rate_km_p_sec"]


# =================================================================================================== alphabets
def _seed_angles(seed: int, count: int):
    """Seed only shifts the phase of a few additional lattice values (golden-ratio rotation)."""
    return [math.fmod((seed + 1) * 0.6180339887498949 * (j + 1) * 1.7, TWOPI) - (PI if j % 2 else 0.0) for j in range(count)]


def _base_angles(seed: int):
    d = 1e-12
    vals = [
        0.0, d, -d, PI / 2, -PI / 2, PI - d, PI, PI + d, TWOPI - d, TWOPI, TWOPI + d, -PI, -PI + d, -PI - d, -TWOPI,
        float(np.nextafter(PI, 0.0)), float(np.nextafter(PI, 4.0)), float(np.nextafter(TWOPI, 0.0)),
        float(np.nextafter(TWOPI, 7.0)), 5e-324, -5e-324, 1e-20, -1e-20, 1.0, -2.5, 4.0, 3 * PI / 2, 1e-3, -1e-3,
        PI - 1e-3, PI + 1e-3,
    ]  # fmt: skip
    return vals + _seed_angles(seed, 3)


def _turns(tier):
    if tier == "thorough":
        return [0, 1, -1, 2, -2, 3, 7, -7, 100, -100, 1000, -1000, 123456, -123456]
    return [0, 1, -1, 2, -7, 7, 1000, -1000]


def _near_seam(v: float) -> bool:
    r = float(ref.exact_wrap_0_2pi(v))
    return min(r, TWOPI - r) <= 1.001e-3 or abs(r - PI) <= 1.001e-3


# sigma weightings (n, alpha, kappa): kappa None = code default 3 - n.  centre mean weight:
#   (4,1e-3,None) -1.3e6, (4,.5,None) -4.3, (4,1,None) -1/3, (2,1,None) +1/3, (2,.5,None) -5/3, (4,1,2.0) +1/3, (2,1e-3,None) -6.7e5
#   (4,1e-4,None) -1.3e8, (4,1e-5,None) -1.3e10: legal (0 < alpha < 1) small spreads; the L2-normalised resultant inside
#   angularMean is 7.1e-9 / 7.1e-11 there (7.1e-7 for (4,1e-3,None); n = 2: 1.3e-8 / 1.3e-10)
UKF_CFGS_Q = [(4, 1e-3, None), (4, 1.0, None), (2, 1.0, None), (4, 1e-4, None), (4, 1e-5, None)]
UKF_CFGS_T = UKF_CFGS_Q + [(4, 0.5, None), (2, 0.5, None), (2, 1e-3, None), (4, 1.0, 2.0), (4, 0.1, 0.0), (2, 1e-4, None),
                           (2, 1e-5, None), (4, 3e-5, 0.0)]  # fmt: skip

# observation kinds: tuple of (component kind, label)
OBS_KINDS = {
    "A": [(A2, "azimuth_rad")],
    "N": [(AN, "elevation_rad")],
    "L": [(LIN, "range_km")],
    "ANL": [(A2, "azimuth_rad"), (AN, "elevation_rad"), (LIN, "range_km")],
    "LA": [(LIN, "range_rate_km_p_sec"), (A2, "azimuth_rad")],
    "NLLA": [(AN, "elevation_rad"), (LIN, "range_km"), (LIN, "range_rate_km_p_sec"), (A2, "azimuth_rad")],
}
KINDS_Q = ["A", "N", "L", "ANL", "LA"]
KINDS_T = KINDS_Q + ["NLLA"]
MAX_STACK = 4

# wrap-offset placements of the predicted angle relative to the component's seam (0 == 2pi for A2, +-pi for AN)
#   name -> (offset from seam, use the "other name" of the seam)
PLACEMENTS = [("seam", 0.0, False), ("seam_alt", 0.0, True), ("seam-1e-9", -1e-9, False), ("seam+1e-9", 1e-9, False),
              ("seam+1e-3", 1e-3, True), ("seam-1e-3", -1e-3, False)]  # fmt: skip
OFF_SEAM = {A2: PI / 2, AN: -0.5}  # AN off-seam mean is negative: a mean reported in the wrong range ([0, 2pi)) leaves [-pi, pi]
# innovations requested per angular component (rad) / linear component (own units; some beyond +-pi: a linear
# difference must never be wrapped)
NU_ANG = [0.0, 0.02, -0.03, 0.004, -1e-9, 1e-9]
NU_LIN = [0.5, -4.0, 0.0, 7.0, -0.25]
TURN_PATTERNS_Q = [(1,), (-1, 2), (1000, -7), (-1000,)]
TURN_PATTERNS_T = TURN_PATTERNS_Q + [(7, -2, 3), (123456, -123456), (2,), (-3, 100)]


def _multisets(kinds):
    out = []
    for size in range(1, MAX_STACK + 1):
        out.extend(itertools.combinations_with_replacement(range(len(kinds)), size))
    return out


# =================================================================================================== stubs
class _Comp(MeasurementType):
    """Stub measurement component y = rep(c + h.d + q (g.d)^2), d = x - xref, with a real IsAngle flag.

    rep = identity for a linear component; for an angular component the value is wrapped into the documented range
    of its flag ([0, 2pi) or [-pi, pi)) with plain floor arithmetic and then shifted by ``kpred`` full turns.  The
    quadratic term makes the sigma-point image asymmetric about the centre point, so that the weighted (circular) mean
    depends on the weights (with a purely linear map every symmetric weighting gives the centre value).  At the centre
    sigma point d = 0 exactly, hence y = rep(c) exactly.
    """

    def __init__(self, label, kind, hvec, c, xref, kpred=0, gvec=None, quad=0.0):
        self.LABEL = label
        self.kind = kind
        self.hvec = np.asarray(hvec, dtype=float)
        self.gvec = self.hvec if gvec is None else np.asarray(gvec, dtype=float)
        self.quad = float(quad)
        self.c = float(c)
        self.xref = np.asarray(xref, dtype=float)
        self.kpred = kpred

    def value(self, state):
        d = np.asarray(state, dtype=float)[: self.hvec.size] - self.xref
        v = float(np.dot(self.hvec, d)) + self.quad * float(np.dot(self.gvec, d)) ** 2
        return _rep(self.kind, self.c + v) + TWOPI * self.kpred

    def calculate(self, sen_eci_state, tgt_eci_state, utc_date):  # noqa: ARG002
        return self.value(tgt_eci_state)

    @property
    def is_angular(self):
        return FLAG[self.kind]


def _rep(kind, a):
    if kind == LIN:
        return a
    if kind == A2:
        a = a - TWOPI * math.floor(a / TWOPI)
        if a >= TWOPI or a < 0.0:
            a = 0.0
        return a
    a = a - TWOPI * math.floor((a + PI) / TWOPI)
    if a >= PI:
        a -= TWOPI
    if a < -PI:
        a = -PI
    return a


class _LinDyn:
    """Constant-velocity linear dynamics stub: x(t1) = F(t1 - t0) x(t0), applied column-wise."""

    def __init__(self, n):
        self.n = n

    def fmat(self, dt):
        half = self.n // 2
        f = np.eye(self.n)
        f[:half, half:] = dt * np.eye(half)
        return f

    def propagate(self, initial_time, final_time, initial_state, **kwargs):  # noqa: ARG002
        return self.fmat(float(final_time) - float(initial_time)) @ initial_state


# dyadic numbers: F x0 is exact in any summation order, so that the centre sigma point equals xref bit for bit and the
# "exact seam" placements really put a sigma measurement exactly on the seam
DT = 2.0
X0 = {4: np.array([1.5, -0.75, 0.25, 0.5]), 2: np.array([1.5, 0.25]), 6: None}
_L4 = np.array([[0.0625, 0.0, 0.0, 0.0], [0.015625, 0.046875, 0.0, 0.0], [0.0078125, -0.015625, 0.03125, 0.0],
                [-0.015625, 0.0078125, 0.0078125, 0.0234375]])  # fmt: skip
_L2 = np.array([[0.0625, 0.0], [0.015625, 0.03125]])
P0 = {4: _L4 @ _L4.T, 2: _L2 @ _L2.T}
QM = {4: 1e-4 * np.eye(4), 2: 1e-4 * np.eye(2)}
# measurement directions per (slot, component index): distinct per slot so that permuting two observations of the same
# kind is a real permutation
_H4 = [[1.0, 0.5, 0.25, -0.5], [-0.75, 1.0, 0.5, 0.25], [0.5, -1.0, 0.25, 0.75], [0.25, 0.75, -1.0, 0.5],
       [1.0, 1.0, -0.25, 0.0], [-0.5, 0.25, 1.0, 1.0], [0.0, -0.75, 0.5, -1.0], [0.75, 0.0, -0.5, 1.0]]  # fmt: skip
_H2 = [[1.0, 0.5], [-0.75, 1.0], [0.5, -1.0], [0.25, 0.75], [1.0, 1.0], [-0.5, 0.25], [0.75, -0.25], [-1.0, 0.5]]


QUAD = {LIN: 0.25, A2: 0.5, AN: -0.5}  # curvature of the stub components (per unit^2 of g.d); sign alternates with slot + index


def _hvec(n, slot, comp):
    table = _H4 if n == 4 else _H2
    return table[(3 * slot + comp) % len(table)]


def _xref(n):
    return _LinDyn(n).fmat(DT) @ X0[n]


def _r_matrix(kinds_of_obs, slot, ang_scale=1.0):
    """Per-observation noise covariance; multi-component observations get a correlated (full) block."""
    sig = [(0.02 * ang_scale if k != LIN else 1.5) * (1.0 + 0.25 * slot + 0.125 * j) for j, k in enumerate(kinds_of_obs)]
    r = np.diag([s * s for s in sig])
    for j in range(len(sig) - 1):
        r[j, j + 1] = r[j + 1, j] = 0.25 * sig[j] * sig[j + 1]
    return r


JD0 = 2459304.1666666665


def _build_stack(n, kind_names, phase, placement_mode, turn_pattern=None, kpred_pattern=None, half_turn=None, ang_scale=1.0):
    """Observations (identity order) for a multiset of observation kinds.

    phase = (placement phase, innovation phase).  placement_mode: "seam" = angular component g gets
    PLACEMENTS[(g + placement phase) % 6] and innovation NU_ANG[(g + innovation phase) % 6] (the two phases run through
    all 36 combinations over the multiset index); "off" = every angular component off-seam (the reference
    representation).  turn_pattern / kpred_pattern: full turns added to the measured /
    predicted angular component g (cycled).  half_turn: predicted mean of angular component 0 (from the reference);
    its measured angle is put exactly half a turn away from it.
    Returns (observations, info) where info lists per stacked component kind / placement / c / nu / z.
    """
    xref = _xref(n)
    obs, info = [], []
    phase, nu_phase = phase
    g_ang = g_lin = 0
    for slot, name in enumerate(kind_names):
        comps, zvals = [], {}
        kinds = [k for k, _ in OBS_KINDS[name]]
        for j, (kind, label) in enumerate(OBS_KINDS[name]):
            if kind == LIN:
                c = [0.0, 3.0, -7.5][(slot + j) % 3]
                nu = NU_LIN[(g_lin + nu_phase) % len(NU_LIN)]
                g_lin += 1
                comp = _Comp(label, kind, _hvec(n, slot, j), c, xref, gvec=_hvec(n, slot + 1, j + 1), quad=QUAD[kind] * (1.0 if (slot + j) % 2 == 0 else -1.0))
                z = c + nu
                place, kz, kp = "lin", 0, 0
            else:
                seam = 0.0 if kind == A2 else PI
                if placement_mode == "seam":
                    place, off, alt = PLACEMENTS[(g_ang + phase) % len(PLACEMENTS)]
                    if alt:
                        seam = TWOPI if kind == A2 else -PI
                    c = seam + off
                else:
                    place, c = "off", OFF_SEAM[kind]
                nu = NU_ANG[(g_ang + nu_phase) % len(NU_ANG)]
                z_forced = None
                if half_turn is not None and g_ang == 0:
                    nu, z_forced = PI, _rep(kind, half_turn + PI)
                kz = turn_pattern[g_ang % len(turn_pattern)] if turn_pattern else 0
                kp = kpred_pattern[g_ang % len(kpred_pattern)] if kpred_pattern else 0
                g_ang += 1
                comp = _Comp(label, kind, _hvec(n, slot, j), c, xref, kpred=kp, gvec=_hvec(n, slot + 1, j + 1), quad=QUAD[kind] * (1.0 if (slot + j) % 2 == 0 else -1.0))
                z = (_rep(kind, c + nu) if z_forced is None else z_forced) + TWOPI * kz
            comps.append(comp)
            zvals[label] = z
            info.append({"kind": kind, "place": place, "c": c, "nu": nu, "z": z, "kz": kz, "kp": kp, "slot": slot})
        meas = Measurement(comps, _r_matrix(kinds, slot, ang_scale))
        sensor_eci = np.array([100.0 + slot, 200.0, 300.0, 0.0, 0.0, 0.0])
        obs.append(Observation(JD0, 10001, 20001 + slot, "Radar", sensor_eci, meas, **zvals))
    return obs, info


def _stack_h(obs):
    def hfun(state):
        out = []
        for ob in obs:
            for comp in ob.measurement._measurements:  # noqa: SLF001  (stub components: own code)
                out.append(comp.value(state))
        return np.array(out)

    return hfun


def _make_ukf(n, alpha, kappa, resample=False):
    return UnscentedKalmanFilter(
        10001, ScenarioTime(0.0), X0[n].copy(), P0[n].copy(), _LinDyn(n), QM[n].copy(),
        alpha=alpha, beta=2.0, kappa=kappa, resample=resample,
    )  # fmt: skip


def _run_ukf(n, alpha, kappa, obs, mode="update", resample=False, warm=None):
    filt = _make_ukf(n, alpha, kappa, resample)
    filt.predict(ScenarioTime(DT))
    if warm is not None:
        # the same filter object first looks at another stack (a forecast, as the reward computation does before an
        # update): nothing learnt from that stack's layout may leak into the update that follows
        filt.forecast(warm)
    if mode == "forecast":
        filt.forecast(obs)
    else:
        filt.update(obs)
    return filt


DIAG: dict = {}  # development aid: max observed deviation / tolerance per subcheck (not part of the evidence)


def _diag(name, value, tol):
    r = value / tol if tol > 0 else float("inf")
    if r > DIAG.get(name, (0.0, 0.0, 0.0))[0]:
        DIAG[name] = (r, value, tol)


def _sigma_scale(p):
    return np.sqrt(np.diag(p))


def _dev_x(a, b, sig):
    return float(np.max(np.abs((np.asarray(a) - np.asarray(b)) / sig)))


def _dev_p(a, b, sig):
    return float(np.max(np.abs((np.asarray(a) - np.asarray(b)) / np.outer(sig, sig))))


def _tol(n, alpha, kappa, exp, base=1e-11):
    """(tol_mean, tol_cov): tolerances in units of the prior sigma / innovation sigma for comparing two evaluations of
    one update (mean-type quantities: est_x, innovation, mean_pred_y; covariance-type: innov_cvr, cross_cvr, est_p).

    Error sources.  (a) every weighted mean (pred_x, mean_pred_y) is a sum with weights of total magnitude
    W = sum|w_mean| (2.7e6 for alpha = 1e-3, n = 4; 1.7 for alpha = 1) of terms of size |value|: rounding error
    <= eps * W * |value|, in sigma units eps * W * ratio with ratio = max |value| / sigma over the state components, the
    linear measurement components, and 2*pi / sigma_y for the angular ones.  It reaches the posterior mean through
    K * (mean error), i.e. times amp = max(1, |innovation| / sigma_y):
        tol_mean = max(base, 50 * eps * W * ratio) * amp         (measured deviations are <= 0.1 of it).
    (b) sigma-point residuals are differences of values of size ratio*sigma that are gamma*sigma apart: relative error
    eps * ratio / gamma in every covariance; a mean error e shifts all residuals and changes the covariances by
    (1 - alpha^2 + beta + 1) * e * (b0 + e) <= 4 e (b0 + e), where b0 is the centre sigma point's residual (the
    unscented bias of a curved measurement function):
        tol_cov = max(base, 50 * eps * ratio / gamma + 4 * tm * (b0 + tm)),  tm = 50 * eps * W * ratio.
    For alpha = 1e-3 tol_mean is 1e-6 .. 3e-4 sigma and tol_cov 1e-9 .. 2e-6; for alpha >= 0.5 both are 1e-11 .. 1e-9.
    The defects these must expose move the posterior by >= 1e-2 sigma (a missing/extra wrap is a multiple of 2*pi
    >= 60 sigma_y, a linear mean across the seam is 2*pi*w_i, a wrong flag changes an innovation by >= 4e-3 rad = 0.04
    sigma_y): >= 2 orders of margin in the worst configuration, >= 7 orders for alpha >= 0.5 (every lattice point is run
    under both).
    """
    wm, _, gamma = ref.ut_weights(n, alpha, 2.0, kappa)
    sig0 = np.sqrt(np.diag(exp["pred_p"]))
    sy = np.sqrt(np.diag(exp["innov_cvr"]))
    val_y = np.where(exp["is_angular"], TWOPI, np.abs(exp["mean_y"]))
    ratio = max(float(np.max(np.abs(exp["pred_x"]) / sig0)), float(np.max(val_y / sy)), 1.0)
    amp = max(1.0, float(np.max(np.abs(exp["innovation"]) / sy)))
    tm = 50.0 * EPS * float(np.sum(np.abs(wm))) * ratio
    b0 = max(float(np.max(np.abs(exp["dx0"]) / sig0)), float(np.max(np.abs(exp["dy0"]) / sy)))
    return max(base, tm) * amp, max(base, 50.0 * EPS * ratio / gamma + 4.0 * tm * (b0 + tm))


def _tol_perm(exp):
    """Reordering the stack leaves every per-component mean bitwise unchanged; only the solve with the (permuted)
    innovation covariance and the sums over the stacked index differ: eps * m * cond(S normalised to unit diagonal),
    times amp as above, with a factor 1000 of margin (floor 1e-11; measured <= 6e-13)."""
    sy = np.sqrt(np.diag(exp["innov_cvr"]))
    corr = exp["innov_cvr"] / np.outer(sy, sy)
    amp = max(1.0, float(np.max(np.abs(exp["innovation"]) / sy)))
    return max(1e-11, 1000.0 * EPS * corr.shape[0] * float(np.linalg.cond(corr))) * amp


# =================================================================================================== items
def _ukf_cfgs(tier):
    return UKF_CFGS_T if tier == "thorough" else UKF_CFGS_Q


def _kinds(tier):
    return KINDS_T if tier == "thorough" else KINDS_Q


def _phases(tier):
    """Phase offsets of the placement / innovation assignment: quick runs one (shifted by the seed), thorough three."""
    return [0, 2, 4] if tier == "thorough" else [0]


def _chunks_by_cost(multisets, target, max_orders=24):
    """Greedy chunks of multiset indices with roughly equal sum of (number of orders + 8) filter runs."""
    chunks, cur, cost = [], [], 0
    for idx, ms in enumerate(multisets):
        cur.append(idx)
        cost += min(math.factorial(len(ms)), max_orders) + 8
        if cost >= target:
            chunks.append(cur)
            cur, cost = [], 0
    if cur:
        chunks.append(cur)
    return chunks


def items(tier, seed):
    """Longest items first (better packing over the worker pool); merge order is item order, hence deterministic."""
    out = []
    mss = _multisets(_kinds(tier))
    for si in sorted(range(len(REAL_STACKS)), key=lambda i: -len(REAL_STACKS[i])):
        for ai, _ in enumerate(_real_alphas(tier)):
            for pi_, (pname, _) in enumerate(_real_placements(tier)):
                if tier == "quick" and len(REAL_STACKS[si]) == 4 and pname not in REAL_4STACK_PLACEMENTS_Q:
                    continue  # announced lattice: quick runs the 24 orders of the 4-stack for two seam placements
                out.append(("real", tier, seed, ai, pi_, si))
    for ai, _ in enumerate(_lab_alphas(tier)):
        for pi_, _ in enumerate(_lab_placements(tier)):
            for chunk in fw.chunked(range(len(LAB_SELECTIONS)), LAB_CHUNK):
                out.append(("labels", tier, seed, ai, pi_, list(chunk)))
            out.append(("labsensor", tier, seed, ai, pi_))
    for ph in _phases(tier)[:2]:
        for chunk in reversed(_chunks_by_cost(mss, 60 if tier == "quick" else 130, max_orders=8 if tier == "quick" else 24)):
            out.append(("gpf", tier, seed, chunk, ph))
    for ph in _phases(tier):
        for ci, _ in enumerate(_ukf_cfgs(tier)):
            for chunk in _chunks_by_cost(mss, 110):
                out.append(("ukf", tier, seed, ci, chunk, ph))
    out.append(("flags", tier, seed))
    for cls_name in ("smm", "gpb1"):
        for k_models in (2, 3):
            out.append(("mmseam", tier, seed, cls_name, k_models))
    base = _base_angles(seed)
    for which in range(4):
        out.append(("angmean", tier, seed, which))
    for n in reversed(SIG_DIMS):
        for which in range(4):
            out.append(("angsig", tier, seed, which, n))
    for which in range(4):
        out.append(("angtiny", tier, seed, which))
    for chunk in fw.chunked(range(len(base)), 3):
        out.append(("residual", tier, seed, list(chunk)))
    for chunk in fw.chunked(range(len(base)), 6):
        out.append(("wrap", tier, seed, list(chunk)))
    return out


def bounds(tier, seed):
    mss = _multisets(_kinds(tier))
    return {
        "helper_angles": len(_base_angles(seed)),
        "helper_turns": _turns(tier),
        "angularMean_unscented_alphas_(n=2,4_patterns)": [1e-3, 0.5, 1.0, 1e-4, 1e-5],
        "angularMean_weight_scales": WEIGHT_SCALES,
        "sigma_cluster_dims": SIG_DIMS,
        "sigma_cluster_alphas": _sig_alphas(tier),
        "sigma_cluster_kappas": ["3-n", 0.0],
        "sigma_cluster_spreads": SIG_SPREADS_T if tier == "thorough" else SIG_SPREADS_Q,
        "sigma_cluster_curvatures": SIG_CURV,
        "sigma_cluster_max_sum_abs_w": max(
            float(np.sum(np.abs(ref.ut_weights(n, a, 2.0, k)[0]))) for n in SIG_DIMS for a in _sig_alphas(tier) for k in SIG_KAPPAS
        ),
        "tiny_resultant_deltas": TINY_DELTAS_T if tier == "thorough" else TINY_DELTAS_Q,
        "tiny_resultant_sets": [t[0] for t in _tiny_sets(1e-5)],
        "ukf_weightings_(n,alpha,kappa)": [list(c) for c in _ukf_cfgs(tier)],
        "observation_kinds": {k: [c for c, _ in OBS_KINDS[k]] for k in _kinds(tier)},
        "max_stack": MAX_STACK,
        "multisets": len(mss),
        "orders_per_weighting": sum(math.factorial(len(m)) for m in mss),
        "placements": [p[0] for p in PLACEMENTS],
        "turn_patterns": TURN_PATTERNS_T if tier == "thorough" else TURN_PATTERNS_Q,
        "real_alphas": _real_alphas(tier),
        "real_azimuth_placements": [p[0] for p in _real_placements(tier)],
        "real_stacks": [[f"{site}:{m}" for site, m in st] for st in REAL_STACKS],
        "real_4stack_placements": list(REAL_4STACK_PLACEMENTS_Q) if tier == "quick" else "all",
        "component_order_label_sets": [list(c) for c in LAB_SETS],
        "component_order_selections": len(LAB_SELECTIONS),
        "component_order_sigmas": LAB_SIG,
        "component_order_correlations": {f"{a}|{b}": v for (a, b), v in _LAB_CORR.items()},
        "component_order_alphas": _lab_alphas(tier),
        "component_order_placements": [p[0] for p in _lab_placements(tier)],
        "component_order_variants": ["alone", "before partner (az,el)/(el,az) of a second site", "after it"],
        "component_order_sensor_configs": {k: list(v) for k, v in SENSOR_KINDS.items()},
        "gpf_particles": GPF_POP,
        "multiple_model_seam": {"filters": ["smm", "gpb1"], "models": [2, 3], "reference_azimuth_deg": MM_REF_AZ_DEG,
                                "hypothesis_spread_deg": MM_SPREADS_DEG, "prior_weights": MM_WEIGHTS,
                                "measurements": ["az,el", "el,az", "az,el,range,range-rate"]},
        "gpf_orders_of_4_stacks": [list(o) for o in GPF_ORDERS_4_Q] if tier == "quick" else "all 24",
    }


# =================================================================================================== helpers group
def _run_wrap(res, item):
    _, tier, seed, idxs = item
    base = _base_angles(seed)
    u2, up = ref.ulp(TWOPI), ref.ulp(PI)
    for bi in idxs:
        v = base[bi]
        for k in _turns(tier):
            a = v + TWOPI * k
            nontriv = k != 0 or _near_seam(v)
            case = {"v": v, "k": k, "a": a}
            it = ("wrap", tier, seed, [bi])
            # --- wrapAngle2Pi: [0, 2pi); the value 2pi itself is accepted only where the exact result rounds to it
            got = float(rmaths.wrapAngle2Pi(a))
            exp = float(ref.exact_wrap_0_2pi(a))
            if exp == TWOPI:
                res.either_way += 1
            res.case("helpers/wrapAngle2Pi", case, abs(got - exp) <= 2 * u2 and 0.0 <= got <= TWOPI, nontrivial=nontriv,
                     signature="C16/helpers/wrapAngle2Pi", observed=got, expected=exp, item=it,
                     outcome="seam" if exp in (0.0, TWOPI) else "interior")  # fmt: skip
            # --- wrapAngleNegPiPi: (-pi, pi]
            got_n = float(rmaths.wrapAngleNegPiPi(a))
            exp_n = float(ref.exact_wrap_pm_pi(a))
            res.case("helpers/wrapAngleNegPiPi", case, abs(got_n - exp_n) <= 2 * up and -PI < got_n <= PI,
                     nontrivial=nontriv, signature="C16/helpers/wrapAngleNegPiPi", observed=got_n, expected=exp_n, item=it,
                     outcome="pi" if exp_n == PI else "interior")  # fmt: skip
            # --- vecWrapAngleNeg: same point of the circle, closed range (its formula yields [-pi, pi))
            got_vn = float(rmaths.vecWrapAngleNeg(np.array([a, 0.25]))[0])
            tol = 4 * EPS * (abs(a) + TWOPI)
            res.case("helpers/vecWrapAngleNeg", case, ref.circ_dist(got_vn, a) <= tol and -PI <= got_vn <= PI,
                     nontrivial=nontriv, signature="C16/helpers/vecWrapAngleNeg", observed=got_vn, expected=exp_n, item=it)  # fmt: skip
            # --- vecWrapAngle2Pi: same point of the circle always; range on the single-turn domain [-2pi, 2pi]
            got_v2 = float(rmaths.vecWrapAngle2Pi(np.array([a, -0.25]))[0])
            single = -TWOPI <= a <= TWOPI
            res.case("helpers/vecWrapAngle2Pi/circle", case, ref.circ_dist(got_v2, a) <= 2 * ref.ulp(abs(a) + TWOPI), nontrivial=nontriv,
                     signature="C16/helpers/vecWrapAngle2Pi/circle", observed=got_v2, expected=exp, item=it)  # fmt: skip
            res.case("helpers/vecWrapAngle2Pi/range", {**case, "single_turn": single}, 0.0 <= got_v2 <= TWOPI,
                     nontrivial=nontriv, observed=got_v2, expected="[0, 2pi]", item=it,
                     signature="C16/helpers/vecWrapAngle2Pi/range/" + ("single_turn" if single else "multi_turn"))  # fmt: skip
            res.observe(got, got_n, got_vn, got_v2)


def _run_residual(res, item):
    _, tier, seed, idxs = item
    base = _base_angles(seed)
    turns = _turns(tier)
    b_turns = [0, 1, -1000] if tier == "quick" else [0, 1, -1, 7, -1000]
    b_list = [(w, kb) for w in base for kb in b_turns]
    it = ("residual", tier, seed, list(idxs))
    for bi in idxs:
        v = base[bi]
        for k in turns:
            a = v + TWOPI * k
            got_all, exp_all, b_all = [], [], []
            for w, kb in b_list:
                b = w + TWOPI * kb
                exp = float(ref.exact_residual(a, b))
                got = float(rmaths.residual(a, b, True))
                nontriv = k != 0 or kb != 0 or _near_seam(float(ref.exact_wrap_0_2pi(a) - ref.exact_wrap_0_2pi(b)))
                case = {"v": v, "k": k, "w": w, "kb": kb}
                # error sources: one rounding in each wrapAngle2Pi (+2pi), one in the difference, one in the final
                # -2pi: <= 4 ulp(2pi) = 3.6e-15; compared on the circle because the exact difference may sit within
                # that rounding of +-pi
                ok = ref.circ_dist(got, exp) <= 4 * ref.ulp(TWOPI) and -PI < got <= PI
                if abs(abs(exp) - PI) <= 4 * ref.ulp(TWOPI):
                    res.either_way += 1
                res.case("helpers/residual", case, ok, nontrivial=nontriv, signature="C16/helpers/residual",
                         observed=got, expected=exp, item=it, outcome="neg" if got < 0 else "pos" if got > 0 else "zero")  # fmt: skip
                lin = rmaths.residual(a, b, False)
                res.case("helpers/residual_linear", case, float(lin) == a - b, signature="C16/helpers/residual_linear",
                         observed=float(lin), expected=a - b, item=it)  # fmt: skip
                got_all.append(got)
                exp_all.append(exp)
                b_all.append(b)
            # vectorised forms over the whole b list at once
            bv = np.array(b_all)
            av = np.full(bv.shape, a)
            ones = np.ones(bv.shape, dtype=bool)
            r_vec = rmaths.residuals(av, bv, ones)
            res.case("helpers/residuals==residual", {"v": v, "k": k}, bool(np.array_equal(r_vec, np.array(got_all))),
                     nontrivial=k != 0, signature="C16/helpers/residuals_vs_residual", item=it)  # fmt: skip
            vr = rmaths.vecResiduals(av, bv, ones)
            tolv = 4 * EPS * (np.abs(av) + np.abs(bv) + TWOPI)
            dist = np.array([ref.circ_dist(float(x), y) for x, y in zip(vr, exp_all)])
            okv = bool(np.all(dist <= tolv) and np.all(vr >= -PI) and np.all(vr <= PI))
            res.case("helpers/vecResiduals", {"v": v, "k": k, "n_b": len(b_all)}, okv, nontrivial=True,
                     signature="C16/helpers/vecResiduals", observed=float(np.max(dist)), expected="<= 4eps(|a|+|b|+2pi)",
                     item=it)  # fmt: skip
            vr_lin = rmaths.vecResiduals(av, bv, ~ones)
            res.case("helpers/vecResiduals_linear", {"v": v, "k": k}, bool(np.array_equal(vr_lin, av - bv)),
                     signature="C16/helpers/vecResiduals_linear", item=it)  # fmt: skip
            res.observe(np.array(got_all), vr)
        # mixed flag patterns: every boolean pattern of length 1..4 over consecutive pairs
        pairs = [(v + TWOPI * turns[(j + 1) % len(turns)], base[(bi + 5 * j + 1) % len(base)]) for j in range(4)]
        for m in range(1, 5):
            av = np.array([p[0] for p in pairs[:m]])
            bv = np.array([p[1] for p in pairs[:m]])
            for flags in itertools.product([False, True], repeat=m):
                fl = np.array(flags, dtype=bool)
                want = np.array([float(ref.exact_residual(x, y)) if f else x - y for x, y, f in zip(av, bv, fl)])
                got = rmaths.residuals(av, bv, fl)
                gotv = rmaths.vecResiduals(av, bv, fl)
                tol = 4 * EPS * (np.abs(av) + np.abs(bv) + TWOPI)

                def close(g, want=want, fl=fl, tol=tol):
                    return all((ref.circ_dist(float(x), y) <= t) if f else (float(x) == y) for x, y, f, t in zip(g, want, fl, tol))

                case = {"v": v, "m": m, "flags": [int(f) for f in flags]}
                res.case("helpers/residuals_mixed", case, close(got), nontrivial=0 < sum(flags) < m or m == 1,
                         signature="C16/helpers/residuals_mixed", observed=got, expected=want, item=it)  # fmt: skip
                res.case("helpers/vecResiduals_mixed", case, close(gotv), nontrivial=0 < sum(flags) < m or m == 1,
                         signature="C16/helpers/vecResiduals_mixed", observed=gotv, expected=want, item=it)  # fmt: skip
                # column form used by the particle filter: (M,S) against (M,1) with (M,1) flags
                pop = np.stack([av, av + 0.125, av - TWOPI], axis=1)
                gotc = rmaths.vecResiduals(pop, bv[:, None], fl[:, None])
                okc = gotc.shape == pop.shape and close(gotc[:, 0]) and all(
                    (ref.circ_dist(float(gotc[r, 2]), want[r]) <= 2 * tol[r]) if fl[r] else (float(gotc[r, 2]) == pop[r, 2] - bv[r])
                    for r in range(m)
                )
                res.case("helpers/vecResiduals_columns", case, okc, nontrivial=True,
                         signature="C16/helpers/vecResiduals_columns", observed=gotc, expected=want, item=it)  # fmt: skip
        # shape mismatch must be refused, not broadcast
        try:
            rmaths.residuals(np.zeros(3), np.zeros(2), np.ones(3, dtype=bool))
            raised = False
        except ShapeError:
            raised = True
        except Exception:  # noqa: BLE001
            raised = False
        res.case("helpers/residuals_shape", {"v": v}, raised, signature="C16/helpers/residuals_shape", item=it)


def _angmean_sets(tier, seed):
    centres = [0.0, 1e-12, -1e-12, PI / 2, PI - 1e-12, PI, PI + 1e-12, 3 * PI / 2, TWOPI - 1e-12, TWOPI, -PI, 1.0, -1e-3,
               1e-3, PI - 1e-3] + _seed_angles(seed, 2)  # fmt: skip
    spreads = [1e-9, 1e-3, 0.05, 0.3]
    patterns = {
        "single": [0.0],
        "pair": [-1.0, 1.0],
        "sym5": [0.0, 1.0, 0.5, -1.0, -0.5],
        "asym4": [0.0, 1.0, -0.3, 0.8],
        "sym9": [0.0, 1.0, 0.5, -0.25, 0.75, -1.0, -0.5, 0.25, -0.75],
        "asym5": [0.0, 1.0, 0.4, -0.7, -0.2],
        "asym9": [0.1, 1.0, 0.5, -0.25, 0.75, -0.8, -0.3, 0.3, -0.6],
    }
    if tier == "thorough":
        spreads += [1e-6, 0.15]
        centres += _seed_angles(seed + 101, 6)
    return centres, spreads, patterns


_SYM_PATTERNS = ("single", "pair", "sym5", "sym9")  # point sets symmetric about the centre (equal weights on both sides)
WEIGHT_SCALES = [2.0**-40, 1e9]


def _weight_scale_cases(res, case, angles, wts, low, high, got, tol, rname, it):
    """angularMean(angles, c * w) == angularMean(angles, w) for c > 0: c * w is rounded once more (relative eps per
    weight, i.e. one more rounding of the kind already in ``tol``), so 2 * tol."""
    for scale in WEIGHT_SCALES:
        got_c = float(rmaths.angularMean(angles, weights=wts * scale, high=high, low=low))
        d3 = abs((got_c - got + (high - low) / 2) % (high - low) - (high - low) / 2)
        res.case("helpers/angularMean_weight_scale", {**case, "scale": scale}, d3 <= 2 * tol, nontrivial=True,
                 signature=f"C16/helpers/angularMean_weight_scale/{rname}", observed=got_c, expected=got, item=it)  # fmt: skip


def _run_angmean(res, item):
    _, tier, seed, which = item
    ranges = [(0.0, TWOPI, "rad_0_2pi"), (-PI, PI, "rad_-pi_pi"), (0.0, 360.0, "deg_0_360"), (-180.0, 180.0, "deg_-180_180")]
    low, high, rname = ranges[which]
    unit = (high - low) / TWOPI  # representation units per radian
    centres, spreads, patterns = _angmean_sets(tier, seed)
    it = ("angmean", tier, seed, which)
    turnsets = [("none", [0]), ("alt", [0, 1, -1]), ("many", [1000, -1000, 7])]
    for ci, m in enumerate(centres):
        for pname, pat in patterns.items():
            npts = len(pat)
            weightings = [("none", None), ("uniform", np.full(npts, 1.0 / npts)), ("ramp", np.arange(1.0, npts + 1.0))]
            if npts in (5, 9):
                n = (npts - 1) // 2
                for alpha in (1e-3, 0.5, 1.0, 1e-4, 1e-5):
                    wm, _, gamma = ref.ut_weights(n, alpha, 2.0, None)
                    weightings.append((f"ukf_a{alpha:g}", wm, gamma))
            for sp in spreads:
                for wt in weightings:
                    wname, wts = wt[0], wt[1]
                    gamma = wt[2] if len(wt) > 2 else 1.0
                    for tname, tks in turnsets:
                        if tname == "many" and wname in ("ukf_a0.001", "ukf_a0.0001", "ukf_a1e-05"):
                            continue  # 1000 turns times weights of >= 1e6: angle representation error 1e-12 * 1e6 (see tol)
                        offs = [gamma * sp * p for p in pat]
                        # angles in representation units (radians or degrees), element j shifted by whole turns
                        angles = np.array([(m + o) * unit + (high - low) * tks[j % len(tks)] for j, o in enumerate(offs)])
                        exp, rnorm = ref.circular_mean(angles, wts, low, high)
                        got = float(rmaths.angularMean(angles, weights=None if wts is None else np.array(wts), high=high, low=low))
                        # error: each sin/cos term carries eps plus the representation error of its argument
                        # (ulp of |angle|+|low|, in radians), amplified by sum|w| / |resultant| = 1/rnorm
                        arg_ulp = max(ref.ulp(abs(float(a)) + abs(low)) for a in angles) / unit
                        tol = (8.0 * (EPS + arg_ulp) / rnorm + 4.0 * ref.ulp(TWOPI)) * unit
                        dist = abs((got - exp + (high - low) / 2) % (high - low) - (high - low) / 2)
                        nontriv = tname != "none" or _near_seam(m)
                        case = {"range": rname, "centre": m, "pattern": pname, "spread": sp, "weights": wname, "turns": tname}
                        res.case("helpers/angularMean", case, dist <= tol and low <= got <= high, nontrivial=nontriv,
                                 signature=f"C16/helpers/angularMean/{rname}", observed=got, expected=exp, item=it,
                                 outcome="neg_centre_weight" if (wts is not None and wts[0] < 0) else "pos_weights")  # fmt: skip
                        if got == high:
                            res.either_way += 1
                        # the mean lies in the cluster: positive weights -> inside the arc spanned by the points
                        # (arc <= 0.6 rad < pi); unscented weights on a symmetric pattern -> at the centre (see
                        # ref.cluster_envelope: B = 0).  Rounding as for the reference comparison.
                        if wts is None or wts[0] > 0 or pname in _SYM_PATTERNS:
                            radius = 0.0 if (wts is not None and wts[0] <= 0) else max(abs(o) for o in offs)
                            dc = abs((got - m * unit + (high - low) / 2) % (high - low) - (high - low) / 2)
                            res.case("helpers/angularMean_in_cluster", case, dc <= radius * unit + tol, nontrivial=nontriv,
                                     signature=f"C16/helpers/angularMean_in_cluster/{rname}", observed=got,
                                     expected=f"within {radius * unit + tol:g} of {m * unit:g}", item=it)  # fmt: skip
                        # the weights are only defined up to a positive factor (the code normalises them)
                        if wts is not None and tname == "none":
                            _weight_scale_cases(res, case, angles, np.array(wts), low, high, got, tol, rname, it)
                        # rotation identity on the code itself: mean(set + phi) == mean(set) + phi on the circle
                        if tname == "none" and ci % 3 == 0:
                            for phi in (PI / 2, PI, -1e-3, 2.5):
                                got_r = float(rmaths.angularMean(angles + phi * unit, weights=None if wts is None else np.array(wts),
                                                                 high=high, low=low))  # fmt: skip
                                d2 = abs((got_r - got - phi * unit + (high - low) / 2) % (high - low) - (high - low) / 2)
                                res.case("helpers/angularMean_rotation", {**case, "phi": phi}, d2 <= 2 * tol + 8 * EPS * abs(phi) * unit / rnorm,
                                         nontrivial=True, signature=f"C16/helpers/angularMean_rotation/{rname}",
                                         observed=got_r, expected=got + phi * unit, item=it)  # fmt: skip
                        res.observe(got)
    # unequal lengths must be refused
    try:
        rmaths.angularMean(np.array([0.1, 0.2, 0.3]), weights=np.array([0.5, 0.5]))
        raised = False
    except ShapeError:
        raised = True
    except Exception:  # noqa: BLE001
        raised = False
    res.case("helpers/angularMean_shape", {"range": rname}, raised, signature="C16/helpers/angularMean_shape", item=it)


# ---- sigma-point weightings of every state dimension: the weighted circular mean with a (strongly) negative centre weight
# angularMean divides the weights by norm(w): for unscented weights the resultant it takes the arctangent of has length
# 1 / norm(w) ~ alpha^2 (4.8e-7 for n = 6, alpha = 1e-3; 4.8e-9 for alpha = 1e-4; 4.8e-11 for alpha = 1e-5) however tight
# the cluster is, so anything keyed on the size of that resultant only shows for small (legal: 0 < alpha < 1) alpha.
SIG_DIMS = [2, 3, 4, 5, 6, 7, 8]
SIG_ALPHAS_Q = [1.0, 0.5, 0.05, 1e-2, 1e-3, 3e-4, 1e-4, 3e-5, 1e-5, 1e-6]
SIG_ALPHAS_T = SIG_ALPHAS_Q + [0.1, 2e-3, 2e-4, 1.5e-4, 7e-5, 3e-6]
SIG_KAPPAS = [None, 0.0]
SIG_DIRS = [1.0, 0.5, -0.25, 0.75, -1.0, 0.3, -0.6, 0.85]  # signed size of the + point of pair i (fraction of gamma * spread)
SIG_CURV = [0.0, 0.5, -2.0]  # second-order term of the point image: both points of a pair move by curv * d^2
SIG_SPREADS_Q = [1e-9, 1e-3, 0.3]
SIG_SPREADS_T = [1e-9, 1e-3, 0.05, 0.3, 1e-6, 0.15]


def _sig_alphas(tier):
    return SIG_ALPHAS_T if tier == "thorough" else SIG_ALPHAS_Q


def _run_angsig(res, item):
    """angularMean with the unscented mean weights of an n-state filter on sigma-point-like clusters
    [centre, centre + d_i + c d_i^2 (i = 1..n), centre - d_i + c d_i^2], d_i = gamma * spread * SIG_DIRS[i]."""
    _, tier, seed, which, n = item
    ranges = [(0.0, TWOPI, "rad_0_2pi"), (-PI, PI, "rad_-pi_pi"), (0.0, 360.0, "deg_0_360"), (-180.0, 180.0, "deg_-180_180")]
    low, high, rname = ranges[which]
    period = high - low
    unit = period / TWOPI
    centres, _, _ = _angmean_sets("quick", seed)
    it = ("angsig", tier, seed, which, n)

    def cdist(a, b):
        return abs((a - b + period / 2) % period - period / 2)

    for ci, m in enumerate(centres):
        for alpha in _sig_alphas(tier):
            for kappa in SIG_KAPPAS:
                wm, _, gamma = ref.ut_weights(n, alpha, 2.0, kappa)
                wabs = float(np.sum(np.abs(wm)))
                for sp in SIG_SPREADS_T if tier == "thorough" else SIG_SPREADS_Q:
                    for curv in SIG_CURV:
                        d = [gamma * sp * p for p in SIG_DIRS[:n]]
                        offs = [0.0] + [x + curv * x * x for x in d] + [-x + curv * x * x for x in d]
                        for tname, tks in (("none", [0]), ("alt", [0, 1, -1])):
                            angles = np.array([(m + o) * unit + period * tks[j % len(tks)] for j, o in enumerate(offs)])
                            exp, rnorm = ref.circular_mean(angles, wm, low, high)
                            got = float(rmaths.angularMean(angles, weights=wm.copy(), high=high, low=low))
                            # same derivation as in _run_angmean: eps per sin/cos term plus the representation error of
                            # its argument, amplified by sum|w| / |resultant| = 1 / rnorm (~ sum|w| here)
                            arg_ulp = max(ref.ulp(abs(float(a)) + abs(low)) for a in angles) / unit
                            tol = (8.0 * (EPS + arg_ulp) / rnorm + 4.0 * ref.ulp(TWOPI)) * unit
                            _diag("angsig/ref", cdist(got, exp), tol)
                            nontriv = bool(wm[0] < 0)  # the mechanism: a negative centre weight (kappa = 0, alpha = 1 gives w0 = 0)
                            case = {"range": rname, "n": n, "alpha": alpha, "kappa": kappa, "centre": m, "spread": sp,
                                    "curv": curv, "turns": tname, "sum_abs_w": wabs}  # fmt: skip
                            res.case("helpers/angularMean_sigma", case, cdist(got, exp) <= tol and low <= got <= high,
                                     nontrivial=nontriv, signature=f"C16/helpers/angularMean_sigma/{rname}", observed=got,
                                     expected=exp, item=it, outcome=f"sum|w|~1e{math.floor(math.log10(wabs))}")  # fmt: skip
                            if got == high:
                                res.either_way += 1
                            # the mean stays with the cluster: analytic envelope around the centre point
                            _, bound, _ = ref.envelope_from_offsets(offs[1 : n + 1], offs[n + 1 :], float(wm[1]), True)
                            if bound is not None:
                                dc = cdist(got, m * unit)
                                _diag("angsig/cluster", dc, bound * unit + tol)
                                res.case("helpers/angularMean_sigma_in_cluster", case, dc <= bound * unit + tol, nontrivial=nontriv,
                                         signature=f"C16/helpers/angularMean_sigma_in_cluster/{rname}", observed=got,
                                         expected=f"within {bound * unit + tol:g} of {m * unit:g}", item=it)  # fmt: skip
                            if tname != "none":
                                continue
                            if curv == 0.0 or tier == "thorough":
                                _weight_scale_cases(res, case, angles, wm, low, high, got, tol, rname, it)
                            # rotation equivariance on the code itself
                            for phi in (PI / 2, -1e-3, 2.5) if ci % 2 == 0 else (PI,):
                                got_r = float(rmaths.angularMean(angles + phi * unit, weights=wm.copy(), high=high, low=low))
                                d2 = cdist(got_r, got + phi * unit)
                                _diag("angsig/rot", d2, 2 * tol + 8 * EPS * abs(phi) * unit / rnorm)
                                res.case("helpers/angularMean_sigma_rotation", {**case, "phi": phi},
                                         d2 <= 2 * tol + 8 * EPS * abs(phi) * unit / rnorm, nontrivial=nontriv,
                                         signature=f"C16/helpers/angularMean_sigma_rotation/{rname}", observed=got_r,
                                         expected=got + phi * unit, item=it)  # fmt: skip
                            res.observe(got)


# ---- other point / weight sets whose resultant is tiny although the mean direction is perfectly defined
TINY_DELTAS_Q = [1e-5, 1e-7, 1e-9, 1e-11]
TINY_DELTAS_T = TINY_DELTAS_Q + [1e-3, 1e-6, 1e-8, 1e-10]


def _tiny_sets(delta):
    """(name, offsets from the centre, weights or None, direction of the mean relative to the centre or None).

    opposed: two points an (almost) half turn apart, resultant ~ delta;  tri / quad: points evenly spread over the
    circle with one weight (or one angle) off by delta, resultant ~ delta out of sum|w| = 3 or 4;  centre3: a 3-point
    'sigma set' with weights (1 - K, K/2, K/2), K = 1 / delta (resultant 1 out of sum|w| ~ 2K), points d = 0.3 sqrt(delta)
    from the centre, symmetric and first-moment-free asymmetric ((1 - K, K/3, 2K/3) at +2d, -d).
    """
    k = 1.0 / delta
    dk = 0.3 * math.sqrt(delta)  # spread ~ 1 / sqrt(weight), as for sigma points (gamma ~ alpha, weights ~ 1 / alpha^2)
    third = TWOPI / 3.0
    return [
        ("opposed_unweighted", [0.0, PI - delta], None),
        ("opposed_uniform", [0.0, PI - delta], [0.5, 0.5]),
        ("opposed_weighted", [0.0, PI], [1.0 + delta, 1.0]),
        ("tri_weight", [0.0, third, 2 * third], [1.0 + delta, 1.0, 1.0]),
        ("tri_angle_unweighted", [delta, third, 2 * third], None),
        ("quad_weight", [0.0, PI / 2, PI, 3 * PI / 2], [1.0, 1.0 + delta, 1.0, 1.0]),
        ("quad_angle_unweighted", [0.0, PI / 2 + delta, PI, 3 * PI / 2], None),
        ("centre3_sym", [0.0, dk, -dk], [1.0 - k, k / 2, k / 2]),
        ("centre3_asym", [0.0, 2 * dk, -dk], [1.0 - k, k / 3, 2 * k / 3]),
    ]


def _run_angtiny(res, item):
    _, tier, seed, which = item
    ranges = [(0.0, TWOPI, "rad_0_2pi"), (-PI, PI, "rad_-pi_pi"), (0.0, 360.0, "deg_0_360"), (-180.0, 180.0, "deg_-180_180")]
    low, high, rname = ranges[which]
    period = high - low
    unit = period / TWOPI
    centres, _, _ = _angmean_sets(tier, seed)
    it = ("angtiny", tier, seed, which)

    def cdist(a, b):
        return abs((a - b + period / 2) % period - period / 2)

    for m in centres:
        for delta in TINY_DELTAS_T if tier == "thorough" else TINY_DELTAS_Q:
            for sname, offs, wts in _tiny_sets(delta):
                angles = np.array([(m + o) * unit for o in offs])
                warr = None if wts is None else np.array(wts)
                exp, rnorm = ref.circular_mean(angles, wts, low, high)
                got = float(rmaths.angularMean(angles, weights=None if warr is None else warr.copy(), high=high, low=low))
                arg_ulp = max(ref.ulp(abs(float(a)) + abs(low)) for a in angles) / unit
                tol = (8.0 * (EPS + arg_ulp) / rnorm + 4.0 * ref.ulp(TWOPI)) * unit
                case = {"range": rname, "set": sname, "delta": delta, "centre": m, "resultant": rnorm}
                if tol > 0.05 * unit:  # resultant within rounding of zero: the documented undefined case
                    res.either_way += 1
                    continue
                _diag("angtiny/ref", cdist(got, exp), tol)
                res.case("helpers/angularMean_tiny_resultant", case, cdist(got, exp) <= tol and low <= got <= high, nontrivial=True,
                         signature=f"C16/helpers/angularMean_tiny_resultant/{rname}", observed=got, expected=exp, item=it,
                         outcome=sname)  # fmt: skip
                if sname.startswith("centre3"):
                    # sym: S = 0 exactly; asym: S = (K/3)(sin 2d - 2 sin d), |S| <= K d^3 / 3 = 0.009 sqrt(delta), and
                    # C >= 1 - K d^2 = 0.91: the mean is within 0.01 sqrt(delta) < d of the centre point
                    radius = max(abs(o) for o in offs)
                    dc = cdist(got, m * unit)
                    res.case("helpers/angularMean_tiny_in_cluster", case, dc <= radius * unit + tol, nontrivial=True,
                             signature=f"C16/helpers/angularMean_tiny_in_cluster/{rname}", observed=got,
                             expected=f"within {radius * unit + tol:g} of {m * unit:g}", item=it)  # fmt: skip
                if warr is not None:
                    _weight_scale_cases(res, case, angles, warr, low, high, got, tol, rname, it)
                for phi in (PI / 2, PI, -1e-3, 2.5):
                    got_r = float(rmaths.angularMean(angles + phi * unit, weights=None if warr is None else warr.copy(), high=high, low=low))
                    d2 = cdist(got_r, got + phi * unit)
                    _diag("angtiny/rot", d2, 2 * tol + 8 * EPS * abs(phi) * unit / rnorm)
                    res.case("helpers/angularMean_tiny_rotation", {**case, "phi": phi}, d2 <= 2 * tol + 8 * EPS * abs(phi) * unit / rnorm,
                             nontrivial=True, signature=f"C16/helpers/angularMean_tiny_rotation/{rname}", observed=got_r,
                             expected=got + phi * unit, item=it)  # fmt: skip
                res.observe(got)


# =================================================================================================== UKF (stubs)
def _compare_with_reference(res, sub, case, filt, exp, tols, sig0, nontriv, item, skip_posterior=False):
    """Real filter against the independent reference; every compared quantity is its own subcheck."""
    tol, tolc = tols
    ang = exp["is_angular"]
    flags_ok = filt.is_angular.dtype == bool and bool(np.array_equal(filt.is_angular, ang))
    res.case(f"{sub}/is_angular", case, flags_ok, nontrivial=nontriv, signature=f"C16/{sub}/is_angular",
             observed=filt.is_angular, expected=ang, item=item)  # fmt: skip
    if filt.mean_pred_y.shape != exp["mean_y"].shape:
        res.violate(f"{sub}/shape", case, signature=f"C16/{sub}/shape", observed=filt.mean_pred_y.shape, item=item)
        return
    sy = np.sqrt(np.diag(exp["innov_cvr"]))
    # predicted measurement mean: same point of the circle, reported inside the documented range of its flag
    d_mean, in_range = 0.0, True
    for j, k in enumerate(case["_kinds"]):
        if k == LIN:
            d_mean = max(d_mean, abs(filt.mean_pred_y[j] - exp["mean_y"][j]) / sy[j])
        else:
            d_mean = max(d_mean, ref.circ_dist(float(filt.mean_pred_y[j]), float(exp["mean_y"][j])) / sy[j])
            low, high = ref.RANGES[k]
            in_range = in_range and (low - 1e-12 <= filt.mean_pred_y[j] <= high + 1e-12)
    pub = {k: v for k, v in case.items() if not k.startswith("_")}
    _diag(f"{sub}/mean_pred_y", d_mean, tol)
    _diag(f"{sub}/innov_cvr", d_s := float(np.max(np.abs(filt.innov_cvr - exp["innov_cvr"]) / np.outer(sy, sy))), tolc)
    res.case(f"{sub}/mean_pred_y", pub, d_mean <= tol, nontrivial=nontriv, signature=f"C16/{sub}/mean_pred_y",
             observed=filt.mean_pred_y, expected=exp["mean_y"], item=item)  # fmt: skip
    res.case(f"{sub}/mean_pred_y_range", pub, in_range, nontrivial=nontriv, signature=f"C16/{sub}/mean_pred_y_range",
             observed=filt.mean_pred_y, expected="angular means inside [low, high] of their IsAngle flag", item=item)  # fmt: skip
    # predicted measurement mean stays with the sigma-point cluster: analytic envelope around the centre point's value
    # (ref.cluster_envelope; needs only the sigma-point images and the side weight, not the reference's own mean)
    ys, wside, nst = exp["ys"], float(exp["wm"][1]), (exp["ys"].shape[0] - 1) // 2
    in_cluster, worst = True, 0.0
    for j, k in enumerate(case["_kinds"]):
        _, bound, _ = ref.cluster_envelope(float(ys[0, j]), ys[1 : nst + 1, j], ys[nst + 1 :, j], wside, k != LIN)
        if bound is None:
            res.either_way += 1
            continue
        dev = abs(filt.mean_pred_y[j] - ys[0, j]) if k == LIN else ref.circ_dist(float(filt.mean_pred_y[j]), float(ys[0, j]))
        worst = max(worst, (dev - bound) / sy[j])
        in_cluster = in_cluster and dev <= bound + tol * sy[j]
    _diag(f"{sub}/mean_in_cluster", max(worst, 0.0), tol)
    res.case(f"{sub}/mean_in_cluster", pub, in_cluster, nontrivial=nontriv, signature=f"C16/{sub}/mean_in_cluster",
             observed=filt.mean_pred_y, expected="within the unscented envelope of the centre sigma point's measurement", item=item)  # fmt: skip
    res.case(f"{sub}/innov_cvr", pub, d_s <= tolc, nontrivial=nontriv, signature=f"C16/{sub}/innov_cvr", observed=d_s,
             expected=f"<= {tolc:g}", item=item)  # fmt: skip
    d_c = float(np.max(np.abs(filt.cross_cvr - exp["cross_cvr"]) / np.outer(sig0, sy)))
    _diag(f"{sub}/cross_cvr", d_c, tolc)
    res.case(f"{sub}/cross_cvr", pub, d_c <= tolc, nontrivial=nontriv, signature=f"C16/{sub}/cross_cvr", observed=d_c,
             expected=f"<= {tolc:g}", item=item)  # fmt: skip
    if skip_posterior:
        return
    d_nu = float(np.max(np.abs(filt.innovation - exp["innovation"]) / sy))
    res.case(f"{sub}/innovation", pub, d_nu <= tol, nontrivial=nontriv, signature=f"C16/{sub}/innovation",
             observed=filt.innovation, expected=exp["innovation"], item=item)  # fmt: skip
    dx = _dev_x(filt.est_x, exp["est_x"], sig0)
    dp = _dev_p(filt.est_p, exp["est_p"], sig0)
    _diag(f"{sub}/innovation", d_nu, tol)
    _diag(f"{sub}/est_x", dx, tol)
    _diag(f"{sub}/est_p", dp, tolc)
    res.case(f"{sub}/est_x", pub, dx <= tol, nontrivial=nontriv, signature=f"C16/{sub}/est_x", observed=filt.est_x,
             expected=exp["est_x"], item=item, outcome=f"1e{math.floor(math.log10(max(dx, 1e-17)))}")  # fmt: skip
    res.case(f"{sub}/est_p", pub, dp <= tolc, nontrivial=nontriv, signature=f"C16/{sub}/est_p", observed=dp,
             expected=f"<= {tolc:g}", item=item)  # fmt: skip


def _innovation_range(res, sub, pub, filt, kinds, nontriv, item):
    ok = all((-PI < v <= PI) for v, k in zip(filt.innovation, kinds) if k != LIN)
    res.case(f"{sub}/innovation_range", pub, ok, nontrivial=nontriv, signature=f"C16/{sub}/innovation_range",
             observed=filt.innovation, expected="angular components in (-pi, pi]", item=item)  # fmt: skip


def _same_posterior(res, sub, sig, pub, fa, fb, tols, sig0, nontriv, item, perm=None):
    """fa (variant) must reproduce fb (base) posterior; perm maps stacked component index of fa -> index in fb."""
    tol, tolc = tols if isinstance(tols, tuple) else (tols, tols)
    dx = _dev_x(fa.est_x, fb.est_x, sig0)
    dp = _dev_p(fa.est_p, fb.est_p, sig0)
    sy = np.sqrt(np.diag(fb.innov_cvr))
    nu_a = np.asarray(fa.innovation)
    nu_b = np.asarray(fb.innovation)
    if perm is not None:
        nu_b, sy = nu_b[perm], sy[perm]
    dn = float(np.max(np.abs(nu_a - nu_b) / sy)) if nu_a.shape == nu_b.shape else float("inf")
    ok = dx <= tol and dp <= tolc and dn <= tol
    _diag(sub, max(dx, dn), tol)
    _diag(sub + "[cov]", dp, tolc)
    res.case(sub, pub, ok, nontrivial=nontriv, signature=sig, observed={"dx_sigma": dx, "dp_sigma2": dp, "dnu_sigma": dn},
             expected=f"<= {tol:g} / {tolc:g} prior sigma", item=item, outcome=f"1e{math.floor(math.log10(max(dx, dp, dn, 1e-17)))}")  # fmt: skip
    return ok


def _stack_kinds(kind_names):
    return [k for name in kind_names for k, _ in OBS_KINDS[name]]


def _comp_perm(kind_names, order):
    """Index map: stacked component i of the permuted stack -> stacked component index in identity order."""
    starts, pos = [], 0
    for name in kind_names:
        starts.append(pos)
        pos += len(OBS_KINDS[name])
    out = []
    for slot in order:
        out.extend(range(starts[slot], starts[slot] + len(OBS_KINDS[kind_names[slot]])))
    return np.array(out, dtype=int)


def _run_ukf_item(res, item):
    _, tier, seed, ci, ms_idxs, ph = item
    for mi in ms_idxs:
        try:
            _ukf_multiset(res, tier, seed, ci, mi, ph)
        except Exception as exc:  # noqa: BLE001  an exception of the filter on a lattice point is a finding, not a harness error
            res.violate("ukf/exception", {"cfg": list(_ukf_cfgs(tier)[ci]), "multiset": mi}, nontrivial=True,
                        signature=f"C16/ukf/exception/{type(exc).__name__}", observed=repr(exc)[:300],
                        item=("ukf", tier, seed, ci, [mi], ph))  # fmt: skip


def _ukf_multiset(res, tier, seed, ci, mi, ph):
    n, alpha, kappa = _ukf_cfgs(tier)[ci]
    kinds_alpha = _kinds(tier)
    mss = _multisets(kinds_alpha)
    fmat = _LinDyn(n).fmat(DT)
    patterns = TURN_PATTERNS_T if tier == "thorough" else TURN_PATTERNS_Q
    if True:
        ms = mss[mi]
        names = [kinds_alpha[i] for i in ms]
        kinds = _stack_kinds(names)
        n_ang = sum(k != LIN for k in kinds)
        phase = ((seed + mi + ph) % 6, (seed + mi // 6 + 5 * ph) % 6)
        it = ("ukf", tier, seed, ci, [mi], ph)
        base_case = {"n": n, "alpha": alpha, "kappa": kappa, "stack": names, "phase": list(phase)}

        def reference(obs, kinds=kinds):
            z = np.array([v for ob in obs for v in ob.measurement_states])
            return ref.ref_ukf_step(X0[n], P0[n], fmat, QM[n], alpha, 2.0, kappa, _stack_h(obs), kinds, _block_r(obs), z)

        # ---------------- identity order, seam placements
        obs_s, info_s = _build_stack(n, names, phase, "seam")
        f_s = _run_ukf(n, alpha, kappa, obs_s)
        exp_s = reference(obs_s)
        sig0 = _sigma_scale(exp_s["pred_p"])
        tols = _tol(n, alpha, kappa, exp_s)
        tol, tolc = tols
        tol_perm = _tol_perm(exp_s)
        sy_min = float(np.min(np.sqrt(np.diag(exp_s["innov_cvr"]))))
        wsum = float(np.sum(np.abs(ref.ut_weights(n, alpha, 2.0, kappa)[0])))
        seam_near = n_ang > 0
        exact_seam = bool(np.array_equal(f_s.sigma_points[:, 0], _xref(n)))
        res.case("ukf/centre_sigma_on_xref", base_case, exact_seam, signature="C16/harness/centre_sigma_point",
                 observed=f_s.sigma_points[:, 0], expected=_xref(n), item=it)  # fmt: skip
        case = {**base_case, "variant": "seam", "places": [i["place"] for i in info_s], "_kinds": kinds}
        _compare_with_reference(res, "ukf/reference", case, f_s, exp_s, tols, sig0, seam_near, it)
        pub = {k: v for k, v in case.items() if not k.startswith("_")}
        _innovation_range(res, "ukf", pub, f_s, kinds, seam_near, it)
        res.observe(f_s.est_x, f_s.est_p, f_s.innovation)

        # ---------------- wrap point moved: the same stack with every angular component off-seam
        if n_ang:
            obs_o, _ = _build_stack(n, names, phase, "off")
            f_o = _run_ukf(n, alpha, kappa, obs_o)
            _same_posterior(res, "ukf/wrap_point", "C16/ukf/wrap_point", pub, f_s, f_o, tols, sig0, True, it)
            _compare_with_reference(res, "ukf/reference_offseam", {**case, "variant": "off"}, f_o, reference(obs_o), tols, sig0, False, it)
            # ---------------- full turns on the measured angles / on the predicted angles
            for pat in patterns:
                obs_t, _ = _build_stack(n, names, phase, "seam", turn_pattern=pat)
                f_t = _run_ukf(n, alpha, kappa, obs_t)
                kmax = max(abs(k) for k in pat)
                # the measured angle z + 2*pi*k is rounded to ulp(2*pi*|k|): the innovation may move by that much
                tol_t = tol + 4.0 * EPS * TWOPI * (kmax + 1) / sy_min
                cpub = {**pub, "variant": "turns_measured", "k": list(pat)}
                _same_posterior(res, "ukf/turns_measured", "C16/ukf/turns_measured", cpub, f_t, f_s, (tol_t, tolc), sig0, True, it)
                _innovation_range(res, "ukf/turns_measured", cpub, f_t, kinds, True, it)
            for pat in patterns[:2]:
                obs_p, _ = _build_stack(n, names, phase, "seam", kpred_pattern=pat)
                f_p = _run_ukf(n, alpha, kappa, obs_p)
                cpub = {**pub, "variant": "turns_predicted", "k": list(pat)}
                # every predicted angle y + 2*pi*k is rounded to ulp(2*pi*(|k|+1)); the weighted mean amplifies it by sum|w|
                tol_p = tol + 8.0 * EPS * TWOPI * (max(abs(k) for k in pat) + 1) * wsum / sy_min
                _same_posterior(res, "ukf/turns_predicted", "C16/ukf/turns_predicted", cpub, f_p, f_s, (tol_p, tolc + tol_p - tol), sig0, True, it)
                _innovation_range(res, "ukf/turns_predicted", cpub, f_p, kinds, True, it)
            # ---------------- measurement half a turn from the prediction: innovation stays in (-pi, pi]
            first_ang = next(j for j, k in enumerate(kinds) if k != LIN)
            obs_h, _ = _build_stack(n, names, phase, "seam", half_turn=float(exp_s["mean_y"][first_ang]))
            f_h = _run_ukf(n, alpha, kappa, obs_h)
            cpub = {**pub, "variant": "half_turn"}
            _innovation_range(res, "ukf/half_turn", cpub, f_h, kinds, True, it)
            exp_h = reference(obs_h)
            sy_h = float(np.sqrt(exp_h["innov_cvr"][first_ang, first_ang]))
            okh = abs(abs(f_h.innovation[first_ang]) - PI) <= tol * sy_h + 4 * EPS * TWOPI and \
                ref.circ_dist(float(f_h.innovation[first_ang]), float(exp_h["innovation"][first_ang])) <= tol * sy_h + 4 * EPS * TWOPI  # fmt: skip
            res.case("ukf/half_turn/value", cpub, okh, nontrivial=True, signature="C16/ukf/half_turn/value",
                     observed=f_h.innovation, expected=exp_h["innovation"], item=it)  # fmt: skip
            res.either_way += 1  # sign of a +-pi innovation is a rounding coin flip: posterior not compared

        # ---------------- forecast(): covariance part of the update through the same angular bookkeeping
        f_f = _run_ukf(n, alpha, kappa, obs_s, mode="forecast")
        dpf = _dev_p(f_f.est_p, f_s.est_p, sig0)
        dpr = _dev_p(f_f.est_p, exp_s["est_p"], sig0)
        res.case("ukf/forecast", pub, dpf <= tol_perm and dpr <= tolc and bool(np.array_equal(f_f.is_angular, f_s.is_angular)),
                 nontrivial=seam_near, signature="C16/ukf/forecast", observed=[dpf, dpr], expected=f"<= {tol_perm:g}, {tolc:g}", item=it)  # fmt: skip
        f_r = _run_ukf(n, alpha, kappa, obs_s, resample=True)
        if n_ang:
            f_ro = _run_ukf(n, alpha, kappa, _build_stack(n, names, phase, "off")[0], resample=True)
            _same_posterior(res, "ukf/wrap_point_resample", "C16/ukf/wrap_point_resample", pub, f_r, f_ro, tols, sig0, True, it)
        _innovation_range(res, "ukf/resample", pub, f_r, kinds, seam_near, it)

        # ---------------- every permutation of the stack (seam placements)
        for order in itertools.permutations(range(len(names))):
            if list(order) == sorted(order):
                continue
            obs_perm = [obs_s[s] for s in order]
            f_perm = _run_ukf(n, alpha, kappa, obs_perm)
            cperm = _comp_perm(names, order)
            kinds_p = [kinds[i] for i in cperm]
            cpub = {**pub, "variant": "permuted", "order": list(order)}
            _same_posterior(res, "ukf/permutation", "C16/ukf/permutation", cpub, f_perm, f_s, tol_perm, sig0, True, it, perm=cperm)
            _innovation_range(res, "ukf/permutation", cpub, f_perm, kinds_p, True, it)
            if tier == "thorough":  # redundant with permutation + reference of the identity order; kept as a cross-check
                exp_p = reference(obs_perm, kinds_p)
                _compare_with_reference(res, "ukf/reference_permuted", {**cpub, "_kinds": kinds_p}, f_perm, exp_p, tols, sig0, True, it)
            else:  # the bookkeeping the reference comparison would also see: flags follow the permuted order
                res.case("ukf/permutation/is_angular", cpub, bool(np.array_equal(f_perm.is_angular, [k != LIN for k in kinds_p])),
                         nontrivial=True, signature="C16/ukf/permutation/is_angular", observed=f_perm.is_angular, item=it)  # fmt: skip
            # the same update on a filter object that has already processed the un-permuted stack
            f_warm = _run_ukf(n, alpha, kappa, obs_perm, warm=obs_s)
            _same_posterior(res, "ukf/permutation_used_filter", "C16/ukf/permutation_used_filter", cpub, f_warm, f_perm, tol_perm, sig0, True, it)
            _innovation_range(res, "ukf/permutation_used_filter", cpub, f_warm, kinds_p, True, it)
            res.observe(f_perm.est_x)


def _block_r(obs):
    m = sum(ob.r_matrix.shape[0] for ob in obs)
    rmat = np.zeros((m, m))
    pos = 0
    for ob in obs:
        d = ob.r_matrix.shape[0]
        rmat[pos : pos + d, pos : pos + d] = ob.r_matrix
        pos += d
    return rmat


# =================================================================================================== UKF (real sensors)
T0 = datetime(2021, 3, 30, 16, 0, 0)
SITES = {"S1": (30.0, -100.0, 0.5), "S2": (20.0, -100.0, 0.1), "S3": (27.0, -94.0, 1.0)}
MEAS = {
    "radar": ["azimuth_rad", "elevation_rad", "range_km", "range_rate_km_p_sec"],
    "optical": ["azimuth_rad", "elevation_rad"],
    "azrng": ["range_km", "azimuth_rad"],
    "rng": ["range_km"],
}
MEAS_SIG = {"azimuth_rad": 2e-4, "elevation_rad": 3e-4, "range_km": 0.05, "range_rate_km_p_sec": 1e-3}
REAL_STACKS = [
    [("S1", "radar")],
    [("S1", "optical"), ("S2", "radar")],
    [("S2", "optical"), ("S1", "azrng"), ("S3", "optical")],
    [("S1", "radar"), ("S2", "optical"), ("S3", "radar"), ("S2", "rng")],
]
# target azimuth as seen from S1 (east offset of the slant vector, km, at 1000 km slant range towards north)
REAL_PLACEMENTS_Q = [("north+", 1e-9), ("north-", -1e-9), ("north+1e-4", 0.08), ("north-1e-4", -0.08), ("east", None)]
REAL_PLACEMENTS_T = REAL_PLACEMENTS_Q + [("north0", 0.0), ("north+1e-3", 0.8), ("north-1e-3", -0.8), ("south", "south")]


REAL_4STACK_PLACEMENTS_Q = ("north+", "north-1e-4")
GPF_ORDERS_4_Q = [(3, 2, 1, 0), (1, 2, 3, 0), (2, 3, 0, 1), (1, 0, 2, 3), (0, 1, 3, 2), (0, 2, 1, 3), (3, 0, 2, 1)]


def _real_alphas(tier):
    return [1e-3, 1.0, 1e-4] if tier == "quick" else [1e-3, 0.05, 0.5, 1.0, 1e-4, 1e-5]


def _real_placements(tier):
    return REAL_PLACEMENTS_T if tier == "thorough" else REAL_PLACEMENTS_Q


class _ShiftedAzimuth(Azimuth):
    """Real azimuth with its wrap point moved by ``shift`` (still reported in [0, 2pi))."""

    def __init__(self, shift):
        self.shift = shift

    def calculate(self, sen_eci_state, tgt_eci_state, utc_date):
        return _rep(A2, float(super().calculate(sen_eci_state, tgt_eci_state, utc_date)) + self.shift)


def _real_setup(seed, east):
    t0 = T0 + timedelta(hours=seed % 5, minutes=(7 * seed) % 60)
    lat, lon, alt = SITES["S1"]
    s1 = lla2eci(np.array([math.radians(lat), math.radians(lon), alt]), t0)
    if east is None:
        sez = np.array([1e-7, 800.0, 600.0, 0.0, 0.0, 0.0])  # due east of S1
    elif east == "south":
        sez = np.array([800.0, 1e-9, 600.0, 0.0, 0.0, 0.0])  # due south: azimuth pi, no seam for a 0..2pi angle
    else:
        sez = np.array([-800.0, east, 600.0, 0.0, 0.0, 0.0])  # north of S1 (south component negative), 1000 km slant
    pos = s1[:3] + sez2eci(sez, math.radians(lat), math.radians(lon), t0)[:3]
    vel = np.array([-2.0, 5.0, 4.0])
    x_pred = np.concatenate([pos, vel])
    x0 = np.concatenate([pos - vel * DT, vel])  # constant-velocity stub: the predicted centre is x_pred
    ch = np.diag([1.0, 0.8, 1.2, 1e-2, 1e-2, 1e-2])
    ch[1, 0], ch[2, 0], ch[2, 1], ch[3, 0], ch[4, 1] = 0.3, -0.2, 0.25, 2e-3, -1e-3
    return t0, x0, x_pred, ch @ ch.T, 1e-10 * np.eye(6)


class _LabelOrder(Exception):
    """Measurement.fromMeasurementLabels did not keep the caller's component order (a finding, not a harness error)."""

    def __init__(self, asked, got):
        super().__init__(f"asked {list(asked)} got {list(got)}")
        self.asked, self.got = list(asked), list(got)


def _require_caller_order(meas, labels):
    if list(meas.labels) != list(labels) or [type(m).LABEL for m in meas._measurements] != list(labels):  # noqa: SLF001
        raise _LabelOrder(labels, meas.labels)


def _real_obs(t0, x_pred, stack, seed, turns=None, shift=None):
    jd = float(datetimeToJulianDate(t0))
    obs, kinds = [], []
    g = 0
    for slot, (site, mname) in enumerate(stack):
        lat, lon, alt = SITES[site]
        sen = lla2eci(np.array([math.radians(lat), math.radians(lon), alt]), t0)
        labels = MEAS[mname]
        rmat = np.diag([MEAS_SIG[lb] ** 2 for lb in labels])
        if shift is None:
            meas = Measurement.fromMeasurementLabels(labels, rmat)
            _require_caller_order(meas, labels)
        else:
            base = Measurement.fromMeasurementLabels(labels, rmat)
            _require_caller_order(base, labels)
            types = [_ShiftedAzimuth(shift) if lb == "azimuth_rad" else mt for lb, mt in zip(labels, base._measurements)]  # noqa: SLF001
            meas = Measurement(types, rmat)
        truth = x_pred + np.array([0.4, -0.3, 0.2, 1e-3, -2e-3, 1e-3]) * (1 + 0.1 * slot)
        vals = meas.calculateMeasurement(sen, truth, t0, noisy=False)
        for lb in labels:
            kinds.append(A2 if lb == "azimuth_rad" else AN if lb == "elevation_rad" else LIN)
            if lb == "azimuth_rad":
                nu = [3e-4, -2e-4, 1e-4][(g + seed) % 3]
                k = turns[g % len(turns)] if turns else 0
                vals[lb] = _rep(A2, float(vals[lb]) + nu) + TWOPI * k
                g += 1
            else:
                vals[lb] = float(vals[lb]) + 0.5 * MEAS_SIG[lb]
        obs.append(Observation(jd, 10001, 20001 + slot, "Radar", sen, meas, **vals))
    return obs, kinds


def _real_h(obs, t0):  # noqa: ARG001
    """Stacked real measurement function, evaluated at the observation's own epoch converted as the filter does."""
    utc = [julianDateToDatetime(JulianDate(ob.julian_date)) for ob in obs]

    def hfun(state):
        out = []
        for ob, when in zip(obs, utc):
            out.extend(ob.measurement.calculateMeasurement(ob.sensor_eci, state, when, noisy=False).values())
        return np.array([float(v) for v in out])

    return hfun


def _run_real_ukf(x0, p0, q, alpha, obs, warm=None):
    filt = UnscentedKalmanFilter(10001, ScenarioTime(0.0), x0.copy(), p0.copy(), _LinDyn(6), q.copy(), alpha=alpha, beta=2.0)
    filt.predict(ScenarioTime(DT))
    if warm is not None:
        filt.forecast(warm)
    filt.update(obs)
    return filt


def _run_real_item(res, item):
    try:
        _run_real_item_body(res, item)
    except _LabelOrder as exc:
        # the stacked components (hence flags, predicted rows and measured values) are no longer in the order the
        # noise covariance was given in: everything downstream is mis-assigned
        res.violate("real/measurement_order", {"asked": exc.asked, "got": exc.got, "stack": [f"{s}:{m}" for s, m in REAL_STACKS[item[5]]]},
                    nontrivial=True, signature="C16/real/measurement_order", observed=exc.got, expected=exc.asked, item=tuple(item))  # fmt: skip


def _run_real_item_body(res, item):
    _, tier, seed, ai, pi_, si = item
    alpha = _real_alphas(tier)[ai]
    pname, east = _real_placements(tier)[pi_]
    stack = REAL_STACKS[si]
    t0, x0, x_pred, p0, q = _real_setup(seed, east)
    obs, kinds = _real_obs(t0, x_pred, stack, seed)
    fmat = _LinDyn(6).fmat(DT)
    # tolerance in prior sigmas, as for the stubs; the real measurement function is evaluated by the same resonaate
    # code in filter and reference, so only summation order differs
    f0 = _run_real_ukf(x0, p0, q, alpha, obs)
    exp = ref.ref_ukf_step(x0, p0, fmat, q, alpha, 2.0, None, _real_h(obs, t0), kinds, _block_r(obs),
                           np.array([v for ob in obs for v in ob.measurement_states]))  # fmt: skip
    sig0 = _sigma_scale(exp["pred_p"])
    tols = _tol(6, alpha, None, exp)
    tol, tolc = tols
    tol_perm = _tol_perm(exp)
    az_pred = [float(v) for v, lb in zip(_real_h(obs, t0)(x_pred), [lb for ob in obs for lb in ob.measurement.labels]) if lb == "azimuth_rad"]
    near = any(min(a, TWOPI - a) <= 1.001e-3 for a in az_pred)
    sig_az = [float(np.sqrt(exp["innov_cvr"][j, j])) for j, k in enumerate(kinds) if k == A2]
    it = tuple(item)
    case = {"alpha": alpha, "placement": pname, "stack": [f"{s}:{m}" for s, m in stack], "az_pred": az_pred, "_kinds": kinds}
    pub = {k: v for k, v in case.items() if not k.startswith("_")}
    _compare_with_reference(res, "real/reference", case, f0, exp, tols, sig0, near, it)
    _innovation_range(res, "real", pub, f0, kinds, near, it)
    res.observe(f0.est_x, f0.est_p)
    # sigma points really straddle the seam?  (reported, not required)
    res.outcomes[f"real/straddle:{bool(near and sig_az and max(sig_az) * ref.ut_weights(6, alpha, 2.0, None)[2] > min(min(a, TWOPI - a) for a in az_pred))}"] += 1
    # ---- full turns on every measured azimuth
    for pat in ((1,), (-1, 1000), (-1000, 7)):
        obs_t, _ = _real_obs(t0, x_pred, stack, seed, turns=pat)
        f_t = _run_real_ukf(x0, p0, q, alpha, obs_t)
        tol_t = tol + 4.0 * EPS * TWOPI * (max(abs(k) for k in pat) + 1) / min(sig_az)
        cpub = {**pub, "variant": "turns_measured", "k": list(pat)}
        _same_posterior(res, "real/turns_measured", "C16/real/turns_measured", cpub, f_t, f0, (tol_t, tolc), sig0, True, it)
        _innovation_range(res, "real/turns_measured", cpub, f_t, kinds, True, it)
    # ---- wrap point of the real azimuth moved by a quarter / half turn / tiny amount
    for shift in (PI / 2, PI, -1e-3, 1e-9):
        obs_sh, _ = _real_obs(t0, x_pred, stack, seed, shift=shift)
        f_sh = _run_real_ukf(x0, p0, q, alpha, obs_sh)
        cpub = {**pub, "variant": "wrap_point", "shift": shift}
        # the shifted measurement rounds az + shift once more (ulp(2pi)) before the filter sees it
        tol_s = tol + 8.0 * EPS * TWOPI * float(np.sum(np.abs(ref.ut_weights(6, alpha, 2.0, None)[0]))) / min(sig_az)
        _same_posterior(res, "real/wrap_point", "C16/real/wrap_point", cpub, f_sh, f0, (tol_s, tolc + tol_s - tol), sig0, True, it)
        _innovation_range(res, "real/wrap_point", cpub, f_sh, kinds, True, it)
    # ---- every permutation
    starts, pos = [], 0
    for ob in obs:
        starts.append(pos)
        pos += ob.r_matrix.shape[0]
    for order in itertools.permutations(range(len(obs))):
        if list(order) == sorted(order):
            continue
        obs_p = [obs[s] for s in order]
        cperm = np.array([j for s in order for j in range(starts[s], starts[s] + obs[s].r_matrix.shape[0])], dtype=int)
        f_p = _run_real_ukf(x0, p0, q, alpha, obs_p)
        cpub = {**pub, "variant": "permuted", "order": list(order)}
        _same_posterior(res, "real/permutation", "C16/real/permutation", cpub, f_p, f0, tol_perm, sig0, True, it, perm=cperm)
        _innovation_range(res, "real/permutation", cpub, f_p, [kinds[i] for i in cperm], True, it)
        f_w = _run_real_ukf(x0, p0, q, alpha, obs_p, warm=obs)
        _same_posterior(res, "real/permutation_used_filter", "C16/real/permutation_used_filter", cpub, f_w, f_p, tol_perm, sig0, True, it)
        _innovation_range(res, "real/permutation_used_filter", cpub, f_w, [kinds[i] for i in cperm], True, it)


# =================================================================================================== component order
# One physical measurement may list its components in any order as long as the noise covariance is given in the same
# order.  Measurement.fromMeasurementLabels (the factory every sensor uses) must keep the caller's order for the types,
# labels, angular flags, predicted rows AND the covariance; the built-in Optical / Radar label lists happen to be
# alphabetical, so only other orders can tell a re-sorted component list from a kept one.
LAB_SIG = {"azimuth_rad": 2e-4, "elevation_rad": 5e-4, "range_km": 0.05, "range_rate_km_p_sec": 2e-3}  # unequal on purpose
_LAB_CORR = {("azimuth_rad", "elevation_rad"): 0.3, ("azimuth_rad", "range_km"): -0.2, ("azimuth_rad", "range_rate_km_p_sec"): 0.15,
             ("elevation_rad", "range_km"): 0.25, ("elevation_rad", "range_rate_km_p_sec"): -0.1,
             ("range_km", "range_rate_km_p_sec"): 0.4}  # fmt: skip
LAB_CLASS = {"azimuth_rad": Azimuth, "elevation_rad": Elevation, "range_km": Range, "range_rate_km_p_sec": RangeRate}
LAB_KIND = {"azimuth_rad": A2, "elevation_rad": AN, "range_km": LIN, "range_rate_km_p_sec": LIN}
LAB_FLAG = {lb: FLAG[k] for lb, k in LAB_KIND.items()}
# every subset of >= 2 of the four components, in the documented (azimuth, elevation, range, range rate) order:
# the radar-like 4-set, the (az, el, range) 3-set of the basic radar description, the optical-like (az, el) pair, ...
LAB_SETS = [c for m in (4, 3, 2) for c in itertools.combinations(LABELS, m)]
LAB_SELECTIONS = [(si, perm) for si, cset in enumerate(LAB_SETS) for perm in itertools.permutations(range(len(cset)))]
LAB_CHUNK = 6
LAB_PLACEMENTS_Q = ("north+", "east")
LAB_PLACEMENTS_T = ("north+", "north-", "north-1e-4", "east", "south")
LAB_PARTNER_SCALE = 1.5  # the second sensor's noise: same table, 1.5 times the sigmas
SENSOR_KINDS = {"optical": ("azimuth_rad", "elevation_rad"), "radar": tuple(LABELS), "adv_radar": tuple(LABELS)}


def _lab_alphas(tier):
    return [1e-3, 1.0] if tier == "quick" else [1e-3, 1.0, 1e-4, 0.5]


def _lab_placements(tier):
    names = LAB_PLACEMENTS_T if tier == "thorough" else LAB_PLACEMENTS_Q
    return [p for p in REAL_PLACEMENTS_T if p[0] in names]


def _lab_cov(labels, scale=1.0):
    """Noise covariance of the components ``labels`` IN THAT ORDER: R[i, j] = cov(labels[i], labels[j]) from the table."""
    m = len(labels)
    r = np.zeros((m, m))
    for i, a in enumerate(labels):
        for j, b in enumerate(labels):
            rho = 1.0 if a == b else _LAB_CORR.get((a, b), _LAB_CORR.get((b, a)))
            r[i, j] = rho * LAB_SIG[a] * LAB_SIG[b] * scale * scale
    return r


def _site_eci(site, t0):
    lat, lon, alt = SITES[site]
    return lla2eci(np.array([math.radians(lat), math.radians(lon), alt]), t0)


def _lab_direct(label, sen, state, when):
    """One component evaluated by its own class, without any Measurement object in between."""
    return float(LAB_CLASS[label]().calculate(sen, state, when))


def _lab_values(labels, sen, truth, when):
    """Reported values by label name: noise-free value at ``truth`` plus half a sigma (azimuth kept in [0, 2pi))."""
    out = {}
    for lb in labels:
        v = _lab_direct(lb, sen, truth, when) + 0.5 * LAB_SIG[lb]
        out[lb] = _rep(A2, v) if lb == "azimuth_rad" else v
    return out


class _LabWorld:
    """Filter set-up + the two sensors of one (alpha, placement): main sensor at S1, partner (optical-like) at S2."""

    def __init__(self, tier, seed, ai, pi_):
        self.alpha = _lab_alphas(tier)[ai]
        self.pname, east = _lab_placements(tier)[pi_]
        self.t0, self.x0, self.x_pred, self.p0, self.q = _real_setup(seed, east)
        self.jd = float(datetimeToJulianDate(self.t0))
        self.when = julianDateToDatetime(JulianDate(self.jd))  # the epoch as the filter converts it
        self.sen = {"S1": _site_eci("S1", self.t0), "S2": _site_eci("S2", self.t0)}
        self.truth = {"S1": self.x_pred + np.array([0.4, -0.3, 0.2, 1e-3, -2e-3, 1e-3]),
                      "S2": self.x_pred + np.array([0.44, -0.33, 0.22, 1.1e-3, -2.2e-3, 1.1e-3])}  # fmt: skip
        self.fmat = _LinDyn(6).fmat(DT)

    def observation(self, site, labels, scale=1.0, meas=None):
        """Real Observation of ``site`` with the components declared in the order ``labels`` (values passed by name)."""
        if meas is None:
            meas = Measurement.fromMeasurementLabels(list(labels), _lab_cov(labels, scale))
        vals = _lab_values(labels, self.sen[site], self.truth[site], self.when)
        return Observation(self.jd, 10001, 20001 + int(site[1]), "Radar", self.sen[site], meas, **vals)

    def reference(self, specs):
        """Independent UKF step for the stack ``specs`` = [(site, labels, scale), ...]: own h (component classes called
        one by one), own block R (from the table), own z (by name); nothing is read from a Measurement object."""
        rows = [(site, lb) for site, labels, _ in specs for lb in labels]
        kinds = [LAB_KIND[lb] for _, lb in rows]
        m = len(rows)
        rmat, pos, z = np.zeros((m, m)), 0, []
        for site, labels, scale in specs:
            d = len(labels)
            rmat[pos : pos + d, pos : pos + d] = _lab_cov(labels, scale)
            pos += d
            vals = _lab_values(labels, self.sen[site], self.truth[site], self.when)
            z.extend(vals[lb] for lb in labels)

        def hfun(state):
            return np.array([_lab_direct(lb, self.sen[site], state, self.when) for site, lb in rows])

        exp = ref.ref_ukf_step(self.x0, self.p0, self.fmat, self.q, self.alpha, 2.0, None, hfun, kinds, rmat, np.array(z))
        return exp, kinds, rows

    def run(self, obs):
        return _run_real_ukf(self.x0, self.p0, self.q, self.alpha, obs)


def _lab_structure(res, world, site, labels, meas, pub, it, sub="labels/order"):
    """The Measurement (and an Observation made from it) lists everything in the caller's order."""
    labels = list(labels)
    nontriv = labels != sorted(labels)  # an order a sorted() / set() of the labels would change
    want_r = _lab_cov(labels)
    types = [type(m) for m in meas._measurements]  # noqa: SLF001
    res.case(f"{sub}/labels", pub, list(meas.labels) == labels, nontrivial=nontriv, signature=f"C16/{sub}/labels",
             observed=list(meas.labels), expected=labels, item=it)  # fmt: skip
    res.case(f"{sub}/types", pub, types == [LAB_CLASS[lb] for lb in labels], nontrivial=nontriv, signature=f"C16/{sub}/types",
             observed=[t.__name__ for t in types], expected=[LAB_CLASS[lb].__name__ for lb in labels], item=it)  # fmt: skip
    res.case(f"{sub}/is_angular", pub, list(meas.angular_values) == [LAB_FLAG[lb] for lb in labels], nontrivial=nontriv,
             signature=f"C16/{sub}/is_angular", observed=[int(a) for a in meas.angular_values],
             expected=[int(LAB_FLAG[lb]) for lb in labels], item=it)  # fmt: skip
    res.case(f"{sub}/r_matrix", pub, meas.dim == len(labels) and bool(np.array_equal(np.asarray(meas.r_matrix), want_r)),
             nontrivial=nontriv, signature=f"C16/{sub}/r_matrix", observed=np.asarray(meas.r_matrix), expected=want_r, item=it)  # fmt: skip
    sen = world.sen[site]
    direct = [_lab_direct(lb, sen, world.truth[site], world.when) for lb in labels]
    calc = meas.calculateMeasurement(sen, world.truth[site], world.when, noisy=False)
    ok_calc = list(calc.keys()) == labels and [float(v) for v in calc.values()] == direct
    res.case(f"{sub}/calculate", pub, ok_calc, nontrivial=nontriv, signature=f"C16/{sub}/calculate",
             observed={k: float(v) for k, v in calc.items()}, expected=dict(zip(labels, direct)), item=it)  # fmt: skip
    ob = Observation.fromMeasurement(world.jd, 10001, world.truth[site], 20001, sen, "Radar", meas, noisy=False)
    ok_ob = bool(np.array_equal(ob.measurement_states, np.array(direct))) and list(ob.angular_values) == [LAB_FLAG[lb] for lb in labels] \
        and bool(np.array_equal(np.asarray(ob.r_matrix), want_r)) and ob.dim == len(labels)  # fmt: skip
    res.case(f"{sub}/observation", pub, ok_ob, nontrivial=nontriv, signature=f"C16/{sub}/observation",
             observed=ob.measurement_states, expected=direct, item=it)  # fmt: skip


def _lab_perm(rows_variant, rows_base):
    index = {row: j for j, row in enumerate(rows_base)}
    return np.array([index[row] for row in rows_variant], dtype=int)


def _lab_near(world, exp, kinds):
    az = [float(v) for v, k in zip(exp["ys"][0], kinds) if k == A2]
    return any(min(a, TWOPI - a) <= 1.001e-3 for a in az)


def _lab_partner(sel_index):
    """The second sensor lists its (az, el) pair in either order (alternating with the selection index)."""
    return ("azimuth_rad", "elevation_rad") if sel_index % 2 == 0 else ("elevation_rad", "azimuth_rad")


def _run_labels_item(res, item):
    _, tier, seed, ai, pi_, sel_idxs = item
    try:
        _labels_selections(res, tier, seed, ai, pi_, list(sel_idxs))
    except Exception as exc:  # noqa: BLE001  an exception on a lattice point is a finding (see _run_ukf_item)
        res.violate("labels/exception", {"alpha_index": ai, "placement_index": pi_, "selections": list(sel_idxs)}, nontrivial=True,
                    signature=f"C16/labels/exception/{type(exc).__name__}", observed=repr(exc)[:300], item=tuple(item))  # fmt: skip


def _labels_selections(res, tier, seed, ai, pi_, sel_idxs):
    world = _LabWorld(tier, seed, ai, pi_)
    canon_partner = ("azimuth_rad", "elevation_rad")
    base = {}  # per label set: canonical-order filters (alone / stacked with the partner) and their tolerances

    def base_of(si):
        if si not in base:
            cset = LAB_SETS[si]
            out = {}
            for vname, specs in (("alone", [("S1", cset, 1.0)]), ("stack", [("S1", cset, 1.0), ("S2", canon_partner, LAB_PARTNER_SCALE)])):
                exp, kinds, rows = world.reference(specs)
                filt = world.run([world.observation(site, labels, scale) for site, labels, scale in specs])
                out[vname] = (filt, exp, kinds, rows, _sigma_scale(exp["pred_p"]), _tol_perm(exp))
            base[si] = out
        return base[si]

    for sel in sel_idxs:
        si, perm = LAB_SELECTIONS[sel]
        cset = LAB_SETS[si]
        labels = tuple(cset[j] for j in perm)
        identity = labels == cset
        it = ("labels", tier, seed, ai, pi_, [sel])
        pub0 = {"alpha": world.alpha, "placement": world.pname, "labels": list(labels)}
        meas = Measurement.fromMeasurementLabels(list(labels), _lab_cov(labels))
        _lab_structure(res, world, "S1", labels, meas, pub0, it)
        partner = _lab_partner(sel)
        variants = [
            ("alone", [("S1", labels, 1.0)], "alone"),
            ("first", [("S1", labels, 1.0), ("S2", partner, LAB_PARTNER_SCALE)], "stack"),
            ("last", [("S2", partner, LAB_PARTNER_SCALE), ("S1", labels, 1.0)], "stack"),
        ]
        for vname, specs, bname in variants:
            pub = {**pub0, "variant": vname, "partner": list(partner) if vname != "alone" else None}
            obs = [world.observation(site, lbs, scale) for site, lbs, scale in specs]
            filt = world.run(obs)
            exp, kinds, rows = world.reference(specs)
            sig0 = _sigma_scale(exp["pred_p"])
            near = _lab_near(world, exp, kinds)
            moved = not identity or vname == "last" or (vname == "first" and partner != canon_partner)
            # (a) against the independent reference for exactly this declared order
            _compare_with_reference(res, "labels/reference", {**pub, "_kinds": kinds}, filt, exp, _tol(6, world.alpha, None, exp),
                                    sig0, moved or near, it)  # fmt: skip
            _innovation_range(res, "labels", pub, filt, kinds, moved or near, it)
            # (b) against the real filter fed the documented order: the posterior may not depend on the declared order
            f_b, _, _, rows_b, sig_b, tol_perm = base_of(si)[bname]
            if moved:
                sub = "labels/component_order" if vname == "alone" else "labels/stack_order"
                _same_posterior(res, sub, f"C16/{sub}", pub, filt, f_b, tol_perm, sig_b, True, it, perm=_lab_perm(rows, rows_b))
            res.observe(filt.est_x, filt.est_p, filt.innovation)


def _run_labsensor_item(res, item):
    _, tier, seed, ai, pi_ = item
    try:
        _labels_sensors(res, tier, seed, ai, pi_)
    except Exception as exc:  # noqa: BLE001
        res.violate("labels/sensor/exception", {"alpha_index": ai, "placement_index": pi_}, nontrivial=True,
                    signature=f"C16/labels/sensor/exception/{type(exc).__name__}", observed=repr(exc)[:300], item=tuple(item))  # fmt: skip


def _sensor_from_config(kind, labels):
    """A shipped sensor built the way a scenario builds it: pydantic sensor config -> sensorFactory."""
    from resonaate.scenario.config.sensor_config import AdvRadarConfig, OpticalConfig, RadarConfig  # noqa: PLC0415
    from resonaate.sensors import sensorFactory  # noqa: PLC0415

    common = {"azimuth_range": [0.0, 359.99], "elevation_range": [-89.9, 89.9], "covariance": _lab_cov(labels).tolist(),
              "slew_rate": 3.0, "field_of_view": {"fov_shape": "conic", "cone_angle": 10.0}}  # fmt: skip
    if kind == "optical":
        cfg = OpticalConfig(aperture_diameter=1.0, efficiency=0.98, **common)
    else:
        cls = RadarConfig if kind == "radar" else AdvRadarConfig
        cfg = cls(aperture_diameter=27.0, efficiency=0.9, tx_power=2.5e6, tx_frequency=1.5e9,
                  min_detectable_power=1.4314085925969573e-14, **common)  # fmt: skip
    return sensorFactory(cfg)


def _labels_sensors(res, tier, seed, ai, pi_):
    """The config path: covariance given in the documented component order of the sensor type -> sensorFactory ->
    sensor.measurement; an update with that Measurement equals the update with the factory-built one and the reference."""
    world = _LabWorld(tier, seed, ai, pi_)
    it = ("labsensor", tier, seed, ai, pi_)
    for kind, labels in SENSOR_KINDS.items():
        pub0 = {"alpha": world.alpha, "placement": world.pname, "sensor": kind, "labels": list(labels)}
        sensor = _sensor_from_config(kind, labels)
        meas = sensor.measurement
        _lab_structure(res, world, "S1", labels, meas, pub0, it, sub="labels/sensor/order")
        res.case("labels/sensor/order/sensor_r_matrix", pub0, bool(np.array_equal(np.asarray(sensor.r_matrix), _lab_cov(labels))),
                 nontrivial=True, signature="C16/labels/sensor/order/sensor_r_matrix", observed=np.asarray(sensor.r_matrix),
                 expected=_lab_cov(labels), item=it)  # fmt: skip
        partner = ("elevation_rad", "azimuth_rad")
        for vname, order in (("alone", None), ("first", 0), ("last", 1)):
            pub = {**pub0, "variant": vname}
            main_ob = world.observation("S1", labels, meas=meas)
            specs = [("S1", labels, 1.0)]
            obs = [main_ob]
            if order is not None:
                specs.insert(1 - order, ("S2", partner, LAB_PARTNER_SCALE))
                obs.insert(1 - order, world.observation("S2", partner, LAB_PARTNER_SCALE))
            filt = world.run(obs)
            exp, kinds, rows = world.reference(specs)
            sig0 = _sigma_scale(exp["pred_p"])
            _compare_with_reference(res, "labels/sensor/reference", {**pub, "_kinds": kinds}, filt, exp,
                                    _tol(6, world.alpha, None, exp), sig0, True, it)  # fmt: skip
            # same stack with the main Measurement built directly by the factory, components reversed
            rev = tuple(reversed(labels))
            specs_r = [(s, rev if s == "S1" else lbs, sc) for s, lbs, sc in specs]
            f_r = world.run([world.observation(s, lbs, sc) for s, lbs, sc in specs_r])
            rows_r = [(s, lb) for s, lbs, _ in specs_r for lb in lbs]
            _same_posterior(res, "labels/sensor/component_order", "C16/labels/sensor/component_order", pub, f_r, filt,
                            _tol_perm(exp), sig0, True, it, perm=_lab_perm(rows_r, rows))  # fmt: skip
            res.observe(filt.est_x, filt.est_p)


# =================================================================================================== GPF
GPF_POP = 100


def _gpf_population(n):
    """Fixed particle lattice around the predicted state: 3^n grid (n = 4: 81) + axis points, GPF_POP columns."""
    xref = _xref(n)
    chol = np.linalg.cholesky(P0[n])
    pts = [np.array(p, dtype=float) for p in itertools.product((-1.0, 0.0, 1.0), repeat=n)]
    j = 0
    while len(pts) < GPF_POP:
        e = np.zeros(n)
        e[j % n] = 2.0 + 0.5 * (j // n) * (-1.0 if j % 2 else 1.0)
        pts.append(e)
        j += 1
    return np.array([xref + chol @ (1.3 * p) for p in pts[:GPF_POP]]).T


def _make_gpf(n):
    np.random.seed(20210330)
    filt = GeneticParticleFilter(10001, ScenarioTime(DT), _xref(n).copy(), P0[n].copy(), _LinDyn(n), population_size=GPF_POP,
                                 mutation_strength=[1e-3] * n)  # fmt: skip
    filt.population = _gpf_population(n)
    filt.scores = np.ones(GPF_POP) / GPF_POP
    filt.pred_x = _xref(n).copy()
    return filt


def _gpf_reference_residuals(obs, pop):
    rows = []
    for ob in obs:
        z = ob.measurement_states
        for j, comp in enumerate(ob.measurement._measurements):  # noqa: SLF001
            y = np.array([comp.value(pop[:, s]) for s in range(pop.shape[1])])
            if comp.kind == LIN:
                rows.append(y - z[j])
            else:
                d = np.exp(1j * (y - z[j]))
                rows.append(np.arctan2(d.imag, d.real))
    return np.array(rows)


GPF_ANG_SCALE = 500.0  # the GPF scores particles with exp(-v' R v / 2) (R, not its inverse): angular R of (10 rad)^2 makes
#                        the scores of the lattice particles differ by factors, so that "scores unchanged" is not vacuous


def _gpf_drive(n, obs, direct=False):
    """forecast() on one filter (particle residuals + scores), update() on a second one (innovation, formed before the
    random resampling).  ``direct``: additionally call calculateResidualsFromObservations itself and return its value."""
    filt = _make_gpf(n)
    filt.forecast(obs)
    resid = np.array(filt.particle_residuals)
    scores = np.array(filt.scores)
    filt3 = _make_gpf(n)
    filt3.update(obs)
    extra = None
    if direct:
        filt4 = _make_gpf(n)
        true_y, r4 = filt4.calculateResidualsFromObservations(obs)
        extra = (np.array(true_y), np.array(r4))
    return filt, resid, scores, np.array(filt3.innovation), extra


def _run_gpf_item(res, item):
    _, tier, seed, ms_idxs, ph = item
    for mi in ms_idxs:
        try:
            _gpf_multiset(res, tier, seed, mi, ph)
        except Exception as exc:  # noqa: BLE001
            res.violate("gpf/exception", {"multiset": mi}, nontrivial=True, signature=f"C16/gpf/exception/{type(exc).__name__}",
                        observed=repr(exc)[:300], item=("gpf", tier, seed, [mi], ph))  # fmt: skip


def _gpf_multiset(res, tier, seed, mi, ph):
    n = 4
    kinds_alpha = _kinds(tier)
    names = [kinds_alpha[i] for i in _multisets(kinds_alpha)[mi]]
    kinds = _stack_kinds(names)
    n_ang = sum(k != LIN for k in kinds)
    phase = ((seed + mi + 3 * ph) % 6, (seed + mi // 6 + ph) % 6)
    it = ("gpf", tier, seed, [mi], ph)
    pub = {"stack": names, "phase": list(phase)}
    ang = np.array([k != LIN for k in kinds])

    def circ(d):
        return np.where(ang[:, None], np.minimum(np.abs(d), np.abs(TWOPI - np.abs(d))), np.abs(d))

    obs_s, _ = _build_stack(n, names, phase, "seam", ang_scale=GPF_ANG_SCALE)
    f_s, r_s, sc_s, nu_s, direct = _gpf_drive(n, obs_s, direct=True)
    want = _gpf_reference_residuals(obs_s, _gpf_population(n))
    zmax = max(abs(float(v)) for ob in obs_s for v in ob.measurement_states)
    tolr = 8 * EPS * (zmax + 2 * TWOPI)  # roundings of pop - z, +-2pi, +pi, -pi at magnitude <= |z| + 2*2pi
    if r_s.shape != want.shape:
        res.violate("gpf/residuals", pub, signature="C16/gpf/residuals/shape", observed=r_s.shape, expected=want.shape, item=it)
        return
    d = circ(r_s - want)
    okr = bool(np.all(d <= tolr)) and bool(np.all(r_s[ang] >= -PI)) and bool(np.all(r_s[ang] <= PI))
    res.case("gpf/residuals", pub, okr, nontrivial=n_ang > 0, signature="C16/gpf/residuals", observed=float(np.max(d)),
             expected=f"<= {tolr:g} and angular rows in [-pi, pi]", item=it)  # fmt: skip
    z_all = np.array([v for ob in obs_s for v in ob.measurement_states])
    res.case("gpf/direct_call", pub, bool(np.array_equal(direct[0], z_all)) and bool(np.array_equal(direct[1], r_s)),
             signature="C16/gpf/direct_call", observed=direct[0], expected=z_all, item=it)  # fmt: skip
    res.case("gpf/is_angular", pub, bool(np.array_equal(f_s.is_angular, ang)), nontrivial=n_ang > 0,
             signature="C16/gpf/is_angular", observed=f_s.is_angular, expected=ang, item=it)  # fmt: skip
    ok_nu = nu_s.shape == (len(kinds),) and all(-PI <= v <= PI for v, k in zip(nu_s, kinds) if k != LIN)
    res.case("gpf/innovation_range", pub, ok_nu, nontrivial=n_ang > 0, signature="C16/gpf/innovation_range",
             observed=nu_s, expected="angular components in [-pi, pi]", item=it)  # fmt: skip
    discriminating = float(np.max(sc_s) / max(float(np.min(sc_s)), 1e-300)) > 1.5
    res.outcomes[f"gpf/scores_discriminate:{discriminating}"] += 1
    res.observe(r_s, sc_s, nu_s)
    rmat = _block_r(obs_s)
    gain = float(np.max(np.sum(np.abs(rmat @ want), axis=0)))  # max_particles sum_j |(R v)_j|
    vmax = np.maximum(np.max(np.abs(want), axis=1), 1e-3)

    def unchanged(sub, cpub, r_v, sc_v, nu_v, tolv, perm=None):
        r_b, nu_b, vm = (r_s, nu_s, vmax) if perm is None else (r_s[perm], nu_s[perm], vmax[perm])
        if r_v.shape != r_b.shape or nu_v.shape != nu_b.shape:
            res.violate(sub, cpub, nontrivial=True, signature=f"C16/{sub}/shape", observed=[r_v.shape, nu_v.shape], item=it)
            return
        dv = float(np.max(circ(r_v - r_b) if perm is None else np.abs(r_v - r_b)))
        # score = exp(-v'Rv/2) / sum: a residual change dv changes log(score) by <= sum_j |(Rv)_j| dv (twice after
        # normalisation); the innovation is the score-weighted mean of the residual rows
        tol_sc = (4.0 * gain * tolv + 1e-12) * float(np.max(sc_s))
        dsc = float(np.max(np.abs(sc_v - sc_s)))
        dn = float(np.max((np.abs(nu_v - nu_b)) / vm))
        tol_nu = 4.0 * tolv / float(np.min(vm)) + GPF_POP * tol_sc / float(np.max(sc_s)) / GPF_POP * 4.0
        ok = dv <= tolv and dsc <= tol_sc and dn <= tol_nu
        res.case(sub, cpub, ok, nontrivial=discriminating or perm is not None, signature=f"C16/{sub}",
                 observed={"dres": dv, "dscore": dsc, "dnu_rel": dn}, expected={"dres": tolv, "dscore": tol_sc, "dnu_rel": tol_nu},
                 item=it)  # fmt: skip

    if n_ang:
        variants = [("wrap_point", {}, 1)]
        for pat in ((1,), (-1, 2), (1000, -7)):
            variants.append(("turns_measured", {"turn_pattern": pat}, max(abs(k) for k in pat)))
        variants.append(("turns_predicted", {"kpred_pattern": (1, -1)}, 1))
        for vname, kw, kmax in variants:
            mode = "off" if vname == "wrap_point" else "seam"
            obs_v, _ = _build_stack(n, names, phase, mode, ang_scale=GPF_ANG_SCALE, **kw)
            _, r_v, sc_v, nu_v, _ = _gpf_drive(n, obs_v)
            tolv = 16 * EPS * TWOPI * (kmax + 2)  # measured/predicted angles carry ulp(2*pi*(|k|+1)) each
            unchanged(f"gpf/{vname}", {**pub, "variant": vname, **{k: list(v) for k, v in kw.items()}}, r_v, sc_v, nu_v, tolv)
    orders = list(itertools.permutations(range(len(names))))
    if tier == "quick" and len(names) == 4:
        orders = GPF_ORDERS_4_Q  # announced lattice: quick runs 7 fixed orders of a GPF 4-stack, thorough all 24
    for order in orders:
        if list(order) == sorted(order):
            continue
        cperm = _comp_perm(names, order)
        _, r_p, sc_p, nu_p, _ = _gpf_drive(n, [obs_s[s] for s in order])
        unchanged("gpf/permutation", {**pub, "order": list(order)}, r_p, sc_p, nu_p, 0.0, perm=cperm)


# =================================================================================================== flags
def _run_flags(res, item):
    """Per-component IsAngle bookkeeping of the real measurement classes (documented ranges are the reference)."""
    it = tuple(item)
    want = {"azimuth_rad": IsAngle.ANGLE_0_2PI, "elevation_rad": IsAngle.ANGLE_NEG_PI_PI, "range_km": IsAngle.NOT_ANGLE,
            "range_rate_km_p_sec": IsAngle.NOT_ANGLE}  # fmt: skip
    for cls in (Azimuth, Elevation, Range, RangeRate):
        res.case("flags/type", {"label": cls.LABEL}, cls().is_angular == want[cls.LABEL], nontrivial=True,
                 signature=f"C16/flags/type/{cls.LABEL}", observed=int(cls().is_angular), expected=int(want[cls.LABEL]), item=it)  # fmt: skip
    ok_map = (
        set(VALID_ANGLE_MAP) == {IsAngle.ANGLE_0_2PI, IsAngle.ANGLE_NEG_PI_PI}
        and tuple(VALID_ANGLE_MAP[IsAngle.ANGLE_0_2PI]) == (0.0, TWOPI)
        and tuple(VALID_ANGLE_MAP[IsAngle.ANGLE_NEG_PI_PI]) == (-PI, PI)
        and set(VALID_ANGULAR_MEASUREMENTS) == set(VALID_ANGLE_MAP)
        and IsAngle.NOT_ANGLE not in VALID_ANGULAR_MEASUREMENTS
    )
    res.case("flags/range_map", {}, ok_map, nontrivial=True, signature="C16/flags/range_map",
             observed={int(k): list(v) for k, v in VALID_ANGLE_MAP.items()}, item=it)  # fmt: skip
    # every ordered selection of 1..4 distinct measurement labels: flags follow the label order, through Measurement
    # and through a real Observation
    sen = np.array([7000.0, 0.0, 0.0, 0.0, 7.5, 0.0])
    for m in range(1, 5):
        for labels in itertools.permutations(LABELS, m):
            meas = Measurement.fromMeasurementLabels(list(labels), np.diag([1e-4] * m))
            exp = [want[lb] for lb in labels]
            vals = {lb: 0.25 * (j + 1) for j, lb in enumerate(labels)}
            ob = Observation(JD0, 1, 2, "Radar", sen, meas, **vals)
            ok = list(meas.angular_values) == exp and list(ob.angular_values) == exp and list(meas.labels) == list(labels) \
                and bool(np.array_equal(ob.measurement_states, np.array([vals[lb] for lb in labels])))  # fmt: skip
            res.case("flags/measurement_order", {"labels": list(labels)}, ok, nontrivial=m > 1,
                     signature="C16/flags/measurement_order", observed=[int(a) for a in meas.angular_values],
                     expected=[int(a) for a in exp], item=it)  # fmt: skip
    res.observe(ok_map)



# =================================================================================================== multiple-model seam
# Combined innovation of the real multiple-model filters (StaticMultipleModel, GeneralizedPseudoBayesian1) whose
# hypotheses lie on both sides of the azimuth seam: the statement's "moving the wrap point ... leaves the update
# unchanged, angular innovations in (-180, 180]" has to hold for the innovation every filter class reports.
MM_REF_AZ_DEG = [0.0, 359.97, 0.03, 90.0, 180.0, 270.0]
MM_SPREADS_DEG = [0.08, 0.4]
MM_WEIGHTS = {2: [[0.5, 0.5], [0.8, 0.2]], 3: [[1 / 3, 1 / 3, 1 / 3], [0.6, 0.3, 0.1]]}
MM_SITE = (35.0, -105.0, 0.3)
MM_EPOCH0 = (2021, 3, 30, 16, 0, 0)
MM_DT = 60.0


def _mm_wrap(d):
    return np.arctan2(np.sin(d), np.cos(d))


def _mm_target(az_deg, el_deg, rng_km, when):
    """ECI state of a point seen from MM_SITE at (az, el, range), on a circular-speed tangential velocity."""
    lat, lon, alt = math.radians(MM_SITE[0]), math.radians(MM_SITE[1]), MM_SITE[2]
    az, el = math.radians(az_deg), math.radians(el_deg)
    sez = rng_km * np.array([-math.cos(el) * math.cos(az), math.cos(el) * math.sin(az), math.sin(el)])
    site = lla2eci(np.array([lat, lon, alt]), when)
    rel = sez2eci(np.concatenate([sez, np.zeros(3)]), lat, lon, when)
    pos = site[:3] + rel[:3]
    t_hat = np.cross(np.array([0.0, 0.0, 1.0]), pos)
    t_hat /= np.linalg.norm(t_hat)
    return np.concatenate([pos, math.sqrt(398600.4418 / np.linalg.norm(pos)) * t_hat]), site


def _run_mmseam(res, item):
    import datetime as _dt

    from resonaate.dynamics.two_body import TwoBody
    from resonaate.estimation.adaptive.gpb1 import GeneralizedPseudoBayesian1
    from resonaate.estimation.adaptive.initialization import lambertInitializationFactory
    from resonaate.estimation.adaptive.mmae_stacking_utils import eciStack
    from resonaate.estimation.adaptive.smm import StaticMultipleModel
    from resonaate.estimation.maneuver_detection import StandardNis

    it = tuple(item)
    _, tier, seed, cls_name, k_models = it
    cls = {"smm": StaticMultipleModel, "gpb1": GeneralizedPseudoBayesian1}[cls_name]
    e0 = _dt.datetime(*MM_EPOCH0)
    e1 = e0 + _dt.timedelta(seconds=MM_DT)
    jd1 = float(datetimeToJulianDate(e1))
    dyn = TwoBody()
    p0 = np.diag([0.05, 0.05, 0.05, 1e-8, 1e-8, 1e-8])
    q = 1e-14 * np.eye(6)
    flip = np.array([1, 1, 1, -1, -1, -1.0])
    meas_sets = [(["azimuth_rad", "elevation_rad"], "Optical"), (["elevation_rad", "azimuth_rad"], "Optical"),
                 (["azimuth_rad", "elevation_rad", "range_km", "range_rate_km_p_sec"], "AdvRadar")]  # fmt: skip

    def ukf(x0):
        return UnscentedKalmanFilter(10001, ScenarioTime(0.0), x0, p0.copy(), dyn, q, maneuver_detection=StandardNis(1e-9))

    for ref_az in MM_REF_AZ_DEG:
        for spread in MM_SPREADS_DEG:
            offs = [+1.0, -1.0] if k_models == 2 else [+1.0, -1.0, +0.25]
            truth, site = _mm_target(ref_az, 50.0, 1200.0, e1)
            hyp1 = [_mm_target((ref_az + o * spread) % 360.0, 50.0, 1200.0, e1)[0] for o in offs]
            hyp0 = [dyn.propagate(ScenarioTime(0.0), ScenarioTime(MM_DT), h * flip) * flip for h in hyp1]
            for w0 in MM_WEIGHTS[k_models]:
                for labels, stype in meas_sets:
                    case = {"filter": cls_name, "models": k_models, "ref_az_deg": ref_az, "spread_deg": spread,
                            "weights": w0, "labels": labels}  # fmt: skip
                    mm = cls(ukf(np.mean(hyp0, axis=0)), ScenarioTime(MM_DT), lambertInitializationFactory("lambert_universal"),
                             eciStack, previous_obs_window=1, model_interval=MM_DT, prune_threshold=1e-300,
                             prune_percentage=0.997)  # fmt: skip
                    mm.models = [ukf(x0) for x0 in hyp0]
                    mm.num_models = k_models
                    mm.model_weights = np.array(w0, dtype=float)
                    mm.model_likelihoods = np.ones(k_models)
                    mm.mode_probabilities = np.array(w0, dtype=float)
                    meas = Measurement.fromMeasurementLabels(labels, np.diag([1.0e-6] * len(labels)))
                    ob = Observation.fromMeasurement(jd1, 10001, truth, 300001, site, stype, meas, noisy=False)
                    mm.predict(ScenarioTime(MM_DT))
                    mm.update([ob])
                    if len(mm.models) != k_models:
                        res.case("mm_seam/models_kept", case, True, item=it)  # pruned: nothing to compare
                        continue
                    y = np.asarray(ob.measurement_states, dtype=float)
                    ang = np.array([lb in ("azimuth_rad", "elevation_rad") for lb in labels])
                    preds = [np.asarray(m.mean_pred_y, dtype=float) for m in mm.models]
                    per = np.array([np.where(ang, _mm_wrap(y - yh), y - yh) for yh in preds])
                    w = np.asarray(mm.model_weights, dtype=float)
                    exp = w @ per
                    got = np.asarray(mm.innovation, dtype=float)
                    on_seam = ref_az in (0.0, 359.97, 0.03)
                    straddle = on_seam and (max(p[labels.index("azimuth_rad")] for p in preds)
                                            - min(p[labels.index("azimuth_rad")] for p in preds)) > math.pi  # fmt: skip
                    ok_shape = got.shape == exp.shape
                    scale = np.where(ang, 1.0, 1.0e3)
                    err = float(np.max(np.abs(got - exp) / scale)) if ok_shape else float("inf")
                    res.case("mm_seam/innovation_is_weighted_wrapped_model_innovation", case, ok_shape and err <= 1e-9,
                             nontrivial=straddle, key=("mm", cls_name, k_models, ref_az, spread, tuple(w0), tuple(labels)),
                             signature=f"C16/mm_seam/innovation/{cls_name}/{'straddling' if straddle else 'off_seam'}",
                             observed=got.tolist(), expected=exp.tolist(), item=it)  # fmt: skip
                    lo, hi = per.min(axis=0) - 1e-9, per.max(axis=0) + 1e-9
                    inside = ok_shape and bool(np.all(got >= lo) and np.all(got <= hi))
                    in_range = ok_shape and bool(np.all((got[ang] > -PI - 1e-12) & (got[ang] <= PI + 1e-12)))
                    res.case("mm_seam/innovation_within_model_span", case, inside and in_range, nontrivial=straddle,
                             outcome=f"{cls_name}/{'straddling' if straddle else 'off_seam'}",
                             signature=f"C16/mm_seam/span/{cls_name}/{'straddling' if straddle else 'off_seam'}",
                             observed=got.tolist(), expected=[lo.tolist(), hi.tolist()], item=it)  # fmt: skip
                    res.observe(got, w)


# =================================================================================================== dispatch
def run_item(item):
    res = fw.Result()
    item = _detuple(item)
    kind = item[0]
    if kind == "wrap":
        _run_wrap(res, item)
    elif kind == "residual":
        _run_residual(res, item)
    elif kind == "angmean":
        _run_angmean(res, item)
    elif kind == "angsig":
        _run_angsig(res, item)
    elif kind == "angtiny":
        _run_angtiny(res, item)
    elif kind == "flags":
        _run_flags(res, item)
    elif kind == "mmseam":
        _run_mmseam(res, item)
    elif kind == "ukf":
        _run_ukf_item(res, item)
    elif kind == "real":
        _run_real_item(res, item)
    elif kind == "gpf":
        _run_gpf_item(res, item)
    elif kind == "labels":
        _run_labels_item(res, item)
    elif kind == "labsensor":
        _run_labsensor_item(res, item)
    else:
        raise ValueError(kind)
    return res


def _detuple(item):
    return tuple(item)
