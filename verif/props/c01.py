"""C01 - every scheduled event takes effect exactly once, at its configured time.

History explorer on the real scenario loop (fake ray, in-memory DB, default schedule): for every (start instant, step,
event offset pattern) of the lattice a real Scenario is built with one event on every step boundary plus events at
boundary+-1 s and mid-step, of every kind; each Event subclass' handleEvent is wrapped (in the harness process) to log
(row id, handler identity, step).  Oracles are computed in exact integer seconds.
"""
from __future__ import annotations

import math
from datetime import datetime, timedelta

import numpy as np

from verif import framework as fw
from verif import scen

from resonaate.data.events import Event  # noqa: E402
from resonaate.dynamics.two_body import TwoBody  # noqa: E402
from resonaate.physics.transforms.methods import ntw2eci  # noqa: E402

PROPERTY = "C01"
LEVEL = "model_checking"
RULE = (
    "for every (start instant, physics step) of the lattice, real Scenario runs of N steps whose event tables hold one "
    "event on EVERY step boundary k*dt (k=1..N) cycling through all instantaneous kinds (ECI impulse, NTW impulse, "
    "target addition, target removal, sensor addition, sensor removal) plus events 1 s before/after a boundary and "
    "mid-step; planned impulses with estimation on; duration events (task priority on two engines, sensor time bias "
    "on two sensors) with start/end on boundaries, boundary+-1 s and mid-step; a bias-queue family with 27 time biases "
    "on two sensors over 14 steps in which 1, 2, 3 and 4 biases of ONE sensor end in the same step (adjacent in its "
    "queue, separated by a live one, behind a live head, identical twins, zero-length twins, born and over within one "
    "step) - after every step each sensor must hold exactly the biases whose interval contains the epoch, each once "
    "(non-trivial there = a bias judged in a step in which another bias of the same sensor leaves the queue). "
    "Every delivery is logged by wrapping "
    "handleEvent; the oracle step index is ceil(offset/dt) in integer seconds. non-trivial = event exactly on a step "
    "boundary, or a duration event with an end on a boundary; distinct by (start, dt, event index)."
)
ASSUMPTIONS = [
    "the default job completion order (schedule independence is C08's subject)",
    "two-body propagation between impulses (TwoBody.propagate, C03's subject) is used by the impulse-effect reference; "
    "an impulse of 1e-2 km/s missed or doubled is 4 orders above the 1e-6 km/s tolerance",
]
EXPECT_MIN_NONTRIVIAL = 100
DV = 1.0e-2

_LOG: list = []
_STEP = [0]


def _install_wrappers():
    if getattr(Event, "_verif_wrapped", False):
        return
    Event._generateRegistry()  # noqa: SLF001
    for cls in Event.EVENT_REGISTRY.values():
        orig = cls.handleEvent

        def wrapped(self, scope_instance, _orig=orig):
            ident = getattr(scope_instance, "simulation_id", None)
            if ident is None:
                ident = getattr(scope_instance, "unique_id", None)
            _LOG.append((self.id, self.event_type, type(scope_instance).__name__, ident, _STEP[0]))
            return _orig(self, scope_instance)

        cls.handleEvent = wrapped
    Event._verif_wrapped = True


def worker_init():
    _install_wrappers()


# ----------------------------------------------------------------------------------------------- lattice
def _starts(tier, seed):
    base = [
        datetime(2021, 3, 30, 16, 0, 0),
        datetime(2021, 3, 30, 16, 0, 1),
        datetime(2018, 11, 5, 7, 30, 37),
        datetime(2019, 12, 31, 23, 59, 58),
        datetime(2020, 2, 29, 12, 0, 0),
        datetime(2019, 12, 31, 23, 50, 0),
    ]
    if tier == "thorough":
        d0 = datetime(2016, 1, 1) + timedelta(days=(seed * 37) % 2400)
        for i in range(42):
            base.append(d0 + timedelta(days=53 * i, hours=(7 * i) % 24, minutes=(11 * i) % 60, seconds=(i * 17 + seed) % 60))
    else:
        d0 = datetime(2017, 5, 1) + timedelta(days=(seed * 37) % 1500)
        base.append(d0 + timedelta(hours=5, minutes=17, seconds=(seed * 13 + 29) % 60))
    return base


def _dts(tier):
    return [60, 300] if tier == "quick" else [2, 7, 30, 60, 300, 3600]


def items(tier, seed):
    n_inst = 40 if tier == "quick" else 200
    n_est = 10 if tier == "quick" else 24
    out = []
    for st in _starts(tier, seed):
        for dt in _dts(tier):
            n = n_inst if dt < 3600 else 48
            out.append(("instant", st.isoformat(), dt, n))
    # the CONFIGURED span vs the run: (a) the span ends exactly on the last step of the run, so the last boundary event
    # sits on the stop epoch; (b) the span is shorter than the run (legal: the caller of propagateTo decides how far
    # to go), so half of the events lie past stop_timestamp - all of them are still "inside the simulated span"
    for st in _starts(tier, seed)[:: (3 if tier == "quick" else 1)]:
        for dt in _dts(tier)[:: (2 if tier == "quick" else 1)]:
            n = 12 if tier == "quick" else 30
            out.append(("instant", st.isoformat(), dt, n, n))
            out.append(("instant", st.isoformat(), dt, n, n // 2))
            # every configured timestamp written with a UTC offset other than Z: the library reads the wall-clock
            # fields of all of them alike, so delivery and effect must be exactly those of the Z-designated configuration
            out.append(("instant", st.isoformat(), dt, n, n + 1, "+02:00"))
            out.append(("instant", st.isoformat(), dt, n, n + 1, "-05:30"))
    est_starts = _starts(tier, seed)[: (4 if tier == "quick" else 12)] + _starts(tier, seed)[-1:]
    for st in est_starts:
        for dt in ([60, 300] if tier == "quick" else [30, 60, 300]):
            out.append(("planned", st.isoformat(), dt, n_est))
            out.append(("duration", st.isoformat(), dt, n_est))
            # many biases per sensor: queue maintenance with several entries starting / ending in the same step
            out.append(("biasq", st.isoformat(), dt, BIASQ_STEPS))
    return out


def bounds(tier, seed):
    return {
        "starts": [s.isoformat() for s in _starts(tier, seed)],
        "steps": _dts(tier),
        "run_length_instant": 40 if tier == "quick" else 200,
        "run_length_estimation": 10 if tier == "quick" else 24,
        "configured_span_vs_run": ["run + 1 step", "equal to the run (last event on the stop epoch)", "half the run"],
        "event_offsets_seconds": ["k*dt", "k*dt-1", "k*dt+1", "k*dt-dt/2", "k*dt+0.3", "k*dt-0.3", "k*dt+0.5", "k*dt+1.7"],
        "bias_queue_family": {
            "run_length": BIASQ_STEPS,
            "events": len(_biasq_events(60)),
            "groups_per_sensor": sorted({f"{e['sensor']}:{e['group']}" for e in _biasq_events(60)}),
            "simultaneously_leaving_one_queue": [1, 2, 3, 4],
            "shapes": ["adjacent in the queue", "separated by a live entry", "behind a live head", "head leaves first",
                       "identical twins", "zero-length twins on a boundary", "handed over and over within one step",
                       "ends on boundary / boundary-1 / mid-step", "same instants on both sensors"],
        },
    }


# ----------------------------------------------------------------------------------------------- helpers
def _oracle_step(offset_s, dt: int) -> int:
    """Step whose interval (t_{k-1}, t_k] contains the offset (exact: integers, or Fractions of milliseconds)."""
    from fractions import Fraction  # noqa: PLC0415

    q = Fraction(str(offset_s)) / dt
    return -((-q.numerator) // q.denominator)


def _impulse(tid, when, vec, frame, planned=False):
    return {
        "scope": "agent_propagation", "scope_instance_id": tid, "start_time": scen.iso(when), "event_type": "impulse",
        "thrust_vector": list(vec), "thrust_frame": frame, "planned": planned,
    }


def _target_add(eid, when, tid, pos, vel):
    return {
        # the instance id of the scenario-step scope is free (0 is only conventional): 0, 1 and 2 are all used
        "scope": "scenario_step", "scope_instance_id": tid % 3, "start_time": scen.iso(when), "event_type": "target_addition",
        "tasking_engine_id": eid, "target_agent": scen.target_eci(tid, pos, vel),
    }


def _sensor_add(eid, when, sid, j):
    # a space-based sensor: SensorAdditionEvent for a ground facility raises JSONDecodeError in its own handler
    # (station_keeping_json is "" for non-spacecraft platforms) - an incidental defect outside C01, noted in DESIGN.md
    pos, vel = [0.0, 9000.0 + 200.0 * j, 50.0 * j], [-4.5, 0.0, 4.5]
    return {
        "scope": "scenario_step", "scope_instance_id": sid % 3, "start_time": scen.iso(when), "event_type": "sensor_addition",
        "tasking_engine_id": eid, "sensor_agent": scen.space_sensor(sid, pos, vel, kind="optical"),
    }


def _removal(eid, when, aid, kind):
    return {
        "scope": "scenario_step", "scope_instance_id": aid % 3, "start_time": scen.iso(when), "event_type": "agent_removal",
        "tasking_engine_id": eid, "agent_id": aid, "agent_type": kind,
    }


def _kind_of_failure(steps, want):
    if not steps:
        return "dropped"
    if len(steps) > 1:
        return "duplicated"
    d = steps[0] - want
    return f"wrong_step({d:+d})"


# ----------------------------------------------------------------------------------------------- instant events
def _instant_events(st, dt, n):
    """One event on every boundary + off-boundary events. Returns list of dict(meta) sorted like the builder sorts."""
    evs = []
    add_t, add_s = [], []  # (id, step added) pending removal
    next_tid, next_sid = 30001, 40001
    sign = {10001: 1.0, 10002: 1.0}
    for k in range(1, n + 1):
        slot = k % 6
        off = k * dt
        if slot == 1:
            evs.append({"kind": "impulse_eci", "agent": 10001, "offset": off, "vec": [0.0, 0.0, DV * sign[10001]]})
            sign[10001] *= -1
        elif slot == 2:
            evs.append({"kind": "impulse_ntw", "agent": 10002, "offset": off, "vec": [0.0, DV * sign[10002], 0.0]})
            sign[10002] *= -1
        elif slot == 3:
            evs.append({"kind": "target_addition", "agent": next_tid, "offset": off})
            add_t.append(next_tid)
            next_tid += 1
        elif slot == 4:
            evs.append({"kind": "sensor_addition", "agent": next_sid, "offset": off})
            add_s.append(next_sid)
            next_sid += 1
        elif slot == 5 and add_t:
            evs.append({"kind": "target_removal", "agent": add_t.pop(0), "offset": off})
        elif slot == 0 and add_s:
            evs.append({"kind": "sensor_removal", "agent": add_s.pop(0), "offset": off})
        else:
            evs.append({"kind": "impulse_eci", "agent": 10001, "offset": off, "vec": [0.0, 0.0, DV * sign[10001]]})
            sign[10001] *= -1
    # off-boundary impulses on a third target: 1 s before, 1 s after a boundary, mid-step (only if dt allows distinct seconds)
    if dt >= 4:
        s3 = 1.0
        for k in range(2, n, 3):
            for d, label in ((-1, "minus1"), (1, "plus1"), (-(dt // 2), "mid")):
                evs.append({"kind": "impulse_eci", "agent": 10003, "offset": k * dt + d, "vec": [DV * s3, 0.0, 0.0], "rel": label})
                s3 *= -1
        # event times that are NOT whole seconds (the span is continuous): a fraction of a second after / before a
        # boundary -- anything that snaps an event time to the second grid moves these into the wrong step or drops them
        for k in range(1, n, 2):
            for d, label in ((0.3, "plus_frac"), (-0.3, "minus_frac"), (0.5, "plus_half"), (1.7, "plus_1.7")):
                evs.append({"kind": "impulse_eci", "agent": 10003, "offset": k * dt + d, "vec": [DV * s3, 0.0, 0.0], "rel": label})
                s3 *= -1
        # several impulses of ONE agent at the SAME instant (on a boundary and inside a step): each is its own event and
        # each delta-v must be applied exactly once (different directions so that a dropped twin is visible)
        for k in range(2, n + 1, 4):
            for off, label in ((k * dt, "twin_boundary"), (k * dt - dt // 4 - 1, "twin_mid")):
                evs.append({"kind": "impulse_eci", "agent": 10003, "offset": off, "vec": [0.0, DV, 0.0], "rel": label})
                evs.append({"kind": "impulse_ntw", "agent": 10003, "offset": off, "vec": [0.0, 0.0, DV], "rel": label})
    for e in evs:
        e.setdefault("rel", "boundary")
    evs.sort(key=lambda e: e["offset"])  # builder: sorted(events, key=start_time) - stable
    return evs


def _engine_of(agent_id):
    """Added agents alternate between the two tasking engines of the instant family."""
    return 1 + (agent_id % 2)


def _event_cfg(e, st):
    when = st + timedelta(seconds=e["offset"])
    k = e["kind"]
    if k == "impulse_eci":
        return _impulse(e["agent"], when, e["vec"], "eci", e.get("planned", False))
    if k == "impulse_ntw":
        return _impulse(e["agent"], when, e["vec"], "ntw", e.get("planned", False))
    if k == "target_addition":
        j = e["agent"] - 30001
        pos, vel = [8000.0 + 150.0 * j, 0.0, 100.0 * j], [0.0, 5.0, 5.0]
        return _target_add(_engine_of(e["agent"]), when, e["agent"], pos, vel)
    if k == "sensor_addition":
        j = e["agent"] - 40001
        return _sensor_add(_engine_of(e["agent"]), when, e["agent"], j)
    if k == "target_removal":
        return _removal(_engine_of(e["agent"]), when, e["agent"], "target")
    if k == "sensor_removal":
        return _removal(_engine_of(e["agent"]), when, e["agent"], "sensor")
    raise ValueError(k)


def _reference_truth(x0, impulses, t_end):
    """Two-segment(s) reference: propagate with each delta-v added exactly once at its time."""
    dyn = TwoBody()
    x, t = np.array(x0, dtype=float), 0.0
    for (tau, frame, vec) in sorted(impulses, key=lambda i: i[0]):
        if tau > t_end:
            break
        if tau > t:
            x = dyn.propagate(t, float(tau), x)
            t = float(tau)
        dv = np.concatenate((np.zeros(3), np.array(vec, dtype=float)))
        x = x + (dv if frame == "eci" else ntw2eci(x, dv))
    if t_end > t:
        x = dyn.propagate(t, float(t_end), x)
    return x


def _run_instant(res, item):
    _, iso, dt, n = item[:4]
    span = item[4] if len(item) > 4 else n + 1  # configured span in steps (default: one step longer than the run)
    st = datetime.fromisoformat(iso)
    evs = _instant_events(st, dt, n)
    x0 = {10001: scen.LEO_A, 10002: scen.MEO_A, 10003: scen.GEO_A}
    tg = [scen.target_eci(t, *x0[t]) for t in (10001, 10002, 10003)]
    engines = [scen.engine(1, tg[:2], [scen.ground_sensor(20001, 10.0, 20.0)]),
               scen.engine(2, tg[2:], [scen.ground_sensor(20002, -15.0, 100.0)])]
    cfg = scen.config(st, span, engines, physics=dt, truth_only=True, events=[_event_cfg(e, st) for e in evs])
    offset = item[5] if len(item) > 5 else None
    if offset:
        for k in ("start_timestamp", "stop_timestamp"):
            cfg["time"][k] = cfg["time"][k].replace("Z", offset)
        for ev in cfg["events"]:
            for k in ("start_time", "end_time"):
                if isinstance(ev.get(k), str):
                    ev[k] = ev[k].replace("Z", offset)
    del _LOG[:]
    sc = scen.build(cfg)
    membership = []
    err = None
    for k in range(1, n + 1):
        _STEP[0] = k
        try:
            sc.stepForward()
        except Exception as exc:  # noqa: BLE001
            err = f"step {k}: {type(exc).__name__}: {exc}"
            break
        membership.append((set(sc.target_agents), set(sc.sensor_agents),
                           {e: set(sc.tasking_engines[e].target_list) for e in (1, 2)},
                           {e: set(sc.tasking_engines[e].sensor_list) for e in (1, 2)}))
    base_case = {"family": "instant", "start": iso, "start_second": st.second, "dt": dt, "configured_span_steps": span, "run_steps": n,
                 "utc_offset_in_config": offset or "Z"}
    if err:
        res.violate("instant/run", base_case, signature="C01/instant/run_error", observed=err, item=item)
    steps_run = len(membership)
    by_id = {}
    for (eid, etype, hcls, hid, step) in _LOG:
        by_id.setdefault(eid, []).append((step, hcls, hid))
    for idx, e in enumerate(evs):
        row = idx + 1
        want = _oracle_step(e["offset"], dt)
        if want > steps_run:
            continue
        got = by_id.get(row, [])
        steps = [g[0] for g in got if g[0] <= steps_run]
        case = {**base_case, "kind": e["kind"], "k": want, "rel": e["rel"], "offset": e["offset"], "agent": e["agent"]}
        ok = steps == [want]
        # an event handled after the run window (want == steps_run, delivered later) cannot be seen: only assert inside
        res.case(
            "instant/delivery",
            case,
            ok,
            nontrivial=e["rel"] == "boundary",
            signature=f"C01/instant/delivery/{e['kind'].split('_')[0]}/{e['rel']}/{_kind_of_failure(steps, want)}",
            observed={"delivered_in_steps": steps},
            expected={"step": want},
            outcome=_kind_of_failure(steps, want) if not ok else "once_in_step",
            item=item,
        )
        # addressed handler
        if got:
            hcls_want = "TargetAgent" if e["kind"].startswith("impulse") else "Scenario"
            good = all(g[1] == hcls_want and (g[2] == e["agent"] if hcls_want == "TargetAgent" else True) for g in got)
            res.case("instant/handler", case, good, signature=f"C01/instant/misdelivered/{e['kind']}",
                     observed=got[:3], expected=[hcls_want, e["agent"]], item=item)
    # membership after every step
    for j in range(1, steps_run + 1):
        tg_now, sn_now, eng_t, eng_s = membership[j - 1]
        exp_t, exp_s = {10001, 10002, 10003}, {20001, 20002}
        exp_et = {1: {10001, 10002}, 2: {10003}}
        exp_es = {1: {20001}, 2: {20002}}
        for e in evs:
            if _oracle_step(e["offset"], dt) <= j:
                eng = _engine_of(e["agent"])
                if e["kind"] == "target_addition":
                    exp_t.add(e["agent"])
                    exp_et[eng].add(e["agent"])
                elif e["kind"] == "sensor_addition":
                    exp_s.add(e["agent"])
                    exp_es[eng].add(e["agent"])
                elif e["kind"] == "target_removal":
                    exp_t.discard(e["agent"])
                    exp_et[eng].discard(e["agent"])
                elif e["kind"] == "sensor_removal":
                    exp_s.discard(e["agent"])
                    exp_es[eng].discard(e["agent"])
        ok = tg_now == exp_t and sn_now == exp_s and eng_t == exp_et and eng_s == exp_es
        res.case(
            "instant/membership",
            {**base_case, "step": j},
            ok,
            signature="C01/instant/membership",
            observed={"targets": sorted(tg_now), "sensors": sorted(sn_now),
                      "engine_targets": {k: sorted(v) for k, v in eng_t.items()}, "engine_sensors": {k: sorted(v) for k, v in eng_s.items()}},
            expected={"targets": sorted(exp_t), "sensors": sorted(exp_s),
                      "engine_targets": {k: sorted(v) for k, v in exp_et.items()}, "engine_sensors": {k: sorted(v) for k, v in exp_es.items()}},
            item=item,
        )
        # a newly added target starts from its configured state at its event time: after the step it sits on the
        # two-body arc from that state (checked one step after the addition to stay clear of the instant itself)
    # impulse effect: final truth state equals the reference with each delta-v applied exactly once
    if steps_run >= 1:
        t_end = steps_run * dt
        for tid in (10001, 10002, 10003):
            imps = [(e["offset"], "ntw" if e["kind"] == "impulse_ntw" else "eci", e["vec"]) for e in evs
                    if e["kind"].startswith("impulse") and e["agent"] == tid and e["offset"] < t_end]
            if not imps:
                continue
            ref = _reference_truth(np.concatenate(x0[tid]), imps, t_end)
            got = sc.target_agents[tid].eci_state
            dv_err = float(np.linalg.norm(got[3:] - ref[3:]))
            dr_err = float(np.linalg.norm(got[:3] - ref[:3]))
            ok = dv_err < 1e-6 * max(1, len(imps)) + 1e-6 and dr_err < 1e-3 * max(1, len(imps))
            at_end = [(e["offset"], "ntw" if e["kind"] == "impulse_ntw" else "eci", e["vec"]) for e in evs
                      if e["kind"].startswith("impulse") and e["agent"] == tid and e["offset"] == t_end]
            if not ok and at_end:
                # an impulse exactly at the final epoch: the state recorded AT that instant may be pre- or post-impulse
                # (its scenario time, recovered from a Julian date, lands a few microseconds before or after t_end)
                ref2 = _reference_truth(np.concatenate(x0[tid]), imps + at_end, t_end + 1e-9)
                dv2 = float(np.linalg.norm(got[3:] - ref2[3:]))
                dr2 = float(np.linalg.norm(got[:3] - ref2[:3]))
                if dv2 < 1e-6 * max(1, len(imps)) + 1e-6 and dr2 < 1e-3 * max(1, len(imps)):
                    ok, dv_err, dr_err = True, dv2, dr2
                    res.either_way += 1
            res.case(
                "instant/impulse_effect",
                {**base_case, "target": tid, "n_impulses": len(imps), "steps": steps_run},
                ok,
                nontrivial=True,
                signature=f"C01/instant/impulse_effect/{'multiple_of_dv' if dv_err > 0.3 * DV else 'small'}",
                observed={"velocity_error_km_s": dv_err, "position_error_km": dr_err, "in_units_of_dv": dv_err / DV},
                expected="each delta-v applied exactly once at its time",
                outcome="ok" if ok else f"dv_err~{dv_err / DV:.1f}dv",
                item=item,
            )
            res.observe(got)
    res.observe(sorted(_LOG))
    res.states += steps_run + 1
    res.transitions += steps_run
    res.traces += 1


# ----------------------------------------------------------------------------------------------- planned impulses
def _run_planned(res, item):
    _, iso, dt, n = item
    st = datetime.fromisoformat(iso)
    evs = []
    sgn = 1.0
    for k in range(1, n):
        rel, off = ("boundary", k * dt) if k % 2 else ("mid", k * dt - dt // 2)
        if k % 4 == 0 and dt >= 4:
            rel, off = "plus1", k * dt + 1
        if k % 6 == 5 and dt >= 4:
            rel, off = "plus_frac", k * dt + 0.3
        evs.append({"kind": "impulse_eci" if k % 3 else "impulse_ntw", "agent": 10001, "offset": off, "rel": rel,
                    "vec": [0.0, DV * sgn, 0.0], "planned": True})
        sgn *= -1
        if k % 5 == 0:
            # an UNPLANNED impulse on a second target: truth gets it, the estimate must not be handed the event
            evs.append({"kind": "impulse_eci", "agent": 10002, "offset": k * dt, "rel": "boundary",
                        "vec": [0.0, 0.0, DV * (1 if k % 10 else -1)], "planned": False})
    evs.sort(key=lambda e: e["offset"])
    tg = [scen.target_eci(10001, *scen.MEO_A), scen.target_eci(10002, *scen.GEO_B)]
    cfg = scen.config(st, n + 1, [scen.engine(1, tg, [scen.ground_sensor(20001, 10.0, 20.0)])], physics=dt,
                      truth_only=False, events=[_event_cfg(e, st) for e in evs], seed=5)
    del _LOG[:]
    sc = scen.build(cfg)
    base_case = {"family": "planned", "start": iso, "start_second": st.second, "dt": dt}
    err, steps_run = None, 0
    est_err = []
    for k in range(1, n + 1):
        _STEP[0] = k
        try:
            sc.stepForward()
        except Exception as exc:  # noqa: BLE001
            err = f"step {k}: {type(exc).__name__}: {exc}"
            break
        steps_run = k
        est = sc.estimate_agents[10001].state_estimate
        tru = sc.target_agents[10001].eci_state
        est_err.append(float(np.linalg.norm(est[3:] - tru[3:])))
    if err:
        res.violate("planned/run", base_case, signature="C01/planned/run_error", observed=err, item=item)
    by_id = {}
    for (eid, etype, hcls, hid, step) in _LOG:
        by_id.setdefault(eid, []).append((step, hcls, hid))
    for idx, e in enumerate(evs):
        want = _oracle_step(e["offset"], dt)
        if want > steps_run:
            continue
        got = by_id.get(idx + 1, [])
        aid = e["agent"]
        truth_steps = [g[0] for g in got if g[1] == "TargetAgent" and g[2] == aid]
        est_steps = [g[0] for g in got if g[1] == "EstimateAgent" and g[2] == aid]
        other = [g for g in got if g[1] not in ("TargetAgent", "EstimateAgent") or g[2] != aid]
        case = {**base_case, "kind": e["kind"], "k": want, "rel": e["rel"], "offset": e["offset"], "planned": e["planned"]}
        ok = truth_steps == [want] and est_steps == ([want] if e["planned"] else []) and not other
        res.case(
            "planned/delivery",
            case,
            ok,
            nontrivial=e["rel"] == "boundary",
            signature=f"C01/planned/delivery/{e['rel']}/{'planned' if e['planned'] else 'unplanned'}/truth:{_kind_of_failure(truth_steps, want)}/est:{_kind_of_failure(est_steps, want) if e['planned'] else ('none' if not est_steps else 'delivered_to_estimate')}",
            observed={"truth_steps": truth_steps, "estimate_steps": est_steps, "other": other[:2]},
            expected={"step": want},
            outcome="once_each" if ok else "bad",
            item=item,
        )
    # the estimate follows the planned delta-v exactly once: after the last step its velocity matches truth
    if steps_run >= 2:
        t_end = steps_run * dt
        imps = [(e["offset"], "ntw" if e["kind"] == "impulse_ntw" else "eci", e["vec"]) for e in evs
                if e["offset"] < t_end and e["agent"] == 10001]
        ref = _reference_truth(np.concatenate(scen.MEO_A), imps, t_end)
        tru = sc.target_agents[10001].eci_state
        est = sc.estimate_agents[10001].state_estimate
        e_truth = float(np.linalg.norm(tru[3:] - ref[3:]))
        e_est = float(np.linalg.norm(est[3:] - ref[3:]))
        res.case("planned/truth_effect", {**base_case, "steps": steps_run}, e_truth < 2e-5, nontrivial=True,
                 signature=f"C01/planned/truth_effect/{'multiple_of_dv' if e_truth > 0.3 * DV else 'small'}",
                 observed={"velocity_error": e_truth, "in_units_of_dv": e_truth / DV}, item=item)
        # estimate carries initial-estimate error (1e-6 km/s std) and process noise: 1e-3 km/s is two orders above
        # that and one order below a missed/doubled 1e-2 km/s planned impulse
        res.case("planned/estimate_effect", {**base_case, "steps": steps_run}, e_est < 1e-3, nontrivial=True,
                 signature=f"C01/planned/estimate_effect/{'multiple_of_dv' if e_est > 0.3 * DV else 'small'}",
                 observed={"velocity_error": e_est, "in_units_of_dv": e_est / DV}, item=item)
        res.observe(tru, est)
    res.states += steps_run + 1
    res.transitions += steps_run
    res.traces += 1


# ----------------------------------------------------------------------------------------------- duration events
def _duration_events(dt, n):
    """Priority events for two engines and time-bias events for two sensors; ends on boundary / +-1 s / mid-step."""
    half = dt // 2
    rel = {"b": 0, "m1": -1, "p1": 1, "mid": -half}
    pri, bias = [], []
    patterns = [("b", "b", 1, 3), ("p1", "m1", 2, 4), ("mid", "b", 4, 5), ("b", "p1", 5, 6), ("m1", "mid", 6, 8),
                ("b", "b", 8, 8), ("mid", "mid", 9, 9)]
    for i, (ra, rb, ka, kb) in enumerate(patterns):
        if kb > n - 1:
            continue
        a, b = ka * dt + rel[ra], kb * dt + rel[rb]
        if b < a or (dt < 4 and (ra in ("m1", "p1") or rb in ("m1", "p1"))):
            continue
        eng = i % 2  # engine ids 0 and 1: id 0 is legal (and falsy - a truthiness test on it must not drop the filter)
        pri.append({"kind": "task_priority", "engine": eng, "target": 10001 + eng, "a": a, "b": b, "ra": ra, "rb": rb,
                    "priority": 3.0 + i})
        sen = 20001 + ((i + 1) % 2)
        bias.append({"kind": "sensor_time_bias", "sensor": sen, "a": a, "b": b, "ra": ra, "rb": rb, "bias": 0.5})
    return pri, bias


def _run_duration(res, item):
    _, iso, dt, n = item
    st = datetime.fromisoformat(iso)
    pri, bias = _duration_events(dt, n)
    allev = sorted(pri + bias, key=lambda e: e["a"])
    ev_cfgs = []
    for e in allev:
        a, b = st + timedelta(seconds=e["a"]), st + timedelta(seconds=e["b"])
        if e["kind"] == "task_priority":
            ev_cfgs.append({"scope": "task_reward_generation", "scope_instance_id": e["engine"], "start_time": scen.iso(a),
                            "end_time": scen.iso(b), "event_type": "task_priority", "target_id": e["target"],
                            "target_name": f"T{e['target']}", "priority": e["priority"], "is_dynamic": False})
        else:
            ev_cfgs.append({"scope": "observation_generation", "scope_instance_id": e["sensor"], "start_time": scen.iso(a),
                            "end_time": scen.iso(b), "event_type": "sensor_time_bias", "applied_bias": e["bias"]})
    sub = [(9.0, 21.0, 20000.0, 90.0), (11.0, 25.0, 21000.0, 60.0)]
    t1 = scen.target_eci(10001, *scen.overhead_orbit(st, *sub[0]))
    t2 = scen.target_eci(10002, *scen.overhead_orbit(st, *sub[1]))
    # a second, un-prioritised target per engine so that the row a priority scales matters
    t3 = scen.target_eci(10003, *scen.overhead_orbit(st, 8.0, 19.0, 20500.0, 75.0))
    t4 = scen.target_eci(10000, *scen.overhead_orbit(st, 13.0, 26.0, 19800.0, 110.0))
    s1 = scen.ground_sensor(20001, 10.0, 20.0, fov={"fov_shape": "conic", "cone_angle": 20.0})
    s2 = scen.ground_sensor(20002, 12.0, 27.0, fov={"fov_shape": "conic", "cone_angle": 20.0})
    cfg = scen.config(st, n + 1, [scen.engine(0, [t1, t3], [s1]), scen.engine(1, [t4, t2], [s2])], physics=dt,
                      events=ev_cfgs, seed=7)
    del _LOG[:]
    sc = scen.build(cfg)
    base_case = {"family": "duration", "start": iso, "start_second": st.second, "dt": dt}
    err, steps_run = None, 0
    per_step = []
    for k in range(1, n + 1):
        _STEP[0] = k
        try:
            sc.stepForward()
        except Exception as exc:  # noqa: BLE001
            err = f"step {k}: {type(exc).__name__}: {exc}"
            break
        steps_run = k
        snap = {"reward": {}, "base": {}, "vis": {}, "bias_queue": {}}
        for eid, eng in sc.tasking_engines.items():
            snap["reward"][eid] = eng.reward_matrix.copy()
            base = eng.reward.calculate(eng.reward.normalizeMetrics(eng.metric_matrix)).reshape(eng.num_targets, eng.num_sensors)
            snap["base"][eid] = np.array(base, dtype=float)
            snap["vis"][eid] = eng.visibility_matrix.copy()
        for sid, sa in sc.sensor_agents.items():
            snap["bias_queue"][sid] = sorted(ev.id for ev in sa.sensor_time_bias_event_queue)
        per_step.append(snap)
    if err:
        res.violate("duration/run", base_case, signature=f"C01/duration/run_error/{err.split(':')[1].strip() if ':' in err else 'error'}",
                    observed=err, item=item)
    deliveries = {}
    for (eid, etype, hcls, hid, step) in _LOG:
        deliveries.setdefault((eid, step), []).append((hcls, hid))
    for idx, e in enumerate(allev):
        row = idx + 1
        for k in range(1, steps_run + 1):
            lo, hi = (k - 1) * dt, k * dt
            overlaps = e["a"] <= hi and e["b"] > lo
            got = deliveries.get((row, k), [])
            on_boundary = e["ra"] == "b" or e["rb"] == "b"
            if e["kind"] == "task_priority":
                want = [("CentralizedTaskingEngine", e["engine"])] if overlaps else []
                case = {**base_case, "kind": "task_priority", "step": k, "a": e["a"], "b": e["b"], "ra": e["ra"], "rb": e["rb"], "engine": e["engine"]}
                wrong_engine = [g for g in got if g[1] != e["engine"]]
                if got == want:
                    label = "ok"
                elif wrong_engine:
                    label = "misdelivered_to_other_engine"
                elif overlaps and not got:
                    label = "inactive_in_overlapping_step"
                elif not overlaps and got:
                    label = "active_outside_interval"
                else:
                    label = "duplicated"
                res.case("duration/priority_active", case, got == want, nontrivial=on_boundary,
                         key=f"{iso}|{dt}|{row}|{k}",
                         signature=f"C01/duration/priority/{label}", observed=got, expected=want, outcome=label, item=item)
            else:
                # a time-bias event is handed to its sensor while it overlaps the step
                want = [("SensingAgent", e["sensor"])] if overlaps else []
                case = {**base_case, "kind": "sensor_time_bias", "step": k, "a": e["a"], "b": e["b"], "ra": e["ra"], "rb": e["rb"], "sensor": e["sensor"]}
                wrong = [g for g in got if g[1] != e["sensor"]]
                label = "ok" if got == want else ("misdelivered_to_other_sensor" if wrong else
                                                  "not_handed_over" if overlaps and not got else
                                                  "handed_over_outside_interval" if got and not overlaps else "duplicated")
                res.case("duration/bias_delivery", case, got == want, nontrivial=on_boundary,
                         key=f"{iso}|{dt}|{row}|{k}",
                         signature=f"C01/duration/bias_delivery/{label}", observed=got, expected=want, outcome=label, item=item)
                # effective at the observation epoch t_k: queued for exactly the named sensor iff a <= t_k <= b;
                # where "overlaps the step" and "contains the observation instant" disagree the case is either-way
                contains = e["a"] <= hi <= e["b"]
                for sid, q in per_step[k - 1]["bias_queue"].items():
                    queued = row in q
                    if sid != e["sensor"]:
                        res.case("duration/bias_only_named_sensor", {**case, "other_sensor": sid}, not queued,
                                 signature="C01/duration/bias_queue/on_other_sensor", observed=q, item=item)
                    elif contains == overlaps:
                        res.case("duration/bias_queue", case, queued == contains, nontrivial=on_boundary,
                                 key=f"q|{iso}|{dt}|{row}|{k}",
                                 signature=f"C01/duration/bias_queue/{'missing_at_epoch_inside_interval' if contains else 'present_outside_interval'}",
                                 observed={"queued": queued}, expected={"queued": contains}, item=item)
                    else:
                        res.either_way += 1
    # priority effect on the reward matrix: reward row == priority product x unprioritised reward of the same metrics
    for k in range(1, steps_run + 1):
        lo, hi = (k - 1) * dt, k * dt
        for eid in (0, 1):
            base = per_step[k - 1]["base"][eid]
            factor = 1.0
            for e in pri:
                if e["engine"] == eid and e["a"] <= hi and e["b"] > lo:
                    factor *= e["priority"]
            expected = base.copy()
            # engine 0 rows: [10001, 10003] -> prioritised row 0; engine 1 rows: [10000, 10002] -> prioritised row 1
            expected[0 if eid == 0 else 1, :] *= factor
            got = per_step[k - 1]["reward"][eid]
            visible = bool(per_step[k - 1]["vis"][eid].any()) and bool(np.any(base != 0))
            ok = np.allclose(got, expected, rtol=1e-12, atol=0)
            res.case(
                "duration/priority_effect",
                {**base_case, "step": k, "engine": eid, "factor": factor, "reward_nonzero": visible},
                ok,
                nontrivial=factor != 1.0 and visible,
                key=f"eff|{iso}|{dt}|{eid}|{k}",
                signature=f"C01/duration/priority_effect/{'not_applied' if factor != 1.0 and np.allclose(got, base) else 'wrong_factor_or_row'}",
                observed=got, expected=expected,
                outcome="scaled" if factor != 1.0 and visible else "unscaled", item=item,
            )
            res.observe(got)
    res.states += steps_run + 1
    res.transitions += steps_run
    res.traces += 1


# ----------------------------------------------------------------------------------------------- bias queue (multiplicity)
BIASQ_STEPS = 14


def _biasq_events(dt):
    """SEVERAL time biases per sensor whose lives interleave: what a sensor holds is a queue, and queue maintenance
    (append once, drop when over) has branches that only matter when two or more entries start / end in the SAME step,
    sit NEXT to each other, sit BEHIND a live head, or are identical twins.  Offsets are integer seconds.

    Ends are mostly ON a step boundary k*dt: such an event contains t_k and neither overlaps nor contains step k+1, so
    its absence after step k+1 is asserted strictly (an end inside a step is either-way in the step it ends in).
    """
    h = dt // 2
    A, B = 20001, 20002
    ev = [
        # ---- sensor A
        (A, "long_head", h, 13 * dt),                       # first in the queue for the whole run, leaves alone at the end
        (A, "pair_same_boundary", 1 * dt + 1, 3 * dt),       # two neighbours that end on the same boundary
        (A, "pair_same_boundary", 2 * dt - h, 3 * dt),
        (A, "triple_same_boundary", 4 * dt, 6 * dt),         # three neighbours ending together
        (A, "triple_same_boundary", 4 * dt + 1, 6 * dt),
        (A, "triple_same_boundary", 5 * dt - h, 6 * dt),
        (A, "twins_then_follower", 7 * dt + 1, 8 * dt),      # identical twins, then one that ends a step later
        (A, "twins_then_follower", 7 * dt + 1, 8 * dt),
        (A, "twins_then_follower", 8 * dt, 9 * dt),
        (A, "quad_same_boundary", 9 * dt + 1, 11 * dt),      # four neighbours ending together
        (A, "quad_same_boundary", 10 * dt - h, 11 * dt),
        (A, "quad_same_boundary", 10 * dt, 11 * dt),
        (A, "quad_same_boundary", 10 * dt + 1, 11 * dt),
        (A, "staggered_chain", 11 * dt + 1, 12 * dt - h),    # two end inside step 12, the next on boundary 12, then the head
        (A, "staggered_chain", 11 * dt + 2, 12 * dt - 1),
        (A, "staggered_chain", 11 * dt + 3, 12 * dt),
        # ---- sensor B
        (B, "head_ends_first", 1 * dt, 2 * dt),              # the head leaves, a live one stays behind it
        (B, "head_ends_first", 1 * dt + 1, 5 * dt),
        (B, "non_adjacent_pair", 3 * dt - h, 4 * dt),        # two that end together with a live one between them
        (B, "live_between", 3 * dt + 1, 8 * dt - 1),
        (B, "non_adjacent_pair", 4 * dt - h, 4 * dt),
        (B, "born_and_gone_in_one_step", 6 * dt + 1, 7 * dt - 1),   # handed over and over within the same step, adjacent
        (B, "born_and_gone_in_one_step", 6 * dt + 2, 7 * dt - 2),
        (B, "pair_same_boundary_as_other_sensor", 9 * dt + 1, 11 * dt),   # coincides with sensor A's quad
        (B, "pair_same_boundary_as_other_sensor", 10 * dt, 11 * dt),
        (B, "zero_length_twins", 12 * dt, 12 * dt),          # instantaneous, on a boundary, twice
        (B, "zero_length_twins", 12 * dt, 12 * dt),
    ]
    out = [{"sensor": s, "group": g, "a": a, "b": b, "bias": 0.05 + 0.01 * i} for i, (s, g, a, b) in enumerate(ev)]
    out.sort(key=lambda e: e["a"])  # builder: sorted(events, key=start_time) - stable; row id = index + 1
    return out


def _run_biasq(res, item):
    _, iso, dt, n = item
    st = datetime.fromisoformat(iso)
    evs = _biasq_events(dt)
    ev_cfgs = [{"scope": "observation_generation", "scope_instance_id": e["sensor"],
                "start_time": scen.iso(st + timedelta(seconds=e["a"])), "end_time": scen.iso(st + timedelta(seconds=e["b"])),
                "event_type": "sensor_time_bias", "applied_bias": e["bias"]} for e in evs]
    t1 = scen.target_eci(10001, *scen.overhead_orbit(st, 9.0, 21.0, 20000.0, 90.0))
    t2 = scen.target_eci(10002, *scen.overhead_orbit(st, 11.0, 25.0, 21000.0, 60.0))
    s1 = scen.ground_sensor(20001, 10.0, 20.0, fov={"fov_shape": "conic", "cone_angle": 20.0})
    s2 = scen.ground_sensor(20002, 12.0, 27.0, fov={"fov_shape": "conic", "cone_angle": 20.0})
    cfg = scen.config(st, n + 1, [scen.engine(0, [t1], [s1]), scen.engine(1, [t2], [s2])], physics=dt, events=ev_cfgs, seed=7)
    del _LOG[:]
    sc = scen.build(cfg)
    base_case = {"family": "bias_queue", "start": iso, "start_second": st.second, "dt": dt}
    err, steps_run = None, 0
    queues = []
    for k in range(1, n + 1):
        _STEP[0] = k
        try:
            sc.stepForward()
        except Exception as exc:  # noqa: BLE001
            err = f"step {k}: {type(exc).__name__}: {exc}"
            break
        steps_run = k
        queues.append({sid: [ev.id for ev in sa.sensor_time_bias_event_queue] for sid, sa in sc.sensor_agents.items()})
    if err:
        res.violate("bias_queue/run", base_case, signature=f"C01/bias_queue/run_error/{err.split(':')[1].strip() if ':' in err else 'error'}",
                    observed=err, item=item)
    deliveries = {}
    for (eid, etype, hcls, hid, step) in _LOG:
        deliveries.setdefault((eid, step), []).append((hcls, hid))

    def contains(e, k):
        return k >= 1 and e["a"] <= k * dt <= e["b"]

    def overlaps(e, k):
        return e["a"] <= k * dt and e["b"] > (k - 1) * dt

    def leaves(e, k):
        """In the sensor's hands during step k (held after step k-1, or handed over in step k) and over at t_k."""
        return (contains(e, k - 1) or overlaps(e, k)) and not contains(e, k)

    for k in range(1, steps_run + 1):
        for sid, q in queues[k - 1].items():
            dup = sorted({r for r in q if q.count(r) > 1})
            res.case("bias_queue/once", {**base_case, "step": k, "sensor": sid}, not dup,
                     signature="C01/bias_queue/held_twice", observed=q, expected="every event at most once", item=item)
            res.observe(q)
        for idx, e in enumerate(evs):
            row = idx + 1
            case = {**base_case, "step": k, "group": e["group"], "a": e["a"], "b": e["b"], "sensor": e["sensor"], "row": row}
            got = deliveries.get((row, k), [])
            want = [("SensingAgent", e["sensor"])] if overlaps(e, k) else []
            label = "ok" if got == want else ("misdelivered_to_other_sensor" if [g for g in got if g[1] != e["sensor"]] else
                                              "not_handed_over" if want and not got else
                                              "handed_over_outside_interval" if got and not want else "duplicated")
            res.case("bias_queue/delivery", case, got == want, signature=f"C01/bias_queue/delivery/{label}",
                     observed=got, expected=want, outcome=label, item=item)
            # companions: other events of the SAME sensor that leave its queue in the same step (the mechanism under test)
            mates = sum(1 for f in evs if f is not e and f["sensor"] == e["sensor"] and leaves(f, k))
            for sid, q in queues[k - 1].items():
                held = row in q
                if sid != e["sensor"]:
                    res.case("bias_queue/only_named_sensor", {**case, "other_sensor": sid}, not held,
                             signature="C01/bias_queue/on_other_sensor", observed=q, item=item)
                elif contains(e, k) == overlaps(e, k):
                    c = contains(e, k)
                    res.case("bias_queue/held", {**case, "leaving_with": mates}, held == c,
                             nontrivial=(not c and leaves(e, k) and mates >= 1) or (c and mates >= 1),
                             signature=f"C01/bias_queue/{'missing_inside_interval' if c else 'held_after_interval'}/{e['group']}",
                             observed={"held": held, "queue": q}, expected={"held": c},
                             outcome=("held" if held else "absent") + f"/mates{min(mates, 3)}", item=item)
                else:
                    res.either_way += 1
    res.states += steps_run + 1
    res.transitions += steps_run
    res.traces += 1


def run_item(item):
    _install_wrappers()
    res = fw.Result()
    fam = item[0]
    if fam == "biasq":
        _run_biasq(res, item)
    elif fam == "instant":
        _run_instant(res, item)
    elif fam == "planned":
        _run_planned(res, item)
    elif fam == "duration":
        _run_duration(res, item)
    else:
        raise ValueError(fam)
    return res
