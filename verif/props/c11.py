"""C11 - ground facilities stay fixed at their configured geodetic location.

Lattice explorer over (site lat/lon/alt) x (start instant, second by second) x (step) x (elapsed k*step) through the
real configuration -> dynamicsFactory -> Terrestrial -> SensingAgent path, plus real truth-only Scenario runs (every
epoch, TruthEphemeris rows), Terrestrial.propagate with arbitrary (t0, t1), sensors added mid-run and imported states.
Every family is also run on the calendar lattice (31 Jan / February / 29 Feb / 1 Mar of leap and common years), the
scenario runs check the angle turned about the pole per step, and a sweep visits every day of a leap and a common year.
"""
from __future__ import annotations

import math
from datetime import date, datetime, timedelta

import numpy as np

from verif import framework as fw
from verif import scen  # installs the in-process fake ray; MUST precede every resonaate import

import ray  # noqa: E402  (the fake one)
from resonaate.agents.sensing_agent import SensingAgent  # noqa: E402
from resonaate.data import setDBPath  # noqa: E402
from resonaate.data.ephemeris import TruthEphemeris  # noqa: E402
from resonaate.dynamics import dynamicsFactory  # noqa: E402
from resonaate.dynamics.terrestrial import Terrestrial  # noqa: E402
from resonaate.parallel.agent_propagation import PropagateRegistration, asyncPropagate  # noqa: E402
from resonaate.physics.time.conversions import dayOfYear, getTargetJulianDate  # noqa: E402
from resonaate.physics.time.stardate import ScenarioTime, datetimeToJulianDate  # noqa: E402
from resonaate.physics.transforms.methods import eci2ecef  # noqa: E402
from resonaate.scenario.clock import ScenarioClock  # noqa: E402
from resonaate.scenario.config import ScenarioConfig  # noqa: E402

from verif.oracles import frames_ref as fr  # noqa: E402  (independent FK5 reference + own EOP table parser)

PROPERTY = "C11"
LEVEL = "model_checking"
RULE = (
    "direct: every (site, start instant, step, k) of the announced lattice - sites = lat x lon x alt alphabet (+ one "
    "seed-placed site per altitude), start instants = every second of one minute on each listed date (23:59:xx of a "
    "leap-second eve / year end, and a seed-chosen minute of a seed-chosen day; thorough: full product, quick: the "
    "union of [all sites x 8 seconds] and [9 corner sites x all 60 seconds]), k*step elapsed incl. k=0 (the state "
    "the agent is built with), crossing midnight, the year end and several days - is driven through the real "
    "ScenarioConfig -> ScenarioClock -> dynamicsFactory -> Terrestrial -> SensingAgent.fromConfig -> "
    "PropagateRegistration/asyncPropagate path and the reported state is compared with the harness' own geodetic->ECEF "
    "closed form at the true UTC datetime (python datetime arithmetic). scenario: real truth-only Scenario runs "
    "(propagateTo) audited at every epoch and in every TruthEphemeris row. propagate: Terrestrial.propagate with "
    "arbitrary (t0, t1). midrun: sensors added while the clock is not at 0. import: states imported into a "
    "SensingAgent. calendar lattice (both tiers): EVERY family above (direct with the corner sites, propagate, scenario, "
    "midrun, midrun_event, import) is also started at each instant of {31 Jan 23:59:30, 1 Feb 00:00:00, 1 Feb 00:00:30, "
    "15 Feb 12:00:00, 28 Feb 23:59:30, [29 Feb 00:00:00, 12:00:00, 23:59:30], 1 Mar 00:00:00, 1 Mar 00:00:30} of the "
    "leap years 2016 and 2020 and of the common year 2019 (control; thorough: 2015, 2017-2019, 2021, 2022); real scenarios "
    "are run through the 31 Jan, 28 Feb and 29 Feb midnights of those years (steps 2/60/300 s) and through the whole of "
    "February 2020 (31 Jan 21:00:30 -> 2 Mar, 10800 s steps; thorough also 2016, 2019 and 3600 s steps) and the angle each "
    "site turns about the pole of date between consecutive epochs / "
    "TruthEphemeris rows is compared with the independent sidereal-angle difference (scenario/rotation_per_step, every "
    "scenario run). calendar sweep: for every day of those leap and common years (thorough: 2014-2021) Terrestrial.propagate is audited "
    "at 00:00:00 (reached across the preceding midnight), 12:00:00 and 23:59:59, and the library's day-of-year is "
    "compared with ordinal calendar arithmetic (also for every day of 1900, 2000, 2024 and 2100: century rule). "
    "eop_config (both tiers): the behavioural configuration ([eop] LoaderName/LoaderLocation, read through "
    "BehavioralConfig.getConfig(path)) selects each offline Earth-orientation source of {packaged loader + EOP_Predicted.dat, "
    "local-file loader + a copy of that table, local-file loader + a harness-written table (UT1-UTC + 10 ms, x_p + 0.1 arcsec), "
    "packaged loader + the default table named explicitly (control)} x 6 start instants inside 2021-10-06..2022-04-04 (first "
    "day, year end, 28 Feb, last midnight, one seed-chosen) x steps {60, 300} s x k in {0, 1, 2, 288} x 9 corner sites through the "
    "direct path; expectation = the independent FK5 model fed by the harness' own parse of the CONFIGURED table; the EOP values "
    "the library hands out (implicit and explicit loader arguments) are compared with that parse; non-trivial there = the "
    "configured and the default table put the site more than 2 m apart at that instant. "
    "non-trivial = start second != 0, or the elapsed time crosses midnight, or (propagate) t0 != 0, or "
    "(midrun/import) the agent is created/updated away from the scenario start, or the audited instant lies in the "
    "leap-day window 31 Jan .. 1 Mar; distinct by construction (lattice points)."
)
ASSUMPTIONS = [
    "python datetime arithmetic gives the true UTC instant of start + elapsed (no leap-second insertion, as the library)",
    "the reported inertial state is converted back with the library's eci2ecef at the TRUE datetime: correctness of the "
    "ECI<->ECEF reduction itself is property C04's subject; as a cross-check the state is also compared with the "
    "independent FK5 reference model of C04 (verif/oracles/frames_ref.py, own parse of the bundled EOP/nutation tables)",
    "the Earth rotation vector is omega*(1-LOD/86400) about the celestial ephemeris pole; the pole direction in the "
    "inertial frame (precession*nutation*z) and LOD are taken from that independent reference, not from the library",
    "reference ellipsoid a=6378.1363 km, e=0.081819221456 (own literals)",
    "ecef2lla (used by SensingAgent.lla_state) is C04's subject; lla_state is only required to map back onto the site "
    "within the property's metre",
    "calendar: python's proleptic Gregorian date.toordinal() is the reference for the day of year; the reference sidereal "
    "angle is computed from days since J2000 by ordinal arithmetic (no day-of-year, no month table)",
]
EXPECT_MIN_NONTRIVIAL = 5000

# ------------------------------------------------------------------------------------------------ tolerances
# position: the property's own bound, one metre.  Measured noise of the whole chain (three 3x3 rotations of a 6.4e3 km
# vector in doubles, millisecond-exact datetimes) is < 1e-10 km, seven orders below; the smallest timing defect the
# property is about (1 s of Earth rotation) displaces every site with |lat| <= 70.37 by 156..465 m.
TOL_POS_KM = 1.0e-3
# velocity, property clause: DESIGN bound.  A sign/frame slip in the omega x r term is ~0.46*cos(lat) km/s.
TOL_VEL_KMS = 1.0e-6
# velocity, rotation-rate clause ("Earth rotation rate incl. the LOD term"): omega*LOD/86400*R = 2e-9..1e-8 km/s for the
# |LOD| = 0.4..2 ms of the table, so 1e-6 cannot see it.  Measured agreement between the library and the independent
# pole/LOD reference is < 2e-13 km/s (rounding of 0.46 km/s products), so 1e-10 leaves three orders to the noise and
# 1.3 orders or more to a dropped LOD term on the LOD-bearing dates; applied to |lat| <= 70.37 only where it can matter.
TOL_VEL_STRICT_KMS = 1.0e-10
TOL_JD_DAY = 2.0e-9  # double-precision Julian date resolution near 2.45e6 is 4.7e-10 day (as in C05)
TOL_IMPORT_TIME_S = 1.0e-3  # JD resolution 4e-5 s on the imported epoch

# day of year: the library adds hour/24 + minute/1440 + second/86400 to an integer <= 366 in doubles: rounding < 1e-12 day;
# the smallest calendar defect is one whole day.
TOL_DOY_DAY = 1.0e-9
# angle turned about the pole between two consecutive epochs: each end point may be a metre off (the property's bound),
# so 2 m / (distance from the rotation axis); measured noise is the position noise (1e-10 km) over the same arm.  A calendar
# slip turns the site by one day of sidereal drift, 2 pi * 0.0027379 = 1.72e-2 rad (108 km at the equator, 190 m at 89.9 deg).
ONE_DAY_DRIFT_RAD = 2.0 * math.pi * (fr.SIDEREAL_REV_PER_DAY - 1.0)

R_EARTH = 6378.1363
ECC2 = 0.081819221456**2

LEAP_YEARS = [2016, 2020]  # the leap years for which the EOP table has February
CONTROL_YEARS_Q = [2019]
CONTROL_YEARS_T = [2015, 2017, 2018, 2019, 2021, 2022]
DOY_ONLY_YEARS = [1900, 2000, 2024, 2100]  # outside the EOP table: day-of-year against the calendar only (century rule)

LATS = [-89.9, -45.0, 0.0, 0.001, 45.0, 70.37, 89.9]
LONS = [-180.0, -90.0, 0.0, 31.13, 179.99]
ALTS = [0.0, 0.063, 4.0]
STEPS_Q = [2, 60, 300]
STEPS_T = [2, 7, 60, 300, 450, 3600]  # the configuration requires a step > 1 s
EOP_FIRST = date(2014, 1, 1)
EOP_LAST = date(2022, 10, 4)
MAX_ELAPSED_S = 6 * 86400


def worker_init():
    scen.fresh()
    setDBPath("sqlite://")


# ------------------------------------------------------------------------------------------------ oracle
def site_ecef(lat_deg, lon_deg, alt_km):
    """Own closed form: geodetic (deg, deg, km above the ellipsoid) -> Earth-fixed cartesian km."""
    lat = math.radians(lat_deg)
    lon = math.radians(lon_deg)
    n = R_EARTH / math.sqrt(1.0 - ECC2 * math.sin(lat) ** 2)
    rxy = (n + alt_km) * math.cos(lat)
    return np.array([rxy * math.cos(lon), rxy * math.sin(lon), (n * (1.0 - ECC2) + alt_km) * math.sin(lat)])


def lla_to_ecef_rad(lla):
    lat, lon, alt = float(lla[0]), float(lla[1]), float(lla[2])
    n = R_EARTH / math.sqrt(1.0 - ECC2 * math.sin(lat) ** 2)
    rxy = (n + alt) * math.cos(lat)
    return np.array([rxy * math.cos(lon), rxy * math.sin(lon), (n * (1.0 - ECC2) + alt) * math.sin(lat)])


def ref_jd(dt: datetime) -> float:
    return (dt.toordinal() + 1721424.5) + (dt.hour * 3600 + dt.minute * 60 + dt.second + dt.microsecond / 1e6) / 86400.0


class Instant:
    """Independent reference quantities of one true UTC instant (shared by all sites)."""

    __slots__ = ("dt", "fk5", "w_eci")

    def __init__(self, dt: datetime, fk5=None):
        self.dt = dt
        self.fk5 = fr.FK5.from_table(dt) if fk5 is None else fk5
        # Earth rotation vector in the inertial frame: rate incl. LOD about the pole of date
        self.w_eci = self.fk5.pn @ np.array(self.fk5.omega)


_INSTANTS: dict = {}


def instant(dt: datetime) -> Instant:
    got = _INSTANTS.get(dt)
    if got is None:
        if len(_INSTANTS) > 4000:
            _INSTANTS.clear()
        got = _INSTANTS[dt] = Instant(dt)
    return got


def _maxabs(v):
    return float(np.max(np.abs(v)))


def _shift_label(eci, dt, ecef_site, step):
    """Name the time shift that explains a displaced site (for the violation signature only)."""
    cands = [(-1.0, "1s_early"), (1.0, "1s_late")]
    if step:
        cands += [(-float(step), "one_step_early"), (float(step), "one_step_late")]
    for shift, label in cands:
        # a state computed for (dt + shift) looks, at dt, like the site rotated by omega*shift; test by converting at dt+shift
        try:
            back = eci2ecef(np.asarray(eci, dtype=float), dt + timedelta(seconds=shift))
        except Exception:  # noqa: BLE001, S112
            continue
        if _maxabs(back[:3] - ecef_site) < TOL_POS_KM:
            return label
    return "other"


def audit_state(res, sub, case, eci, dt, site, item, *, nontrivial, step=0, strict_vel=True, observe=True, ins=None):
    """All clauses for one reported inertial state of a ground agent at true UTC instant ``dt`` (``ins``: the independent
    reference of that instant when it is NOT the default Earth-orientation table, see the eop_config family)."""
    lat, lon, alt = site
    ecef_site = site_ecef(lat, lon, alt)
    ins = instant(dt) if ins is None else ins
    eci = np.asarray(eci, dtype=float).reshape(6)
    finite = bool(np.all(np.isfinite(eci)))
    ecef = eci2ecef(eci, dt) if finite else np.full(6, np.nan)
    perr = _maxabs(ecef[:3] - ecef_site) if finite else float("inf")
    ok_pos = perr < TOL_POS_KM
    res.case(
        f"{sub}/position",
        case,
        ok_pos,
        nontrivial=nontrivial,
        signature=f"C11/{sub}/position/{'ok' if ok_pos else _shift_label(eci, dt, ecef_site, step) if finite else 'nan'}",
        observed={"ecef_km": ecef[:3], "error_km": perr},
        expected={"ecef_km": ecef_site, "tol_km": TOL_POS_KM},
        outcome="within_1m" if ok_pos else "displaced",
        item=item,
    )
    # independent of the library's eci2ecef: FK5 reference model of the same instant
    ref = ins.fk5.ecef_to_eci(np.concatenate((ecef_site, np.zeros(3))))
    perr2 = _maxabs(eci[:3] - ref[:3]) if finite else float("inf")
    res.case(
        f"{sub}/position_fk5",
        case,
        perr2 < TOL_POS_KM,
        signature=f"C11/{sub}/position_fk5",
        observed={"eci_km": eci[:3], "error_km": perr2},
        expected={"eci_km": ref[:3], "tol_km": TOL_POS_KM},
        item=item,
    )
    # velocity = (Earth rotation vector) x r, with the reported r
    vref = np.cross(ins.w_eci, eci[:3])
    verr = _maxabs(eci[3:] - vref) if finite else float("inf")
    res.case(
        f"{sub}/velocity",
        case,
        verr < TOL_VEL_KMS,
        nontrivial=nontrivial,
        signature=f"C11/{sub}/velocity",
        observed={"v_eci": eci[3:], "error_kms": verr},
        expected={"v_eci": vref, "tol_kms": TOL_VEL_KMS},
        item=item,
    )
    if strict_vel and abs(lat) <= 70.37:
        res.case(
            f"{sub}/velocity_rate_lod",
            case,
            verr < TOL_VEL_STRICT_KMS,
            signature=f"C11/{sub}/velocity_rate_lod",
            observed={"error_kms": verr, "lod_s": ins.fk5.lod},
            expected={"tol_kms": TOL_VEL_STRICT_KMS},
            item=item,
        )
    # no residual Earth-fixed velocity
    vfix = _maxabs(ecef[3:]) if finite else float("inf")
    res.case(
        f"{sub}/earth_fixed_velocity",
        case,
        vfix < TOL_VEL_KMS,
        signature=f"C11/{sub}/earth_fixed_velocity",
        observed={"v_ecef": ecef[3:]},
        expected={"v_ecef": [0, 0, 0], "tol_kms": TOL_VEL_KMS},
        item=item,
    )
    if observe:
        res.observe(eci)
    return ok_pos


def audit_agent_views(res, sub, case, agent, dt, elapsed, site, item, *, nontrivial):
    """SensingAgent's own derived views (ecef_state, lla_state, time) must describe the configured site."""
    ecef_site = site_ecef(*site)
    e_err = _maxabs(np.asarray(agent.ecef_state, dtype=float)[:3] - ecef_site)
    res.case(
        f"{sub}/ecef_state",
        case,
        e_err < TOL_POS_KM,
        nontrivial=nontrivial,
        signature=f"C11/{sub}/ecef_state",
        observed={"ecef_state": np.asarray(agent.ecef_state)[:3], "error_km": e_err},
        expected={"ecef_km": ecef_site},
        item=item,
    )
    lla = np.asarray(agent.lla_state, dtype=float)
    l_err = _maxabs(lla_to_ecef_rad(lla) - ecef_site) if np.all(np.isfinite(lla)) else float("inf")
    res.case(
        f"{sub}/lla_state",
        case,
        l_err < TOL_POS_KM,
        nontrivial=nontrivial,
        signature=f"C11/{sub}/lla_state",
        observed={"lat_deg": math.degrees(lla[0]), "lon_deg": math.degrees(lla[1]), "alt_km": lla[2], "error_km": l_err},
        expected={"lat_deg": site[0], "lon_deg": site[1], "alt_km": site[2]},
        item=item,
    )
    t_ok = float(agent.time) == float(elapsed) and agent.datetime_epoch == dt
    res.case(
        f"{sub}/agent_time",
        case,
        t_ok,
        signature=f"C11/{sub}/agent_time",
        observed={"time": float(agent.time), "datetime_epoch": agent.datetime_epoch.isoformat()},
        expected={"time": float(elapsed), "datetime_epoch": dt.isoformat()},
        item=item,
    )
    res.observe(lla, float(agent.time))


def _site_azimuth(eci, ins):
    """(right ascension of the site in the true-of-date frame of its own instant, distance from the rotation axis)."""
    r_tod = ins.fk5.pn.T @ np.asarray(eci, dtype=float)[:3]
    return math.atan2(r_tod[1], r_tod[0]), math.hypot(r_tod[0], r_tod[1])


def _drift_label(err_rad):
    """Name an angular displacement about the pole (for violation signatures only)."""
    for days in (1, 2):
        for sign, word in ((1.0, "ahead"), (-1.0, "behind")):
            if abs(err_rad - sign * days * ONE_DAY_DRIFT_RAD) < 0.02 * ONE_DAY_DRIFT_RAD:
                return f"{days}_day_of_sidereal_drift_{word}"
    return "other"


def audit_rotation(res, sub, case, track, item):
    """Between consecutive epochs the site must turn about the pole of date by the sidereal-angle difference.

    ``track`` = [(true UTC datetime, reported inertial state)].  The right ascension of the site is taken in the true-of-date
    frame of each epoch (independent precession/nutation), so the difference is the Earth rotation angle alone; the expected
    value is the difference of the independent reference's apparent sidereal angle (days since J2000 by ordinal arithmetic,
    UT1-UTC of the day), which over a step is the sidereal rate times the step (+ the tabulated UT1 jump at a midnight)."""
    prev = None
    for dt, eci in track:
        eci = np.asarray(eci, dtype=float).reshape(6)
        if not np.all(np.isfinite(eci)):
            prev = None
            continue
        ins = instant(dt)
        az, arm = _site_azimuth(eci, ins)
        if prev is not None:
            p_dt, p_az, p_arm, p_gast = prev
            turned = fr.angle_diff(az, p_az)
            want = fr.angle_diff(ins.fk5.gast, p_gast)
            err = fr.angle_diff(turned, want)
            tol = 2.0 * TOL_POS_KM / min(arm, p_arm)
            ok = abs(err) < tol
            dt_s = (dt - p_dt).total_seconds()
            res.case(
                f"{sub}/rotation_per_step",
                {**case, "from": p_dt.isoformat(), "to": dt.isoformat()},
                ok,
                nontrivial=p_dt.date() != dt.date() or _in_leap_window(dt),
                signature=f"C11/{sub}/rotation_per_step/{'ok' if ok else _drift_label(err)}",
                observed={"turned_rad": turned, "error_rad": err, "error_km": err * arm},
                expected={"turned_rad": want, "sidereal_rate_times_dt_rad": fr.angle_diff(
                    2.0 * math.pi * fr.SIDEREAL_REV_PER_DAY * dt_s / 86400.0, 0.0), "tol_rad": tol},
                outcome="sidereal_rate" if ok else "jump",
                item=item,
            )
            res.observe(turned)
        prev = (dt, az, arm, ins.fk5.gast)


# ------------------------------------------------------------------------------------------------ calendar sweep
def _run_calendar(res, item):
    """Every day of one month (month 0: of the whole year, day-of-year only): the library's day of year against ordinal
    calendar arithmetic, and (with_states) Terrestrial.propagate audited at 00:00:00 - reached from 23:59:00 of the day
    before, i.e. across every month boundary -, 12:00:00 and 23:59:59 of the day."""
    _, year, month, with_states = item
    months = range(1, 13) if month == 0 else [month]
    for mo in months:
        first = date(year, mo, 1)
        n_days = ((date(year + 1, 1, 1) if mo == 12 else date(year, mo + 1, 1)) - first).days
        for day in range(1, n_days + 1):
            for hh, mm, ss in ((0, 0, 0), (12, 0, 0), (23, 59, 59)):
                dt = datetime(year, mo, day, hh, mm, ss)
                case = {"year": year, "month": mo, "day": day, "time": f"{hh:02d}:{mm:02d}:{ss:02d}"}
                want = (dt.toordinal() - date(year, 1, 1).toordinal() + 1) + (hh * 3600 + mm * 60 + ss) / 86400.0
                ok, got = _guard(res, "calendar/day_of_year", case, item, dayOfYear, year, mo, day, hh, mm, ss)
                if not ok:
                    continue
                got = float(got)
                good = abs(got - want) < TOL_DOY_DAY
                label = "ok"
                if not good:
                    label = f"{'leap' if _is_leap(year) else 'common'}_year/month_{mo:02d}/off_by_{got - want:+.0f}"
                res.case(
                    "calendar/day_of_year",
                    case,
                    good,
                    nontrivial=True,
                    signature=f"C11/calendar/day_of_year/{label}",
                    observed={"day_of_year": got},
                    expected={"day_of_year": want, "tol_day": TOL_DOY_DAY},
                    outcome="matches_calendar" if good else "off",
                    item=item,
                )
                res.observe(got)
            if not with_states:
                continue
            eve = datetime(year, mo, day) - timedelta(seconds=60)  # 23:59:00 of the day before
            if eve.date() < EOP_FIRST:
                eve = datetime(year, mo, day)
            off = (datetime(year, mo, day) - eve).total_seconds()
            jd0 = datetimeToJulianDate(eve)
            for site in MIDRUN_SITES:
                dyn = Terrestrial(jd0, np.concatenate((site_ecef(*site), np.zeros(3))))
                prev = np.array([1.0, -2.0, 3.0, 0.1, 0.2, -0.3])
                t_prev = 0.0
                for t1 in (off, off + 43200.0, off + 86399.0):
                    if t1 == 0.0:
                        t1 = 0.5  # first day of the table: no day before; audit 00:00:00.5 instead
                    dt = eve + timedelta(seconds=t1)
                    case = {"lat": site[0], "lon": site[1], "alt": site[2], "start": eve.isoformat(), "t0": t_prev, "t1": t1,
                            "year": year, "month": mo, "day": day}
                    ok, out = _guard(res, "calendar", case, item, dyn.propagate, ScenarioTime(t_prev), ScenarioTime(t1), prev)
                    if not ok:
                        continue
                    audit_state(res, "calendar", case, out, dt, site, item, nontrivial=True, step=0)
                    prev, t_prev = out, t1


# ------------------------------------------------------------------------------------------------ lattice
def _sites(seed, full=True):
    sites = [(la, lo, al) for la in LATS for lo in LONS for al in ALTS]
    # lattice phase: one seed-placed site per altitude (keeps every run a complete enumeration of what it announces)
    s_lat = round(((seed * 37 + 11) % 1700) / 10.0 - 85.0, 1)
    s_lon = round(((seed * 7919 + 123) % 3600) / 10.0 - 180.0, 1)
    sites += [(s_lat, s_lon, al) for al in ALTS]
    if not full:
        # corner subset for the scenario runs: every latitude and longitude once, every altitude
        pick = [(-89.9, -180.0, 0.0), (-45.0, -90.0, 0.063), (0.0, 0.0, 4.0), (0.001, 31.13, 0.0), (45.0, 179.99, 0.063),
                (70.37, 31.13, 4.0), (89.9, -90.0, 0.0), (0.0, 179.99, 0.063), (s_lat, s_lon, 0.063)]
        return pick
    return sites


def _seed_minute(seed, k):
    """Seed-chosen day inside the EOP table (with room for 4 days of elapsed time) and minute of that day."""
    span = (date(2022, 9, 20) - date(2014, 1, 10)).days
    d = date(2014, 1, 10) + timedelta(days=(seed * 7919 + k * 104729 + 1777) % span)
    minute_of_day = (seed * 613 + k * 389 + 421) % 1438  # never 23:58/23:59: those are the fixed corner minutes
    return datetime(d.year, d.month, d.day, minute_of_day // 60, minute_of_day % 60)


def _minutes(tier, seed):
    """Start minutes; every second of each is a start instant."""
    out = [
        datetime(2016, 12, 31, 23, 59),  # leap-second eve AND year end (366-day year; table DAT 36 -> 37 at midnight)
        _seed_minute(seed, 0),
    ]
    if tier == "thorough":
        out += [
            datetime(2015, 6, 30, 23, 59),  # leap-second eve mid-year
            datetime(2019, 12, 31, 23, 59),  # year end into a leap year
            datetime(2020, 2, 28, 23, 59),  # into Feb 29
            datetime(2020, 12, 31, 23, 59),  # end of a leap year (day 366)
            datetime(2014, 1, 1, 0, 0),  # first day of the EOP table
            datetime(2022, 8, 20, 23, 59),  # near the end of the table (longest elapsed time ends 2022-10-01)
            _seed_minute(seed, 1),
            _seed_minute(seed, 2),
        ]
    return out


def _is_leap(year):
    return date(year, 3, 1).toordinal() - date(year, 2, 1).toordinal() == 29


def _calendar_years(tier):
    return sorted(LEAP_YEARS + (CONTROL_YEARS_T if tier == "thorough" else CONTROL_YEARS_Q))


def _calendar_instants(tier):
    """Start instants around the leap day: both sides of the 31 Jan, 28 Feb, 29 Feb midnights and mid-February."""
    out = []
    for y in _calendar_years(tier):
        out += [datetime(y, 1, 31, 23, 59, 30), datetime(y, 2, 1, 0, 0, 0), datetime(y, 2, 1, 0, 0, 30),
                datetime(y, 2, 15, 12, 0, 0), datetime(y, 2, 28, 23, 59, 30)]
        if _is_leap(y):
            out += [datetime(y, 2, 29, 0, 0, 0), datetime(y, 2, 29, 12, 0, 0), datetime(y, 2, 29, 23, 59, 30)]
        out += [datetime(y, 3, 1, 0, 0, 0), datetime(y, 3, 1, 0, 0, 30)]
    return out


def _in_leap_window(dt):
    """31 Jan .. 1 Mar: the days on which a leap-day / month-table slip of the day-of-year arithmetic can show."""
    return dt.month == 2 or (dt.month, dt.day) in ((1, 31), (3, 1))


def _calendar_scenario_cases(tier):
    """Real Scenario runs through the midnights that end 31 Jan, 28 Feb and (leap years) 29 Feb, and through all February."""
    out = []
    for y in _calendar_years(tier):
        eves = [datetime(y, 1, 31), datetime(y, 2, 28)] + ([datetime(y, 2, 29)] if _is_leap(y) else [])
        for eve in eves:
            out.append((eve.replace(hour=23, minute=50, second=30), 300, 6))
            out.append((eve.replace(hour=23, minute=50, second=30), 60, 20))
            out.append((eve.replace(hour=23, minute=59, second=30), 2, 45))
    # the whole month: 31 Jan 21:00:30 -> 2 Mar 00:00:30, an epoch 30 s after every midnight of February
    out.append((datetime(2020, 1, 31, 21, 0, 30), 10800, 241))
    if tier == "thorough":
        out.append((datetime(2016, 1, 31, 21, 0, 30), 10800, 241))
        out.append((datetime(2019, 1, 31, 21, 0, 30), 10800, 233))
        out.append((datetime(2020, 1, 31, 23, 30, 0), 3600, 722))
    return out


def _sweep_years(tier):
    return _calendar_years(tier) if tier == "quick" else list(range(2014, 2022))


def _ks(step):
    """Elapsed step counts: DESIGN's {0,1,2,288,1000} plus one just over a day and one just over three days; counts that
    would take more than 6 days are left out (hour-long steps) so that every seed-chosen start stays inside the EOP table."""
    ks = {0, 1, 2, 288, 1000, 86400 // step + 1, 3 * 86400 // step + 7}
    return sorted(k for k in ks if k * step <= MAX_ELAPSED_S)


def _steps(tier):
    return STEPS_T if tier == "thorough" else STEPS_Q


def _scenario_cases(tier, seed):
    """(start, step, n_steps) of the real Scenario runs."""
    sm = _seed_minute(seed, 0)
    sec = 1 + (seed * 17 + 36) % 58  # 1..58
    starts = [
        datetime(2016, 12, 31, 23, 59, sec),
        datetime(2016, 12, 31, 23, 59, 59),
        datetime(2019, 12, 31, 23, 59, 0),
        sm + timedelta(seconds=sec),
    ]
    plan = {2: 45, 60: 30, 300: 290}
    if tier == "thorough":
        starts += [datetime(2015, 6, 30, 23, 59, 1), datetime(2020, 2, 28, 23, 59, 31), sm + timedelta(seconds=29),
                   _seed_minute(seed, 1) + timedelta(seconds=sec)]
        plan = {2: 45, 7: 40, 60: 120, 300: 290, 3600: 80}
    return [(st, step, n) for st in starts for step, n in plan.items()]


def _heavy_seconds(seed):
    """Start seconds on which the FULL site lattice is run in the quick tier."""
    secs = [0, 1, 29, 30, 31, 59]
    for j in range(60):
        c = (seed * 17 + 7 + j * 23) % 60
        if c not in secs:
            secs.append(c)
        if len(secs) == 8:
            break
    return sorted(secs)


def _direct_items(tier, seed):
    """thorough: full product seconds x sites.  quick: union of two complete lattices - (all sites) x (8 seconds: both
    ends and the middle of the minute + 2 seed-chosen) and (9 corner sites) x (all 60 seconds)."""
    out = []
    for minute in _minutes(tier, seed):
        for step in _steps(tier):
            if tier == "thorough":
                for s0 in range(0, 60, 3):
                    out.append(("direct", minute.isoformat(), list(range(s0, s0 + 3)), step, seed, "all"))
            else:
                heavy = _heavy_seconds(seed)
                for sec in heavy:
                    out.append(("direct", minute.isoformat(), [sec], step, seed, "all"))
                light = [sec for sec in range(60) if sec not in heavy]
                for chunk in fw.chunked(light, 9):
                    out.append(("direct", minute.isoformat(), chunk, step, seed, "corner"))
    return out


def items(tier, seed):
    direct = _direct_items(tier, seed)
    # longest items (day-long scenario runs) early so that the pool drains evenly; item 0 stays a cheap one because the
    # runner replays it for the determinism self-check
    out = direct[:1]
    for st, step, n in sorted(_scenario_cases(tier, seed) + _calendar_scenario_cases(tier), key=lambda c: -c[2]):
        out.append(("scenario", st.isoformat(), step, n, seed))
    out += direct[1:]
    for minute in _minutes(tier, seed):
        out.append(("propagate", minute.isoformat(), seed))
    for st in (datetime(2016, 12, 31, 23, 59, 37), _seed_minute(seed, 0) + timedelta(seconds=13)):
        for step in (60, 300):
            out.append(("midrun", st.isoformat(), step, seed))
            out.append(("midrun_event", st.isoformat(), step, seed))
    for st in (datetime(2016, 12, 31, 23, 59, 37), _seed_minute(seed, 0) + timedelta(seconds=59)):
        out.append(("import", st.isoformat(), seed))
    # ---- calendar lattice: every family at every instant around the leap day
    for st in _calendar_instants(tier):
        minute = st.replace(second=0)
        for step in _steps(tier):
            out.append(("direct", minute.isoformat(), [st.second], step, seed, "corner"))
        out.append(("propagate", minute.isoformat(), seed, [st.second]))
        out.append(("midrun", st.isoformat(), 60, seed))
        out.append(("midrun_event", st.isoformat(), 60, seed))
        out.append(("import", st.isoformat(), seed))
    # ---- configured Earth-orientation source: every offline way of selecting a table x every listed start
    for cfg_name in EOP_CONFIGS:
        for st in _eop_config_starts(seed):
            out.append(("eop_config", cfg_name, st.isoformat(), seed))
    for year in _sweep_years(tier):
        for month in range(1, 13):
            out.append(("calendar", year, month, 1))
    for year in DOY_ONLY_YEARS:
        out.append(("calendar", year, 0, 0))
    return out


def bounds(tier, seed):
    return {
        "sites": {"lat_deg": LATS, "lon_deg": LONS, "alt_km": ALTS, "seed_site": _sites(seed)[-1][:2], "count": len(_sites(seed))},
        "start_minutes_every_second": [m.isoformat() for m in _minutes(tier, seed)],
        "direct_lattice": "all sites x all 60 seconds" if tier == "thorough" else
        f"all sites x seconds {_heavy_seconds(seed)} + corner sites x all 60 seconds",
        "steps_s": _steps(tier),
        "elapsed_steps_k": {str(s): _ks(s) for s in _steps(tier)},
        "scenario_runs": [(st.isoformat(), step, n) for st, step, n in _scenario_cases(tier, seed)],
        "scenario_sites": _sites(seed, full=False),
        "calendar_lattice": {
            "years": {"leap": LEAP_YEARS, "common": [y for y in _calendar_years(tier) if not _is_leap(y)]},
            "instants": [d.isoformat() for d in _calendar_instants(tier)],
            "families": "direct (corner sites, every step of steps_s), propagate, midrun (60 s), midrun_event (60 s), import",
            "scenario_runs": [(st.isoformat(), step, n) for st, step, n in _calendar_scenario_cases(tier)],
            "sweep_every_day_of_years": _sweep_years(tier),
            "sweep_instants_per_day": ["00:00:00 (from 23:59:00 of the day before)", "12:00:00", "23:59:59"],
            "sweep_sites": MIDRUN_SITES,
            "day_of_year_only_years": DOY_ONLY_YEARS,
        },
        "tolerances": {"position_km": TOL_POS_KM, "velocity_kms": TOL_VEL_KMS, "velocity_rate_lod_kms": TOL_VEL_STRICT_KMS,
                       "day_of_year_day": TOL_DOY_DAY, "rotation_per_step_rad": "2 * position_km / distance from the axis"},
        "eop_table": [EOP_FIRST.isoformat(), EOP_LAST.isoformat()],
        "eop_config": {
            "configured_sources": {k: list(v) for k, v in EOP_CONFIGS.items()},
            "not_enumerated": "RemoteDotDatEOPLoader (network)",
            "configured_table_span": [EOP_PREDICTED_FIRST.isoformat(), EOP_PREDICTED_LAST.isoformat()],
            "starts": [d.isoformat() for d in _eop_config_starts(seed)],
            "steps_s": EOP_CONFIG_STEPS,
            "elapsed_steps_k": EOP_CONFIG_KS,
            "sites": "scenario_sites",
            "shifted_table": {"dut1_plus_s": SHIFT_DUT1_S, "xp_plus_arcsec": SHIFT_XP_AS},
            "nontrivial_if_tables_apart_km": EOP_DISTINCT_KM,
        },
    }


# ------------------------------------------------------------------------------------------------ helpers on the real code
def _scenario_config(start, step, n_steps, sites, first_id=20001, events=None):
    sensors = [scen.ground_sensor(first_id + i, la, lo, al) for i, (la, lo, al) in enumerate(sites)]
    return scen.config(
        start,
        n_steps,
        [scen.engine(1, [scen.target_eci(10001, *scen.LEO_A)], sensors)],
        physics=step,
        truth_only=True,
        events=events,
    )


def _real_step(agent):
    """One propagation step of an agent exactly as PropagateExecutor performs it (submission pickled through ray)."""
    reg = PropagateRegistration(agent)
    result = ray.get(asyncPropagate.remote(reg.generateSubmission()))
    reg.processResults(result)


def _guard(res, sub, case, item, fn, *args):
    """Run library code; an exception is a violation of the property (the site has no state), not a harness error."""
    try:
        return True, fn(*args)
    except Exception as exc:  # noqa: BLE001
        res.case(
            f"{sub}/error",
            case,
            False,
            signature=f"C11/{sub}/error/{type(exc).__name__}",
            observed=f"{type(exc).__name__}: {exc}"[:300],
            expected="no exception",
            item=item,
        )
        return False, None


def _crosses_midnight(start, elapsed):
    return (start + timedelta(seconds=elapsed)).date() != start.date()


# ------------------------------------------------------------------------------------------------ direct lattice
def _run_direct(res, item):
    _, minute_iso, secs, step, seed, site_mode = item
    minute = datetime.fromisoformat(minute_iso)
    sites = _sites(seed, full=site_mode == "all")
    ks = _ks(step)
    for sec in secs:
        start = minute + timedelta(seconds=sec)
        sub_item = ("direct", minute_iso, [sec], step, seed, site_mode)
        worker_init()  # fresh in-memory database: the clock inserts its Epoch rows
        cfg = ScenarioConfig(**_scenario_config(start, step, 2, sites))
        clock = ScenarioClock.fromConfig(cfg.time)
        agents = []
        for sen_cfg, site in zip(cfg.engines[0].sensors, sites):
            case0 = {"lat": site[0], "lon": site[1], "alt": site[2], "start": start.isoformat(), "second": sec, "step": step}
            ok, dyn = _guard(res, "direct/build", case0, sub_item, dynamicsFactory, sen_cfg, cfg.propagation,
                             cfg.geopotential, cfg.perturbations, clock)
            if not ok:
                continue
            res.case(
                "direct/factory_kind",
                case0,
                isinstance(dyn, Terrestrial),
                signature="C11/direct/factory_kind",
                observed=type(dyn).__name__,
                expected="Terrestrial",
                item=sub_item,
            )
            ok, agent = _guard(res, "direct/build", case0, sub_item, SensingAgent.fromConfig, sen_cfg, clock, dyn, cfg.propagation)
            if ok:
                agents.append((agent, site))
        for k in ks:
            elapsed = k * step
            dt = start + timedelta(seconds=elapsed)
            nontriv = sec != 0 or _crosses_midnight(start, elapsed) or _in_leap_window(dt)
            for agent, site in agents:
                case = {"lat": site[0], "lon": site[1], "alt": site[2], "start": start.isoformat(), "second": sec,
                        "step": step, "k": k, "elapsed": elapsed}
                if k > 0:
                    # Terrestrial keeps no memory of the previous state, so the step that ENDS at k*step is driven
                    # from (k-1)*step; consecutive stepping from 0 is covered by the scenario runs
                    agent.time = ScenarioTime((k - 1) * step)
                    if not _guard(res, "direct", case, sub_item, _real_step, agent)[0]:
                        continue
                sub = "direct/initial" if k == 0 else "direct"
                audit_state(res, sub, case, agent.eci_state, dt, site, sub_item, nontrivial=nontriv, step=step)
                audit_agent_views(res, sub, case, agent, dt, elapsed, site, sub_item, nontrivial=nontriv)


# ------------------------------------------------------------------------------------------------ Terrestrial.propagate(t0, t1)
def _run_propagate(res, item):
    _, minute_iso, seed = item[:3]
    minute = datetime.fromisoformat(minute_iso)
    sites = _sites(seed, full=False)
    secs = sorted({0, 1, 29, 59, 1 + (seed * 17 + 36) % 58})
    if len(item) > 3:  # calendar lattice: exactly the listed start seconds
        secs = [int(x) for x in item[3]]
    pairs = [(0, 60), (60, 120), (0, 120), (7, 13), (13, 86407), (7, 86407), (0, 0.5), (0.5, 86400.25), (86340, 86460),
             (3599, 3600), (1000000, 1000001), (250000, 259200.0), (59, 61)]
    garbage = np.array([1.0, -2.0, 3.0, 0.1, 0.2, -0.3])
    for sec in secs:
        start = minute + timedelta(seconds=sec)
        jd0 = datetimeToJulianDate(start)
        for site in sites:
            ecef6 = np.concatenate((site_ecef(*site), np.zeros(3)))
            dyn = Terrestrial(jd0, ecef6)
            memo = {}
            for t0, t1 in pairs:
                case = {"lat": site[0], "lon": site[1], "alt": site[2], "start": start.isoformat(), "second": sec,
                        "t0": t0, "t1": t1}
                prev = memo.get(t0, garbage)  # the state a consecutive caller would pass in (or arbitrary)
                ok, out = _guard(res, "propagate", case, item, dyn.propagate, ScenarioTime(t0), ScenarioTime(t1), prev)
                if not ok:
                    continue
                memo[t1] = out
                dt = start + timedelta(seconds=t1)
                nontriv = t0 != 0 or _in_leap_window(dt)
                audit_state(res, "propagate", case, out, dt, site, item, nontrivial=nontriv, step=0)
                ok, one_call = _guard(res, "propagate", case, item, dyn.propagate, ScenarioTime(0), ScenarioTime(t1), garbage)
                if not ok:
                    continue
                same = bool(np.array_equal(np.asarray(out), np.asarray(one_call)))
                res.case(
                    "propagate/same_as_one_call",
                    case,
                    same,
                    nontrivial=nontriv,
                    signature="C11/propagate/same_as_one_call",
                    observed=np.asarray(out),
                    expected=np.asarray(one_call),
                    item=item,
                )


# ------------------------------------------------------------------------------------------------ real Scenario runs
def _run_scenario(res, item):
    from sqlalchemy.orm import Query  # noqa: PLC0415

    _, start_iso, step, n_steps, seed = item
    start = datetime.fromisoformat(start_iso)
    sites = _sites(seed, full=False)
    cfg = _scenario_config(start, step, n_steps + 2, sites)
    sc = scen.build(cfg)
    ids = [20001 + i for i in range(len(sites))]
    log = []

    def snapshot():
        log.append(
            (float(sc.clock.time), [(float(sc.sensor_agents[i].time), np.array(sc.sensor_agents[i].eci_state, dtype=float),
                                     np.array(sc.sensor_agents[i].ecef_state, dtype=float),
                                     np.array(sc.sensor_agents[i].lla_state, dtype=float),
                                     sc.sensor_agents[i].datetime_epoch) for i in ids])
        )

    snapshot()
    orig = sc.stepForward

    def stepped():
        orig()
        snapshot()

    sc.stepForward = stepped
    err = None
    try:
        sc.propagateTo(getTargetJulianDate(sc.clock.julian_date_start, timedelta(seconds=n_steps * step)))
    except Exception as exc:  # noqa: BLE001
        err = f"{type(exc).__name__}: {exc}"[:300]
    base = {"start": start_iso, "second": start.second, "step": step, "n_steps": n_steps}
    res.case(
        "scenario/ran",
        base,
        err is None and len(log) >= n_steps,  # the exact step count is C05's subject; here at least n-1 steps must exist
        signature="C11/scenario/ran",
        observed={"error": err, "epochs": len(log)},
        expected={"epochs": n_steps + 1},
        item=item,
    )

    class _View:  # what audit_agent_views reads
        def __init__(self, t, ecef, lla, dte):
            self.time, self.ecef_state, self.lla_state, self.datetime_epoch = t, ecef, lla, dte

    for clock_t, per_agent in log:
        dt = start + timedelta(seconds=clock_t)
        nontriv = start.second != 0 or _crosses_midnight(start, clock_t) or _in_leap_window(dt)
        for site, (a_time, eci, ecef, lla, dte) in zip(sites, per_agent):
            case = {**base, "lat": site[0], "lon": site[1], "alt": site[2], "elapsed": clock_t}
            audit_state(res, "scenario", case, eci, dt, site, item, nontrivial=nontriv, step=step)
            audit_agent_views(res, "scenario", case, _View(a_time, ecef, lla, dte), dt, clock_t, site, item, nontrivial=nontriv)
    # angle turned about the pole between consecutive epochs
    for j, site in enumerate(sites):
        track = [(start + timedelta(seconds=clock_t), per_agent[j][1]) for clock_t, per_agent in log]
        audit_rotation(res, "scenario", {**base, "lat": site[0], "lon": site[1], "alt": site[2]}, track, item)
    # TruthEphemeris rows of the ground agents: one per epoch, right Julian date, state = the site at that epoch
    rows = sc.database.getData(Query(TruthEphemeris).filter(TruthEphemeris.agent_id.in_(ids)))
    by_agent = {i: [] for i in ids}
    for r in rows:
        by_agent[r.agent_id].append((float(r.julian_date), np.array(r.eci, dtype=float)))
    n_epochs = len(log)
    for i, site in zip(ids, sites):
        got = sorted(by_agent[i], key=lambda p: p[0])
        case = {**base, "lat": site[0], "lon": site[1], "alt": site[2]}
        want_jd = [ref_jd(start + timedelta(seconds=k * step)) for k in range(n_epochs)]
        ok_jd = len(got) == n_epochs and all(abs(g[0] - w) <= TOL_JD_DAY for g, w in zip(got, want_jd))
        res.case(
            "scenario/truth_rows/epochs",
            case,
            ok_jd,
            nontrivial=start.second != 0,
            signature="C11/scenario/truth_rows/epochs",
            observed={"rows": len(got), "first_jd": [g[0] for g in got[:3]]},
            expected={"rows": n_epochs, "first_jd": want_jd[:3]},
            item=item,
        )
        for k, (jd, eci) in enumerate(got[:n_epochs]):
            dt = start + timedelta(seconds=k * step)
            nontriv = start.second != 0 or _crosses_midnight(start, k * step) or _in_leap_window(dt)
            audit_state(res, "scenario/truth_rows", {**case, "elapsed": k * step, "row_jd": jd}, eci, dt, site, item,
                        nontrivial=nontriv, step=step, observe=False)
        if ok_jd:
            audit_rotation(res, "scenario/truth_rows", case,
                           [(start + timedelta(seconds=k * step), eci) for k, (jd, eci) in enumerate(got)], item)
        res.observe([g[0] for g in got])
    res.states += len(log) * len(ids)
    res.transitions += max(len(log) - 1, 0) * len(ids)
    res.traces += len(ids)


# ------------------------------------------------------------------------------------------------ sensors added mid-run
MIDRUN_SITES = [(45.0, 31.13, 0.063), (0.0, -90.0, 0.0), (-70.37, 179.99, 4.0)]


def _run_midrun(res, item):
    """Scenario.addSensor (the call a sensor_addition event ends in) with the clock away from 0."""
    _, start_iso, step, seed = item
    start = datetime.fromisoformat(start_iso)
    before, after = 2, 4
    sc = scen.build(_scenario_config(start, step, before + after + 2, [(10.0, 20.0, 0.1)]))
    for _ in range(before):
        sc.stepForward()
    err = None
    try:
        for j, site in enumerate(MIDRUN_SITES):
            sc.addSensor(scen.ground_sensor(30001 + j, *site), 1)
    except Exception as exc:  # noqa: BLE001
        err = f"{type(exc).__name__}: {exc}"[:300]
    base = {"start": start_iso, "second": start.second, "step": step, "added_after_steps": before}
    res.case("midrun/added", base, err is None, signature="C11/midrun/added", observed=err, expected="no error", item=item)
    if err is not None:
        return
    for k in range(before, before + after + 1):
        if k > before:
            sc.stepForward()
        elapsed = float(sc.clock.time)
        dt = start + timedelta(seconds=elapsed)
        for j, site in enumerate(MIDRUN_SITES):
            agent = sc.sensor_agents[30001 + j]
            case = {**base, "lat": site[0], "lon": site[1], "alt": site[2], "elapsed": elapsed}
            audit_state(res, "midrun", case, agent.eci_state, dt, site, item, nontrivial=True, step=step)
            audit_agent_views(res, "midrun", case, agent, dt, elapsed, site, item, nontrivial=True)
    res.states += (after + 1) * len(MIDRUN_SITES)
    res.transitions += after * len(MIDRUN_SITES)
    res.traces += len(MIDRUN_SITES)


def _run_midrun_event(res, item):
    """The same through a real ``sensor_addition`` event of a ground facility."""
    _, start_iso, step, seed = item
    start = datetime.fromisoformat(start_iso)
    at_step, after = 2, 3
    when = start + timedelta(seconds=at_step * step)
    events = [
        {
            "scope": "scenario_step",
            "scope_instance_id": 0,
            "start_time": scen.iso(when),
            "end_time": scen.iso(when),
            "event_type": "sensor_addition",
            "tasking_engine_id": 1,
            "sensor_agent": scen.ground_sensor(30001 + j, *site),
        }
        for j, site in enumerate(MIDRUN_SITES)
    ]
    base = {"start": start_iso, "second": start.second, "step": step, "event_at_step": at_step}
    err = None
    sc = None
    try:
        sc = scen.build(_scenario_config(start, step, at_step + after + 2, [(10.0, 20.0, 0.1)], events=events))
        for _ in range(at_step):
            sc.stepForward()
    except Exception as exc:  # noqa: BLE001
        err = f"{type(exc).__name__}"
    present = sc is not None and all(30001 + j in sc.sensor_agents for j in range(len(MIDRUN_SITES)))
    res.case(
        "midrun_event/added",
        base,
        err is None and present,
        nontrivial=True,
        signature=f"C11/midrun_event/added/{err or 'absent'}",
        observed={"error": err, "present": present},
        expected="ground sensors present after the step that contains the event",
        outcome=err or ("present" if present else "absent"),
        item=item,
    )
    if err is not None or not present:
        return
    for k in range(at_step, at_step + after + 1):
        if k > at_step:
            sc.stepForward()
        elapsed = float(sc.clock.time)
        dt = start + timedelta(seconds=elapsed)
        for j, site in enumerate(MIDRUN_SITES):
            agent = sc.sensor_agents[30001 + j]
            case = {**base, "lat": site[0], "lon": site[1], "alt": site[2], "elapsed": elapsed}
            audit_state(res, "midrun_event", case, agent.eci_state, dt, site, item, nontrivial=True, step=step)
            audit_agent_views(res, "midrun_event", case, agent, dt, elapsed, site, item, nontrivial=True)


# ------------------------------------------------------------------------------------------------ imported states
def _run_import(res, item):
    """SensingAgent.importState (agents fed from an ephemeris database): all views must describe the imported epoch."""
    _, start_iso, seed = item
    start = datetime.fromisoformat(start_iso)
    sites = _sites(seed, full=False)
    for step in (60, 300):
        worker_init()
        cfg = ScenarioConfig(**_scenario_config(start, step, 2, sites))
        clock = ScenarioClock.fromConfig(cfg.time)
        for sen_cfg, site in zip(cfg.engines[0].sensors, sites):
            dyn = dynamicsFactory(sen_cfg, cfg.propagation, cfg.geopotential, cfg.perturbations, clock)
            agent = SensingAgent.fromConfig(sen_cfg, clock, dyn, cfg.propagation)
            for k in (1, 2, 289):
                elapsed = k * step
                dt = start + timedelta(seconds=elapsed)
                prev_dt = agent.datetime_epoch
                # the imported row is produced by the independent reference, not by the code under test
                eci_ref = instant(dt).fk5.ecef_to_eci(np.concatenate((site_ecef(*site), np.zeros(3))))
                row = TruthEphemeris.fromECIVector(agent_id=sen_cfg.id, julian_date=datetimeToJulianDate(dt), eci=eci_ref.tolist())
                agent.importState(row)
                case = {"lat": site[0], "lon": site[1], "alt": site[2], "start": start_iso, "step": step, "k": k}
                ok_state = bool(np.array_equal(np.asarray(agent.eci_state, dtype=float), eci_ref)) and abs(float(agent.time) - elapsed) < TOL_IMPORT_TIME_S
                res.case(
                    "import/state_and_time",
                    case,
                    ok_state,
                    nontrivial=True,
                    signature="C11/import/state_and_time",
                    observed={"time": float(agent.time)},
                    expected={"time": elapsed},
                    item=item,
                )
                ecef_site = site_ecef(*site)
                e_err = _maxabs(np.asarray(agent.ecef_state, dtype=float)[:3] - ecef_site)
                l_err = _maxabs(lla_to_ecef_rad(agent.lla_state) - ecef_site)
                ok = e_err < TOL_POS_KM and l_err < TOL_POS_KM
                label = "ok"
                if not ok:
                    # name the root cause: views computed with the epoch the agent had BEFORE the import
                    stale = eci2ecef(eci_ref, prev_dt)
                    label = "views_at_previous_epoch" if _maxabs(np.asarray(agent.ecef_state, dtype=float) - stale) < 1e-9 else "other"
                res.case(
                    "import/ecef_lla_views",
                    case,
                    ok,
                    nontrivial=True,
                    signature=f"C11/import/ecef_lla_views/{label}",
                    observed={"ecef_error_km": e_err, "lla_error_km": l_err},
                    expected={"tol_km": TOL_POS_KM},
                    outcome=label,
                    item=item,
                )
                res.observe(float(agent.time), np.asarray(agent.ecef_state, dtype=float))


# ------------------------------------------------------------------------------------------------ configured EOP source
# The behavioural configuration ([eop] LoaderName / LoaderLocation) selects the Earth-orientation table.  "Fixed at the
# configured geodetic location" is meant w.r.t. the table the user configured, so every documented offline way of selecting a
# table is enumerated and the reported states are compared with the independent FK5 model fed by the harness' OWN parse of that
# very table.  (RemoteDotDatEOPLoader needs a network and is not enumerated.)
#   module_predicted         packaged loader, the other table that ships with the package (EOP_Predicted.dat)
#   local_copy_of_predicted  local-file loader, byte copy of that table at an absolute path in a scratch directory
#   local_shifted_predicted  local-file loader, a table that exists nowhere in the package: the predicted table rewritten by the
#                            harness with UT1-UTC + 0.010 s and x_p + 0.1 arcsec (4.6 m / 3 m of displacement)
#   module_default_explicit  control: the default table named explicitly
EOP_CONFIGS = {
    "module_predicted": ("ModuleDotDatEOPLoader", "packaged"),
    "local_copy_of_predicted": ("LocalDotDatEOPLoader", "copy"),
    "local_shifted_predicted": ("LocalDotDatEOPLoader", "shifted"),
    "module_default_explicit": ("ModuleDotDatEOPLoader", "default"),
}
EOP_PREDICTED_FIRST = date(2021, 10, 6)
EOP_PREDICTED_LAST = date(2022, 4, 4)
EOP_CONFIG_STEPS = [60, 300]
EOP_CONFIG_KS = [0, 1, 2, 288]  # up to one day elapsed (300 s), always across the next midnight from the listed starts
SHIFT_DUT1_S = 0.010
SHIFT_XP_AS = 0.1
# an ignored / mixed-up table is only visible where the tables differ: a case is non-trivial iff the independent reference
# position under the configured table is more than 2 m (twice the property's bound) from the one under the default table
EOP_DISTINCT_KM = 2.0 * TOL_POS_KM


def _eop_config_starts(seed):
    """Start instants inside the predicted table (2021-10-06 .. 2022-04-04) with a day of room: first day, both sides of a
    year end, the leap window of a common year, the last midnight of the table, and one seed-chosen day/second."""
    span = (date(2022, 4, 2) - date(2021, 10, 7)).days
    d = date(2021, 10, 7) + timedelta(days=(seed * 7919 + 1777) % span)
    sod = (seed * 613 + 421) % 86400
    return [
        datetime(2021, 10, 6, 0, 0, 0),
        datetime(2021, 12, 31, 23, 59, 30),
        datetime(2022, 2, 28, 23, 50, 30),
        datetime(2022, 4, 2, 5, 17, 23),
        datetime(2022, 4, 3, 23, 50, 30),
        datetime(d.year, d.month, d.day) + timedelta(seconds=sod),
    ]


def _parse_eop_file(path):
    """Own parse of a '.dat' EOP table (same column meaning as frames_ref.eop_table, any file)."""
    tab = {}
    with open(path, encoding="utf-8") as fh:
        for line in fh:
            tok = line.split()
            if not tok:
                continue
            d = date(int(tok[0]), int(tok[1]), int(tok[2]))
            if d in tab:
                raise ValueError(f"duplicate EOP row {d}")
            tab[d] = (float(tok[4]), float(tok[5]), float(tok[6]), float(tok[7]), float(tok[8]), float(tok[9]), int(float(tok[12])))
    return tab


def _fk5_from_row(dt, row):
    xp, yp, dut1, lod, dpsi, deps, dat = row
    return fr.FK5(dt, xp * fr.ARCSEC, yp * fr.ARCSEC, dut1, lod, dpsi * fr.ARCSEC, deps * fr.ARCSEC, dat)


def _make_eop_source(kind, tmp):
    """(LoaderLocation to configure, path of the file the harness parses as the expectation)."""
    import os  # noqa: PLC0415
    import shutil  # noqa: PLC0415

    packaged = fr._data_path("eop", "EOP_Predicted.dat")  # noqa: SLF001
    if kind == "packaged":
        return "EOP_Predicted.dat", packaged
    if kind == "default":
        return "EOPdata.dat", fr._data_path("eop", "EOPdata.dat")  # noqa: SLF001
    if kind == "copy":
        path = os.path.join(tmp, "my_eop_table.dat")
        shutil.copyfile(packaged, path)
        return path, path
    path = os.path.join(tmp, "shifted_eop_table.dat")
    with open(packaged, encoding="utf-8") as src, open(path, "w", encoding="utf-8") as dst:
        for line in src:
            tok = line.split()
            if not tok:
                continue
            tok[4] = f"{float(tok[4]) + SHIFT_XP_AS:.6f}"
            tok[6] = f"{float(tok[6]) + SHIFT_DUT1_S:.7f}"
            dst.write(" ".join(tok) + "\n")
    return path, path


def _run_eop_config(res, item):
    import os  # noqa: PLC0415
    import shutil  # noqa: PLC0415
    import tempfile  # noqa: PLC0415

    from resonaate.common.behavioral_config import BehavioralConfig  # noqa: PLC0415
    from resonaate.physics.transforms.eops import getEarthOrientationParameters  # noqa: PLC0415

    _, cfg_name, start_iso, seed = item
    loader_name, kind = EOP_CONFIGS[cfg_name]
    start = datetime.fromisoformat(start_iso)
    sites = _sites(seed, full=False)
    shared = "_BehavioralConfig__shared_inst"
    original = BehavioralConfig.getConfig()
    tmp = tempfile.mkdtemp(prefix="verif_c11_eop_", dir="/tmp")  # noqa: S108
    try:
        location, ref_path = _make_eop_source(kind, tmp)
        table = _parse_eop_file(ref_path)
        cfg_path = os.path.join(tmp, "behavior.config")
        with open(cfg_path, "w", encoding="utf-8") as fh:
            fh.write(f"[eop]\nLoaderName = {loader_name}\nLoaderLocation = {location}\n")
        # the documented way: the first getConfig(path) of a process decides the behavioural configuration
        setattr(BehavioralConfig, shared, None)
        conf = BehavioralConfig.getConfig(cfg_path)
        base = {"eop_config": cfg_name, "loader": loader_name, "start": start_iso}
        res.case(
            "eop_config/config_read",
            base,
            conf.eop.LoaderName == loader_name and conf.eop.LoaderLocation == location,
            signature="C11/eop_config/config_read",
            observed={"LoaderName": conf.eop.LoaderName},
            expected={"LoaderName": loader_name},
            item=item,
        )
        # the values the library hands out for the configured source (implicit = from the configuration, explicit = the same
        # source named in the call) against the harness' own parse, on every day the runs below touch
        for off in (0, 1):
            day = (start + timedelta(days=off)).date()
            want = table[day]
            for how, args in (("implicit", ()), ("explicit", (loader_name, location))):
                case = {**base, "day": day.isoformat(), "lookup": how}
                ok, eop = _guard(res, "eop_config/table_values", case, item, getEarthOrientationParameters, day, *args)
                if not ok:
                    continue
                got = (eop.x_p / fr.ARCSEC, eop.y_p / fr.ARCSEC, eop.delta_ut1, eop.length_of_day, eop.d_delta_psi / fr.ARCSEC,
                       eop.d_delta_eps / fr.ARCSEC, eop.delta_atomic_time)
                # arc second <-> radian round trip in doubles: relative 1e-15; the tables differ from the 4th decimal on
                good = all(abs(g - w) < 1e-9 for g, w in zip(got, want))
                res.case(
                    "eop_config/table_values",
                    case,
                    good,
                    nontrivial=kind != "default",
                    signature=f"C11/eop_config/table_values/{how}",
                    observed=list(got),
                    expected=list(want),
                    outcome="configured_table" if good else "other_values",
                    item=item,
                )
                res.observe(list(got))
        for step in EOP_CONFIG_STEPS:
            worker_init()
            cfg = ScenarioConfig(**_scenario_config(start, step, 2, sites))
            clock = ScenarioClock.fromConfig(cfg.time)
            agents = []
            for sen_cfg, site in zip(cfg.engines[0].sensors, sites):
                case0 = {**base, "lat": site[0], "lon": site[1], "alt": site[2], "step": step}
                ok, dyn = _guard(res, "eop_config/build", case0, item, dynamicsFactory, sen_cfg, cfg.propagation,
                                 cfg.geopotential, cfg.perturbations, clock)
                if not ok:
                    continue
                ok, agent = _guard(res, "eop_config/build", case0, item, SensingAgent.fromConfig, sen_cfg, clock, dyn, cfg.propagation)
                if ok:
                    agents.append((agent, site))
            for k in EOP_CONFIG_KS:
                elapsed = k * step
                dt = start + timedelta(seconds=elapsed)
                ins = Instant(dt, _fk5_from_row(dt, table[dt.date()]))
                default_ref = instant(dt).fk5
                for agent, site in agents:
                    case = {**base, "lat": site[0], "lon": site[1], "alt": site[2], "step": step, "k": k, "elapsed": elapsed}
                    if k > 0:
                        agent.time = ScenarioTime((k - 1) * step)
                        if not _guard(res, "eop_config", case, item, _real_step, agent)[0]:
                            continue
                    e6 = np.concatenate((site_ecef(*site), np.zeros(3)))
                    apart = _maxabs(ins.fk5.ecef_to_eci(e6)[:3] - default_ref.ecef_to_eci(e6)[:3])
                    nontriv = apart > EOP_DISTINCT_KM
                    sub = "eop_config/initial" if k == 0 else "eop_config"
                    audit_state(res, sub, case, agent.eci_state, dt, site, item, nontrivial=nontriv, step=step, ins=ins)
                    audit_agent_views(res, sub, case, agent, dt, elapsed, site, item, nontrivial=nontriv)
    finally:
        setattr(BehavioralConfig, shared, original)
        shutil.rmtree(tmp, ignore_errors=True)


def _raised_by_library(exc) -> bool:
    """True iff the innermost harness-or-library frame of the traceback is library code (resonaate package)."""
    import traceback  # noqa: PLC0415

    for frame in reversed(traceback.extract_tb(exc.__traceback__)):
        fn = frame.filename.replace("\\", "/")
        if "/resonaate/" in fn:
            return True
        if "/verif/" in fn:
            return False
    return False


_RUNNERS = {}


def run_item(item):
    res = fw.Result()
    kind = item[0]
    runner = _RUNNERS.get(kind)
    if runner is None:
        raise ValueError(kind)
    try:
        runner(res, item)
    except Exception as exc:  # noqa: BLE001
        # every input of the lattice is a valid configuration: an exception coming out of the library means a ground
        # site could not be built / stepped (violation); an exception raised by the harness itself stays a harness error
        if not _raised_by_library(exc):
            raise
        res.case(
            f"{kind}/error",
            {"item": list(item)},
            False,
            signature=f"C11/{kind}/error/{type(exc).__name__}",
            observed=f"{type(exc).__name__}: {exc}"[:300],
            expected="no exception from the library",
            item=item,
        )
    return res


_RUNNERS.update(
    direct=_run_direct,
    propagate=_run_propagate,
    scenario=_run_scenario,
    midrun=_run_midrun,
    midrun_event=_run_midrun_event,
    calendar=_run_calendar,
    eop_config=_run_eop_config,
)
_RUNNERS["import"] = _run_import
