"""C11 - ground facilities stay fixed at their configured geodetic location.

Lattice explorer over (site lat/lon/alt) x (start instant, second by second) x (step) x (elapsed k*step) through the
real configuration -> dynamicsFactory -> Terrestrial -> SensingAgent path, plus real truth-only Scenario runs (every
epoch, TruthEphemeris rows), Terrestrial.propagate with arbitrary (t0, t1), sensors added mid-run and imported states.
"""
from __future__ import annotations

import math
from datetime import date, datetime, timedelta

import numpy as np

from verif import framework as fw
from verif import scen  # installs the in-process fake ray; MUST precede every resonaate import

import ray  # noqa: E402  (the fake one)
from resonaate.agents.sensing_agent import SensingAgent  # noqa: E402
from resonaate.data import setDBPath  # noqa: E402
from resonaate.data.ephemeris import TruthEphemeris  # noqa: E402
from resonaate.dynamics import dynamicsFactory  # noqa: E402
from resonaate.dynamics.terrestrial import Terrestrial  # noqa: E402
from resonaate.parallel.agent_propagation import PropagateRegistration, asyncPropagate  # noqa: E402
from resonaate.physics.time.conversions import getTargetJulianDate  # noqa: E402
from resonaate.physics.time.stardate import ScenarioTime, datetimeToJulianDate  # noqa: E402
from resonaate.physics.transforms.methods import eci2ecef  # noqa: E402
from resonaate.scenario.clock import ScenarioClock  # noqa: E402
from resonaate.scenario.config import ScenarioConfig  # noqa: E402

from verif.oracles import frames_ref as fr  # noqa: E402  (independent FK5 reference + own EOP table parser)

PROPERTY = "C11"
LEVEL = "model_checking"
RULE = (
    "direct: every (site, start instant, step, k) of the announced lattice - sites = lat x lon x alt alphabet (+ one "
    "seed-placed site per altitude), start instants = every second of one minute on each listed date (23:59:xx of a "
    "leap-second eve / year end, and a seed-chosen minute of a seed-chosen day; thorough: full product, quick: the "
    "union of [all sites x 8 seconds] and [9 corner sites x all 60 seconds]), k*step elapsed incl. k=0 (the state "
    "the agent is built with), crossing midnight, the year end and several days - is driven through the real "
    "ScenarioConfig -> ScenarioClock -> dynamicsFactory -> Terrestrial -> SensingAgent.fromConfig -> "
    "PropagateRegistration/asyncPropagate path and the reported state is compared with the harness' own geodetic->ECEF "
    "closed form at the true UTC datetime (python datetime arithmetic). scenario: real truth-only Scenario runs "
    "(propagateTo) audited at every epoch and in every TruthEphemeris row. propagate: Terrestrial.propagate with "
    "arbitrary (t0, t1). midrun: sensors added while the clock is not at 0. import: states imported into a "
    "SensingAgent. non-trivial = start second != 0, or the elapsed time crosses midnight, or (propagate) t0 != 0, or "
    "(midrun/import) the agent is created/updated away from the scenario start; distinct by construction (lattice "
    "points)."
)
ASSUMPTIONS = [
    "python datetime arithmetic gives the true UTC instant of start + elapsed (no leap-second insertion, as the library)",
    "the reported inertial state is converted back with the library's eci2ecef at the TRUE datetime: correctness of the "
    "ECI<->ECEF reduction itself is property C04's subject; as a cross-check the state is also compared with the "
    "independent FK5 reference model of C04 (verif/oracles/frames_ref.py, own parse of the bundled EOP/nutation tables)",
    "the Earth rotation vector is omega*(1-LOD/86400) about the celestial ephemeris pole; the pole direction in the "
    "inertial frame (precession*nutation*z) and LOD are taken from that independent reference, not from the library",
    "reference ellipsoid a=6378.1363 km, e=0.081819221456 (own literals)",
    "ecef2lla (used by SensingAgent.lla_state) is C04's subject; lla_state is only required to map back onto the site "
    "within the property's metre",
]
EXPECT_MIN_NONTRIVIAL = 5000

# ------------------------------------------------------------------------------------------------ tolerances
# position: the property's own bound, one metre.  Measured noise of the whole chain (three 3x3 rotations of a 6.4e3 km
# vector in doubles, millisecond-exact datetimes) is < 1e-10 km, seven orders below; the smallest timing defect the
# property is about (1 s of Earth rotation) displaces every site with |lat| <= 70.37 by 156..465 m.
TOL_POS_KM = 1.0e-3
# velocity, property clause: DESIGN bound.  A sign/frame slip in the omega x r term is ~0.46*cos(lat) km/s.
TOL_VEL_KMS = 1.0e-6
# velocity, rotation-rate clause ("Earth rotation rate incl. the LOD term"): omega*LOD/86400*R = 2e-9..1e-8 km/s for the
# |LOD| = 0.4..2 ms of the table, so 1e-6 cannot see it.  Measured agreement between the library and the independent
# pole/LOD reference is < 2e-13 km/s (rounding of 0.46 km/s products), so 1e-10 leaves three orders to the noise and
# 1.3 orders or more to a dropped LOD term on the LOD-bearing dates; applied to |lat| <= 70.37 only where it can matter.
TOL_VEL_STRICT_KMS = 1.0e-10
TOL_JD_DAY = 2.0e-9  # double-precision Julian date resolution near 2.45e6 is 4.7e-10 day (as in C05)
TOL_IMPORT_TIME_S = 1.0e-3  # JD resolution 4e-5 s on the imported epoch

R_EARTH = 6378.1363
ECC2 = 0.081819221456**2

LATS = [-89.9, -45.0, 0.0, 0.001, 45.0, 70.37, 89.9]
LONS = [-180.0, -90.0, 0.0, 31.13, 179.99]
ALTS = [0.0, 0.063, 4.0]
STEPS_Q = [2, 60, 300]
STEPS_T = [2, 7, 60, 300, 450, 3600]  # the configuration requires a step > 1 s
EOP_FIRST = date(2014, 1, 1)
EOP_LAST = date(2022, 10, 4)
MAX_ELAPSED_S = 6 * 86400


def worker_init():
    scen.fresh()
    setDBPath("sqlite://")


# ------------------------------------------------------------------------------------------------ oracle
def site_ecef(lat_deg, lon_deg, alt_km):
    """Own closed form: geodetic (deg, deg, km above the ellipsoid) -> Earth-fixed cartesian km."""
    lat = math.radians(lat_deg)
    lon = math.radians(lon_deg)
    n = R_EARTH / math.sqrt(1.0 - ECC2 * math.sin(lat) ** 2)
    rxy = (n + alt_km) * math.cos(lat)
    return np.array([rxy * math.cos(lon), rxy * math.sin(lon), (n * (1.0 - ECC2) + alt_km) * math.sin(lat)])


def lla_to_ecef_rad(lla):
    lat, lon, alt = float(lla[0]), float(lla[1]), float(lla[2])
    n = R_EARTH / math.sqrt(1.0 - ECC2 * math.sin(lat) ** 2)
    rxy = (n + alt) * math.cos(lat)
    return np.array([rxy * math.cos(lon), rxy * math.sin(lon), (n * (1.0 - ECC2) + alt) * math.sin(lat)])


def ref_jd(dt: datetime) -> float:
    return (dt.toordinal() + 1721424.5) + (dt.hour * 3600 + dt.minute * 60 + dt.second + dt.microsecond / 1e6) / 86400.0


class Instant:
    """Independent reference quantities of one true UTC instant (shared by all sites)."""

    __slots__ = ("dt", "fk5", "w_eci")

    def __init__(self, dt: datetime):
        self.dt = dt
        self.fk5 = fr.FK5.from_table(dt)
        # Earth rotation vector in the inertial frame: rate incl. LOD about the pole of date
        self.w_eci = self.fk5.pn @ np.array(self.fk5.omega)


_INSTANTS: dict = {}


def instant(dt: datetime) -> Instant:
    got = _INSTANTS.get(dt)
    if got is None:
        if len(_INSTANTS) > 4000:
            _INSTANTS.clear()
        got = _INSTANTS[dt] = Instant(dt)
    return got


def _maxabs(v):
    return float(np.max(np.abs(v)))


def _shift_label(eci, dt, ecef_site, step):
    """Name the time shift that explains a displaced site (for the violation signature only)."""
    cands = [(-1.0, "1s_early"), (1.0, "1s_late")]
    if step:
        cands += [(-float(step), "one_step_early"), (float(step), "one_step_late")]
    for shift, label in cands:
        # a state computed for (dt + shift) looks, at dt, like the site rotated by omega*shift; test by converting at dt+shift
        try:
            back = eci2ecef(np.asarray(eci, dtype=float), dt + timedelta(seconds=shift))
        except Exception:  # noqa: BLE001, S112
            continue
        if _maxabs(back[:3] - ecef_site) < TOL_POS_KM:
            return label
    return "other"


def audit_state(res, sub, case, eci, dt, site, item, *, nontrivial, step=0, strict_vel=True, observe=True):
    """All clauses for one reported inertial state of a ground agent at true UTC instant ``dt``."""
    lat, lon, alt = site
    ecef_site = site_ecef(lat, lon, alt)
    ins = instant(dt)
    eci = np.asarray(eci, dtype=float).reshape(6)
    finite = bool(np.all(np.isfinite(eci)))
    ecef = eci2ecef(eci, dt) if finite else np.full(6, np.nan)
    perr = _maxabs(ecef[:3] - ecef_site) if finite else float("inf")
    ok_pos = perr < TOL_POS_KM
    res.case(
        f"{sub}/position",
        case,
        ok_pos,
        nontrivial=nontrivial,
        signature=f"C11/{sub}/position/{'ok' if ok_pos else _shift_label(eci, dt, ecef_site, step) if finite else 'nan'}",
        observed={"ecef_km": ecef[:3], "error_km": perr},
        expected={"ecef_km": ecef_site, "tol_km": TOL_POS_KM},
        outcome="within_1m" if ok_pos else "displaced",
        item=item,
    )
    # independent of the library's eci2ecef: FK5 reference model of the same instant
    ref = ins.fk5.ecef_to_eci(np.concatenate((ecef_site, np.zeros(3))))
    perr2 = _maxabs(eci[:3] - ref[:3]) if finite else float("inf")
    res.case(
        f"{sub}/position_fk5",
        case,
        perr2 < TOL_POS_KM,
        signature=f"C11/{sub}/position_fk5",
        observed={"eci_km": eci[:3], "error_km": perr2},
        expected={"eci_km": ref[:3], "tol_km": TOL_POS_KM},
        item=item,
    )
    # velocity = (Earth rotation vector) x r, with the reported r
    vref = np.cross(ins.w_eci, eci[:3])
    verr = _maxabs(eci[3:] - vref) if finite else float("inf")
    res.case(
        f"{sub}/velocity",
        case,
        verr < TOL_VEL_KMS,
        nontrivial=nontrivial,
        signature=f"C11/{sub}/velocity",
        observed={"v_eci": eci[3:], "error_kms": verr},
        expected={"v_eci": vref, "tol_kms": TOL_VEL_KMS},
        item=item,
    )
    if strict_vel and abs(lat) <= 70.37:
        res.case(
            f"{sub}/velocity_rate_lod",
            case,
            verr < TOL_VEL_STRICT_KMS,
            signature=f"C11/{sub}/velocity_rate_lod",
            observed={"error_kms": verr, "lod_s": ins.fk5.lod},
            expected={"tol_kms": TOL_VEL_STRICT_KMS},
            item=item,
        )
    # no residual Earth-fixed velocity
    vfix = _maxabs(ecef[3:]) if finite else float("inf")
    res.case(
        f"{sub}/earth_fixed_velocity",
        case,
        vfix < TOL_VEL_KMS,
        signature=f"C11/{sub}/earth_fixed_velocity",
        observed={"v_ecef": ecef[3:]},
        expected={"v_ecef": [0, 0, 0], "tol_kms": TOL_VEL_KMS},
        item=item,
    )
    if observe:
        res.observe(eci)
    return ok_pos


def audit_agent_views(res, sub, case, agent, dt, elapsed, site, item, *, nontrivial):
    """SensingAgent's own derived views (ecef_state, lla_state, time) must describe the configured site."""
    ecef_site = site_ecef(*site)
    e_err = _maxabs(np.asarray(agent.ecef_state, dtype=float)[:3] - ecef_site)
    res.case(
        f"{sub}/ecef_state",
        case,
        e_err < TOL_POS_KM,
        nontrivial=nontrivial,
        signature=f"C11/{sub}/ecef_state",
        observed={"ecef_state": np.asarray(agent.ecef_state)[:3], "error_km": e_err},
        expected={"ecef_km": ecef_site},
        item=item,
    )
    lla = np.asarray(agent.lla_state, dtype=float)
    l_err = _maxabs(lla_to_ecef_rad(lla) - ecef_site) if np.all(np.isfinite(lla)) else float("inf")
    res.case(
        f"{sub}/lla_state",
        case,
        l_err < TOL_POS_KM,
        nontrivial=nontrivial,
        signature=f"C11/{sub}/lla_state",
        observed={"lat_deg": math.degrees(lla[0]), "lon_deg": math.degrees(lla[1]), "alt_km": lla[2], "error_km": l_err},
        expected={"lat_deg": site[0], "lon_deg": site[1], "alt_km": site[2]},
        item=item,
    )
    t_ok = float(agent.time) == float(elapsed) and agent.datetime_epoch == dt
    res.case(
        f"{sub}/agent_time",
        case,
        t_ok,
        signature=f"C11/{sub}/agent_time",
        observed={"time": float(agent.time), "datetime_epoch": agent.datetime_epoch.isoformat()},
        expected={"time": float(elapsed), "datetime_epoch": dt.isoformat()},
        item=item,
    )
    res.observe(lla, float(agent.time))


# ------------------------------------------------------------------------------------------------ lattice
def _sites(seed, full=True):
    sites = [(la, lo, al) for la in LATS for lo in LONS for al in ALTS]
    # lattice phase: one seed-placed site per altitude (keeps every run a complete enumeration of what it announces)
    s_lat = round(((seed * 37 + 11) % 1700) / 10.0 - 85.0, 1)
    s_lon = round(((seed * 7919 + 123) % 3600) / 10.0 - 180.0, 1)
    sites += [(s_lat, s_lon, al) for al in ALTS]
    if not full:
        # corner subset for the scenario runs: every latitude and longitude once, every altitude
        pick = [(-89.9, -180.0, 0.0), (-45.0, -90.0, 0.063), (0.0, 0.0, 4.0), (0.001, 31.13, 0.0), (45.0, 179.99, 0.063),
                (70.37, 31.13, 4.0), (89.9, -90.0, 0.0), (0.0, 179.99, 0.063), (s_lat, s_lon, 0.063)]
        return pick
    return sites


def _seed_minute(seed, k):
    """Seed-chosen day inside the EOP table (with room for 4 days of elapsed time) and minute of that day."""
    span = (date(2022, 9, 20) - date(2014, 1, 10)).days
    d = date(2014, 1, 10) + timedelta(days=(seed * 7919 + k * 104729 + 1777) % span)
    minute_of_day = (seed * 613 + k * 389 + 421) % 1438  # never 23:58/23:59: those are the fixed corner minutes
    return datetime(d.year, d.month, d.day, minute_of_day // 60, minute_of_day % 60)


def _minutes(tier, seed):
    """Start minutes; every second of each is a start instant."""
    out = [
        datetime(2016, 12, 31, 23, 59),  # leap-second eve AND year end (366-day year; table DAT 36 -> 37 at midnight)
        _seed_minute(seed, 0),
    ]
    if tier == "thorough":
        out += [
            datetime(2015, 6, 30, 23, 59),  # leap-second eve mid-year
            datetime(2019, 12, 31, 23, 59),  # year end into a leap year
            datetime(2020, 2, 28, 23, 59),  # into Feb 29
            datetime(2020, 12, 31, 23, 59),  # end of a leap year (day 366)
            datetime(2014, 1, 1, 0, 0),  # first day of the EOP table
            datetime(2022, 8, 20, 23, 59),  # near the end of the table (longest elapsed time ends 2022-10-01)
            _seed_minute(seed, 1),
            _seed_minute(seed, 2),
        ]
    return out


def _ks(step):
    """Elapsed step counts: DESIGN's {0,1,2,288,1000} plus one just over a day and one just over three days; counts that
    would take more than 6 days are left out (hour-long steps) so that every seed-chosen start stays inside the EOP table."""
    ks = {0, 1, 2, 288, 1000, 86400 // step + 1, 3 * 86400 // step + 7}
    return sorted(k for k in ks if k * step <= MAX_ELAPSED_S)


def _steps(tier):
    return STEPS_T if tier == "thorough" else STEPS_Q


def _scenario_cases(tier, seed):
    """(start, step, n_steps) of the real Scenario runs."""
    sm = _seed_minute(seed, 0)
    sec = 1 + (seed * 17 + 36) % 58  # 1..58
    starts = [
        datetime(2016, 12, 31, 23, 59, sec),
        datetime(2016, 12, 31, 23, 59, 59),
        datetime(2019, 12, 31, 23, 59, 0),
        sm + timedelta(seconds=sec),
    ]
    plan = {2: 45, 60: 30, 300: 290}
    if tier == "thorough":
        starts += [datetime(2015, 6, 30, 23, 59, 1), datetime(2020, 2, 28, 23, 59, 31), sm + timedelta(seconds=29),
                   _seed_minute(seed, 1) + timedelta(seconds=sec)]
        plan = {2: 45, 7: 40, 60: 120, 300: 290, 3600: 80}
    return [(st, step, n) for st in starts for step, n in plan.items()]


def _heavy_seconds(seed):
    """Start seconds on which the FULL site lattice is run in the quick tier."""
    secs = [0, 1, 29, 30, 31, 59]
    for j in range(60):
        c = (seed * 17 + 7 + j * 23) % 60
        if c not in secs:
            secs.append(c)
        if len(secs) == 8:
            break
    return sorted(secs)


def _direct_items(tier, seed):
    """thorough: full product seconds x sites.  quick: union of two complete lattices - (all sites) x (8 seconds: both
    ends and the middle of the minute + 2 seed-chosen) and (9 corner sites) x (all 60 seconds)."""
    out = []
    for minute in _minutes(tier, seed):
        for step in _steps(tier):
            if tier == "thorough":
                for s0 in range(0, 60, 3):
                    out.append(("direct", minute.isoformat(), list(range(s0, s0 + 3)), step, seed, "all"))
            else:
                heavy = _heavy_seconds(seed)
                for sec in heavy:
                    out.append(("direct", minute.isoformat(), [sec], step, seed, "all"))
                light = [sec for sec in range(60) if sec not in heavy]
                for chunk in fw.chunked(light, 9):
                    out.append(("direct", minute.isoformat(), chunk, step, seed, "corner"))
    return out


def items(tier, seed):
    direct = _direct_items(tier, seed)
    # longest items (day-long scenario runs) early so that the pool drains evenly; item 0 stays a cheap one because the
    # runner replays it for the determinism self-check
    out = direct[:1]
    for st, step, n in sorted(_scenario_cases(tier, seed), key=lambda c: -c[2]):
        out.append(("scenario", st.isoformat(), step, n, seed))
    out += direct[1:]
    for minute in _minutes(tier, seed):
        out.append(("propagate", minute.isoformat(), seed))
    for st in (datetime(2016, 12, 31, 23, 59, 37), _seed_minute(seed, 0) + timedelta(seconds=13)):
        for step in (60, 300):
            out.append(("midrun", st.isoformat(), step, seed))
            out.append(("midrun_event", st.isoformat(), step, seed))
    for st in (datetime(2016, 12, 31, 23, 59, 37), _seed_minute(seed, 0) + timedelta(seconds=59)):
        out.append(("import", st.isoformat(), seed))
    return out


def bounds(tier, seed):
    return {
        "sites": {"lat_deg": LATS, "lon_deg": LONS, "alt_km": ALTS, "seed_site": _sites(seed)[-1][:2], "count": len(_sites(seed))},
        "start_minutes_every_second": [m.isoformat() for m in _minutes(tier, seed)],
        "direct_lattice": "all sites x all 60 seconds" if tier == "thorough" else
        f"all sites x seconds {_heavy_seconds(seed)} + corner sites x all 60 seconds",
        "steps_s": _steps(tier),
        "elapsed_steps_k": {str(s): _ks(s) for s in _steps(tier)},
        "scenario_runs": [(st.isoformat(), step, n) for st, step, n in _scenario_cases(tier, seed)],
        "scenario_sites": _sites(seed, full=False),
        "tolerances": {"position_km": TOL_POS_KM, "velocity_kms": TOL_VEL_KMS, "velocity_rate_lod_kms": TOL_VEL_STRICT_KMS},
        "eop_table": [EOP_FIRST.isoformat(), EOP_LAST.isoformat()],
    }


# ------------------------------------------------------------------------------------------------ helpers on the real code
def _scenario_config(start, step, n_steps, sites, first_id=20001, events=None):
    sensors = [scen.ground_sensor(first_id + i, la, lo, al) for i, (la, lo, al) in enumerate(sites)]
    return scen.config(
        start,
        n_steps,
        [scen.engine(1, [scen.target_eci(10001, *scen.LEO_A)], sensors)],
        physics=step,
        truth_only=True,
        events=events,
    )


def _real_step(agent):
    """One propagation step of an agent exactly as PropagateExecutor performs it (submission pickled through ray)."""
    reg = PropagateRegistration(agent)
    result = ray.get(asyncPropagate.remote(reg.generateSubmission()))
    reg.processResults(result)


def _guard(res, sub, case, item, fn, *args):
    """Run library code; an exception is a violation of the property (the site has no state), not a harness error."""
    try:
        return True, fn(*args)
    except Exception as exc:  # noqa: BLE001
        res.case(
            f"{sub}/error",
            case,
            False,
            signature=f"C11/{sub}/error/{type(exc).__name__}",
            observed=f"{type(exc).__name__}: {exc}"[:300],
            expected="no exception",
            item=item,
        )
        return False, None


def _crosses_midnight(start, elapsed):
    return (start + timedelta(seconds=elapsed)).date() != start.date()


# ------------------------------------------------------------------------------------------------ direct lattice
def _run_direct(res, item):
    _, minute_iso, secs, step, seed, site_mode = item
    minute = datetime.fromisoformat(minute_iso)
    sites = _sites(seed, full=site_mode == "all")
    ks = _ks(step)
    for sec in secs:
        start = minute + timedelta(seconds=sec)
        sub_item = ("direct", minute_iso, [sec], step, seed, site_mode)
        worker_init()  # fresh in-memory database: the clock inserts its Epoch rows
        cfg = ScenarioConfig(**_scenario_config(start, step, 2, sites))
        clock = ScenarioClock.fromConfig(cfg.time)
        agents = []
        for sen_cfg, site in zip(cfg.engines[0].sensors, sites):
            case0 = {"lat": site[0], "lon": site[1], "alt": site[2], "start": start.isoformat(), "second": sec, "step": step}
            ok, dyn = _guard(res, "direct/build", case0, sub_item, dynamicsFactory, sen_cfg, cfg.propagation,
                             cfg.geopotential, cfg.perturbations, clock)
            if not ok:
                continue
            res.case(
                "direct/factory_kind",
                case0,
                isinstance(dyn, Terrestrial),
                signature="C11/direct/factory_kind",
                observed=type(dyn).__name__,
                expected="Terrestrial",
                item=sub_item,
            )
            ok, agent = _guard(res, "direct/build", case0, sub_item, SensingAgent.fromConfig, sen_cfg, clock, dyn, cfg.propagation)
            if ok:
                agents.append((agent, site))
        for k in ks:
            elapsed = k * step
            dt = start + timedelta(seconds=elapsed)
            nontriv = sec != 0 or _crosses_midnight(start, elapsed)
            for agent, site in agents:
                case = {"lat": site[0], "lon": site[1], "alt": site[2], "start": start.isoformat(), "second": sec,
                        "step": step, "k": k, "elapsed": elapsed}
                if k > 0:
                    # Terrestrial keeps no memory of the previous state, so the step that ENDS at k*step is driven
                    # from (k-1)*step; consecutive stepping from 0 is covered by the scenario runs
                    agent.time = ScenarioTime((k - 1) * step)
                    if not _guard(res, "direct", case, sub_item, _real_step, agent)[0]:
                        continue
                sub = "direct/initial" if k == 0 else "direct"
                audit_state(res, sub, case, agent.eci_state, dt, site, sub_item, nontrivial=nontriv, step=step)
                audit_agent_views(res, sub, case, agent, dt, elapsed, site, sub_item, nontrivial=nontriv)


# ------------------------------------------------------------------------------------------------ Terrestrial.propagate(t0, t1)
def _run_propagate(res, item):
    _, minute_iso, seed = item
    minute = datetime.fromisoformat(minute_iso)
    sites = _sites(seed, full=False)
    secs = sorted({0, 1, 29, 59, 1 + (seed * 17 + 36) % 58})
    pairs = [(0, 60), (60, 120), (0, 120), (7, 13), (13, 86407), (7, 86407), (0, 0.5), (0.5, 86400.25), (86340, 86460),
             (3599, 3600), (1000000, 1000001), (250000, 259200.0), (59, 61)]
    garbage = np.array([1.0, -2.0, 3.0, 0.1, 0.2, -0.3])
    for sec in secs:
        start = minute + timedelta(seconds=sec)
        jd0 = datetimeToJulianDate(start)
        for site in sites:
            ecef6 = np.concatenate((site_ecef(*site), np.zeros(3)))
            dyn = Terrestrial(jd0, ecef6)
            memo = {}
            for t0, t1 in pairs:
                case = {"lat": site[0], "lon": site[1], "alt": site[2], "start": start.isoformat(), "second": sec,
                        "t0": t0, "t1": t1}
                prev = memo.get(t0, garbage)  # the state a consecutive caller would pass in (or arbitrary)
                ok, out = _guard(res, "propagate", case, item, dyn.propagate, ScenarioTime(t0), ScenarioTime(t1), prev)
                if not ok:
                    continue
                memo[t1] = out
                dt = start + timedelta(seconds=t1)
                nontriv = t0 != 0
                audit_state(res, "propagate", case, out, dt, site, item, nontrivial=nontriv, step=0)
                ok, one_call = _guard(res, "propagate", case, item, dyn.propagate, ScenarioTime(0), ScenarioTime(t1), garbage)
                if not ok:
                    continue
                same = bool(np.array_equal(np.asarray(out), np.asarray(one_call)))
                res.case(
                    "propagate/same_as_one_call",
                    case,
                    same,
                    nontrivial=nontriv,
                    signature="C11/propagate/same_as_one_call",
                    observed=np.asarray(out),
                    expected=np.asarray(one_call),
                    item=item,
                )


# ------------------------------------------------------------------------------------------------ real Scenario runs
def _run_scenario(res, item):
    from sqlalchemy.orm import Query  # noqa: PLC0415

    _, start_iso, step, n_steps, seed = item
    start = datetime.fromisoformat(start_iso)
    sites = _sites(seed, full=False)
    cfg = _scenario_config(start, step, n_steps + 2, sites)
    sc = scen.build(cfg)
    ids = [20001 + i for i in range(len(sites))]
    log = []

    def snapshot():
        log.append(
            (float(sc.clock.time), [(float(sc.sensor_agents[i].time), np.array(sc.sensor_agents[i].eci_state, dtype=float),
                                     np.array(sc.sensor_agents[i].ecef_state, dtype=float),
                                     np.array(sc.sensor_agents[i].lla_state, dtype=float),
                                     sc.sensor_agents[i].datetime_epoch) for i in ids])
        )

    snapshot()
    orig = sc.stepForward

    def stepped():
        orig()
        snapshot()

    sc.stepForward = stepped
    err = None
    try:
        sc.propagateTo(getTargetJulianDate(sc.clock.julian_date_start, timedelta(seconds=n_steps * step)))
    except Exception as exc:  # noqa: BLE001
        err = f"{type(exc).__name__}: {exc}"[:300]
    base = {"start": start_iso, "second": start.second, "step": step, "n_steps": n_steps}
    res.case(
        "scenario/ran",
        base,
        err is None and len(log) >= n_steps,  # the exact step count is C05's subject; here at least n-1 steps must exist
        signature="C11/scenario/ran",
        observed={"error": err, "epochs": len(log)},
        expected={"epochs": n_steps + 1},
        item=item,
    )

    class _View:  # what audit_agent_views reads
        def __init__(self, t, ecef, lla, dte):
            self.time, self.ecef_state, self.lla_state, self.datetime_epoch = t, ecef, lla, dte

    for clock_t, per_agent in log:
        dt = start + timedelta(seconds=clock_t)
        nontriv = start.second != 0 or _crosses_midnight(start, clock_t)
        for site, (a_time, eci, ecef, lla, dte) in zip(sites, per_agent):
            case = {**base, "lat": site[0], "lon": site[1], "alt": site[2], "elapsed": clock_t}
            audit_state(res, "scenario", case, eci, dt, site, item, nontrivial=nontriv, step=step)
            audit_agent_views(res, "scenario", case, _View(a_time, ecef, lla, dte), dt, clock_t, site, item, nontrivial=nontriv)
    # TruthEphemeris rows of the ground agents: one per epoch, right Julian date, state = the site at that epoch
    rows = sc.database.getData(Query(TruthEphemeris).filter(TruthEphemeris.agent_id.in_(ids)))
    by_agent = {i: [] for i in ids}
    for r in rows:
        by_agent[r.agent_id].append((float(r.julian_date), np.array(r.eci, dtype=float)))
    n_epochs = len(log)
    for i, site in zip(ids, sites):
        got = sorted(by_agent[i], key=lambda p: p[0])
        case = {**base, "lat": site[0], "lon": site[1], "alt": site[2]}
        want_jd = [ref_jd(start + timedelta(seconds=k * step)) for k in range(n_epochs)]
        ok_jd = len(got) == n_epochs and all(abs(g[0] - w) <= TOL_JD_DAY for g, w in zip(got, want_jd))
        res.case(
            "scenario/truth_rows/epochs",
            case,
            ok_jd,
            nontrivial=start.second != 0,
            signature="C11/scenario/truth_rows/epochs",
            observed={"rows": len(got), "first_jd": [g[0] for g in got[:3]]},
            expected={"rows": n_epochs, "first_jd": want_jd[:3]},
            item=item,
        )
        for k, (jd, eci) in enumerate(got[:n_epochs]):
            dt = start + timedelta(seconds=k * step)
            nontriv = start.second != 0 or _crosses_midnight(start, k * step)
            audit_state(res, "scenario/truth_rows", {**case, "elapsed": k * step, "row_jd": jd}, eci, dt, site, item,
                        nontrivial=nontriv, step=step, observe=False)
        res.observe([g[0] for g in got])
    res.states += len(log) * len(ids)
    res.transitions += max(len(log) - 1, 0) * len(ids)
    res.traces += len(ids)


# ------------------------------------------------------------------------------------------------ sensors added mid-run
MIDRUN_SITES = [(45.0, 31.13, 0.063), (0.0, -90.0, 0.0), (-70.37, 179.99, 4.0)]


def _run_midrun(res, item):
    """Scenario.addSensor (the call a sensor_addition event ends in) with the clock away from 0."""
    _, start_iso, step, seed = item
    start = datetime.fromisoformat(start_iso)
    before, after = 2, 4
    sc = scen.build(_scenario_config(start, step, before + after + 2, [(10.0, 20.0, 0.1)]))
    for _ in range(before):
        sc.stepForward()
    err = None
    try:
        for j, site in enumerate(MIDRUN_SITES):
            sc.addSensor(scen.ground_sensor(30001 + j, *site), 1)
    except Exception as exc:  # noqa: BLE001
        err = f"{type(exc).__name__}: {exc}"[:300]
    base = {"start": start_iso, "second": start.second, "step": step, "added_after_steps": before}
    res.case("midrun/added", base, err is None, signature="C11/midrun/added", observed=err, expected="no error", item=item)
    if err is not None:
        return
    for k in range(before, before + after + 1):
        if k > before:
            sc.stepForward()
        elapsed = float(sc.clock.time)
        dt = start + timedelta(seconds=elapsed)
        for j, site in enumerate(MIDRUN_SITES):
            agent = sc.sensor_agents[30001 + j]
            case = {**base, "lat": site[0], "lon": site[1], "alt": site[2], "elapsed": elapsed}
            audit_state(res, "midrun", case, agent.eci_state, dt, site, item, nontrivial=True, step=step)
            audit_agent_views(res, "midrun", case, agent, dt, elapsed, site, item, nontrivial=True)
    res.states += (after + 1) * len(MIDRUN_SITES)
    res.transitions += after * len(MIDRUN_SITES)
    res.traces += len(MIDRUN_SITES)


def _run_midrun_event(res, item):
    """The same through a real ``sensor_addition`` event of a ground facility."""
    _, start_iso, step, seed = item
    start = datetime.fromisoformat(start_iso)
    at_step, after = 2, 3
    when = start + timedelta(seconds=at_step * step)
    events = [
        {
            "scope": "scenario_step",
            "scope_instance_id": 0,
            "start_time": scen.iso(when),
            "end_time": scen.iso(when),
            "event_type": "sensor_addition",
            "tasking_engine_id": 1,
            "sensor_agent": scen.ground_sensor(30001 + j, *site),
        }
        for j, site in enumerate(MIDRUN_SITES)
    ]
    base = {"start": start_iso, "second": start.second, "step": step, "event_at_step": at_step}
    err = None
    sc = None
    try:
        sc = scen.build(_scenario_config(start, step, at_step + after + 2, [(10.0, 20.0, 0.1)], events=events))
        for _ in range(at_step):
            sc.stepForward()
    except Exception as exc:  # noqa: BLE001
        err = f"{type(exc).__name__}"
    present = sc is not None and all(30001 + j in sc.sensor_agents for j in range(len(MIDRUN_SITES)))
    res.case(
        "midrun_event/added",
        base,
        err is None and present,
        nontrivial=True,
        signature=f"C11/midrun_event/added/{err or 'absent'}",
        observed={"error": err, "present": present},
        expected="ground sensors present after the step that contains the event",
        outcome=err or ("present" if present else "absent"),
        item=item,
    )
    if err is not None or not present:
        return
    for k in range(at_step, at_step + after + 1):
        if k > at_step:
            sc.stepForward()
        elapsed = float(sc.clock.time)
        dt = start + timedelta(seconds=elapsed)
        for j, site in enumerate(MIDRUN_SITES):
            agent = sc.sensor_agents[30001 + j]
            case = {**base, "lat": site[0], "lon": site[1], "alt": site[2], "elapsed": elapsed}
            audit_state(res, "midrun_event", case, agent.eci_state, dt, site, item, nontrivial=True, step=step)
            audit_agent_views(res, "midrun_event", case, agent, dt, elapsed, site, item, nontrivial=True)


# ------------------------------------------------------------------------------------------------ imported states
def _run_import(res, item):
    """SensingAgent.importState (agents fed from an ephemeris database): all views must describe the imported epoch."""
    _, start_iso, seed = item
    start = datetime.fromisoformat(start_iso)
    sites = _sites(seed, full=False)
    for step in (60, 300):
        worker_init()
        cfg = ScenarioConfig(**_scenario_config(start, step, 2, sites))
        clock = ScenarioClock.fromConfig(cfg.time)
        for sen_cfg, site in zip(cfg.engines[0].sensors, sites):
            dyn = dynamicsFactory(sen_cfg, cfg.propagation, cfg.geopotential, cfg.perturbations, clock)
            agent = SensingAgent.fromConfig(sen_cfg, clock, dyn, cfg.propagation)
            for k in (1, 2, 289):
                elapsed = k * step
                dt = start + timedelta(seconds=elapsed)
                prev_dt = agent.datetime_epoch
                # the imported row is produced by the independent reference, not by the code under test
                eci_ref = instant(dt).fk5.ecef_to_eci(np.concatenate((site_ecef(*site), np.zeros(3))))
                row = TruthEphemeris.fromECIVector(agent_id=sen_cfg.id, julian_date=datetimeToJulianDate(dt), eci=eci_ref.tolist())
                agent.importState(row)
                case = {"lat": site[0], "lon": site[1], "alt": site[2], "start": start_iso, "step": step, "k": k}
                ok_state = bool(np.array_equal(np.asarray(agent.eci_state, dtype=float), eci_ref)) and abs(float(agent.time) - elapsed) < TOL_IMPORT_TIME_S
                res.case(
                    "import/state_and_time",
                    case,
                    ok_state,
                    nontrivial=True,
                    signature="C11/import/state_and_time",
                    observed={"time": float(agent.time)},
                    expected={"time": elapsed},
                    item=item,
                )
                ecef_site = site_ecef(*site)
                e_err = _maxabs(np.asarray(agent.ecef_state, dtype=float)[:3] - ecef_site)
                l_err = _maxabs(lla_to_ecef_rad(agent.lla_state) - ecef_site)
                ok = e_err < TOL_POS_KM and l_err < TOL_POS_KM
                label = "ok"
                if not ok:
                    # name the root cause: views computed with the epoch the agent had BEFORE the import
                    stale = eci2ecef(eci_ref, prev_dt)
                    label = "views_at_previous_epoch" if _maxabs(np.asarray(agent.ecef_state, dtype=float) - stale) < 1e-9 else "other"
                res.case(
                    "import/ecef_lla_views",
                    case,
                    ok,
                    nontrivial=True,
                    signature=f"C11/import/ecef_lla_views/{label}",
                    observed={"ecef_error_km": e_err, "lla_error_km": l_err},
                    expected={"tol_km": TOL_POS_KM},
                    outcome=label,
                    item=item,
                )
                res.observe(float(agent.time), np.asarray(agent.ecef_state, dtype=float))


def _raised_by_library(exc) -> bool:
    """True iff the innermost harness-or-library frame of the traceback is library code (resonaate package)."""
    import traceback  # noqa: PLC0415

    for frame in reversed(traceback.extract_tb(exc.__traceback__)):
        fn = frame.filename.replace("\\", "/")
        if "/resonaate/" in fn:
            return True
        if "/verif/" in fn:
            return False
    return False


_RUNNERS = {}


def run_item(item):
    res = fw.Result()
    kind = item[0]
    runner = _RUNNERS.get(kind)
    if runner is None:
        raise ValueError(kind)
    try:
        runner(res, item)
    except Exception as exc:  # noqa: BLE001
        # every input of the lattice is a valid configuration: an exception coming out of the library means a ground
        # site could not be built / stepped (violation); an exception raised by the harness itself stays a harness error
        if not _raised_by_library(exc):
            raise
        res.case(
            f"{kind}/error",
            {"item": list(item)},
            False,
            signature=f"C11/{kind}/error/{type(exc).__name__}",
            observed=f"{type(exc).__name__}: {exc}"[:300],
            expected="no exception from the library",
            item=item,
        )
    return res


_RUNNERS.update(
    direct=_run_direct,
    propagate=_run_propagate,
    scenario=_run_scenario,
    midrun=_run_midrun,
    midrun_event=_run_midrun_event,
)
_RUNNERS["import"] = _run_import
