"""C12 - orbital element sets, anomalies and state configurations convert consistently.

Lattice explorer: every point of an announced (a, e, i, raan, argp, nu) lattice that contains the code's visible branch
points (circularity / equatorial limits, i = 0 and pi, quadrant edges, the 0 / 2 pi seam) is pushed through every
conversion of ``physics/orbits`` and every ``StateConfig.toECI`` and compared with an independent textbook reference
(``verif/oracles/orbit_ref.py``).  Separate lattices drive the anomaly conversions / Kepler solvers, ``singularityCheck``,
the helper functions of ``utils.py`` and the classification predicates.

Tolerance model (all errors are normalised: position by a(1+e), velocity by the perigee speed)
------------------------------------------------------------------------------------------------
* direct formula paths (elements -> state, COE <-> EQE): 1e-11 (observed <= 5e-15; >= 3 orders of margin).
* Cartesian -> classical elements: the library follows Vallado's arccos + quadrant-fix algorithm, whose conditioning is
  d(theta) = d(c)/|sin(theta)| up to sqrt(2 d(c)) ~ 4e-8 at theta = 0, pi, and the direction of the eccentricity /
  node vectors carries eps/e, eps/sin(i).  Tolerance = min(1e-6, 1e-11 + 1.1e-14 (1/s + 1/e + 1/sin i)) where s is the
  smallest |sin| of the angles that code path extracts (observed error*s <= 1.1e-15, i.e. 10x margin; the cap 1e-6 is
  25x the observed worst case 4e-8 and 5 orders below a quadrant slip, which is O(1)).
* designed classification error: an orbit the library classifies circular (e < 1e-7) loses its perigee direction
  (error <= 2e) and its anomalies are passed through as nu = E = M (<= 2e along track), together <= sqrt(8) e: 3e is
  allowed; one it classifies equatorial loses its node (<= 2 i', 2.2 i' allowed); these are added where the
  classification is (or, within 5e-3 relative of the limit / inside the arccos resolution of i = 0, pi, may be) singular.
  The largest allowance, 3e-7 of a (15 m at 50000 km), is 6 orders below a quadrant slip.
* equinoctial elements next to their own singular side (retro=False near pi, retro=True near 0): 1 + I cos(i) carries
  one ulp of absolute error, i.e. a relative error 2.2e-16/(1 + I cos i) ~ 4.4e-16/i'^2 in p, q and 4.4e-16/i' rad in
  the plane; 10x that is added.  i' < 1e-6 on that side is the documented EQE singularity and is excluded.
* angles equal to 2 pi (instead of 0) that arise from ``2 pi - arccos(1)`` when the quadrant test value is a rounding
  residue are classified either-way (the seam itself), anything beyond [0, 2 pi] is a violation.
"""
from __future__ import annotations

import math

import numpy as np

from verif import fakeray
from verif import framework as fw

fakeray.install()  # state_config imports the scenario package, which imports ray

from verif.oracles import orbit_ref as R  # noqa: E402

from resonaate.physics import orbits as orb  # noqa: E402
from resonaate.physics.bodies import Earth  # noqa: E402
from resonaate.physics.orbits import anomaly as an  # noqa: E402
from resonaate.physics.orbits import conversions as cv  # noqa: E402
from resonaate.physics.orbits import kepler as kp  # noqa: E402
from resonaate.physics.orbits import utils as ut  # noqa: E402
from resonaate.physics.orbits.elements import ClassicalElements, EquinoctialElements  # noqa: E402
from resonaate.scenario.config.state_config import COEStateConfig, ECIStateConfig, EQEStateConfig  # noqa: E402

PROPERTY = "C12"
LEVEL = "model_checking"
RULE = (
    "orbit lattice: every (a, e, i, raan, argp, nu) of the announced product (e straddling the 1e-7 circularity limit, "
    "i straddling the 1e-7 deg equatorial limit at both ends and i = 0, pi; each angle with 0, a seam neighbour, 180 deg "
    "and one seed-phased interior value per quadrant) is converted by every function of conversions.py / elements.py / "
    "state_config.py and compared with the textbook reference (the thin class wrappers EquinoctialElements.fromECI/"
    "fromCOE, ClassicalElements.fromEQE and EQEStateConfig on the even checkerboard of the angle indices, everything else "
    "on every point; the retrograde equinoctial family for i >= 90 deg in the quick tier, over its whole domain in the "
    "thorough tier); anomaly lattice: every (anomaly, e) / (longitude, h, k) "
    "pair through all ten anomaly conversions and both Kepler solvers; singularityCheck, utils helpers and the "
    "classification predicates on their own lattices. non-trivial orbit point = e or min(i, pi-i) within a factor 2 of "
    "its limit, or i in {0, pi}, or an angle on a quadrant edge / within 0.001 deg of the seam (counted once per point, "
    "not per subcheck); non-trivial anomaly pair = e within a factor 2 of the limit or e >= 0.7 or anomaly on a quadrant "
    "edge; distinct by construction (lattice points)."
)
ASSUMPTIONS = [
    "two-body textbook formulae of verif/oracles/orbit_ref.py (P,Q vectors; h, e, n vector extraction with atan2; "
    "half-angle anomaly relations; safeguarded Newton for Kepler's equation; Danielson's EQE definitions) are the "
    "reference; Earth.mu = 398600.4415 is asserted, not trusted",
    "retrograde-equatorial classical elements follow the convention of coe2eci and of Vallado's reference code "
    "(longitudes measured in the direction of motion, i.e. 2 pi - inertial longitude when i > 90 deg)",
    "EQE with retro=False within 1e-6 rad of i = pi (and retro=True within 1e-6 rad of i = 0) is the documented "
    "singularity and is excluded",
    "verdicts hold on the announced lattice only, not between lattice points",
]
EXPECT_MIN_NONTRIVIAL = 2000

# documented limits, hard-coded on purpose (a changed constant in the library must not move the lattice with it)
ECC_LIM = 1e-7
INC_LIM = 1e-7 * math.pi / 180.0
EARTH_RADIUS = 6378.1363
PI = math.pi
TWOPI = 2.0 * math.pi
MU = 398600.4415
# designed circularisation error, normalised by a: dropping the perigee direction moves the state by <= 2e, and the
# anomaly conversions return nu = E = M for a circular orbit (<= 2e along track): together <= sqrt(8) e
CIRC = 3.0
MU_ALT = 42828.375214  # Mars, to see that every mu= argument is honoured

SMA_Q = [6600.0, 50000.0]  # the ends of the quantified range; 26560 km carries the utils / singularity lattices
SMA_T = [6600.0, 7000.0, 26560.0, 42164.0, 50000.0]
SMA_FULL_T = (26560.0,)  # thorough: the 9-value angle product; the other four carry the 7-value (quick) product
ECC = [0.0, 0.99e-7, 1e-7, 1.01e-7, 1e-6, 0.01, 0.3, 0.7, 0.89]
ECC_Q_SECOND = (0.0, 1.01e-7, 0.3, 0.89)
ECC_T_EXTRA = [0.5e-7, 2e-7, 0.1, 0.8999]


def _inc_alphabet(tier):
    L = INC_LIM
    incs = [0.0, 0.99 * L, L, 1.01 * L, 1e-6, math.radians(28.5), 0.5 * PI, math.radians(150.0),
            PI - 1e-6, PI - 1.01 * L, PI - L, PI - 0.99 * L, PI]
    if tier == "full":  # the singularityCheck lattice: also half the limit
        incs += [0.5 * L, PI - 0.5 * L]
    if tier == "thorough":
        incs += [0.5 * L, PI - 0.5 * L]
        # inside the arccos resolution of Cartesian extraction (classification either-way there), and a regular fill
        incs += [5e-9, 1.2e-8, 3e-8, PI - 3e-8, PI - 1.2e-8, PI - 5e-9, 2.0 * L, PI - 2.0 * L,
                 1e-3, math.radians(63.4), math.radians(116.6), PI - 1e-3]
    return incs


def _phase(seed, k):
    """Deterministic interior offset in (7, 84) degrees; VERIF_SEED only moves the phase of the fill values."""
    return 7.37 + ((seed * 13 + k * 29) % 7600) / 100.0


def _angles(tier, seed):
    """Degrees.  Each angle: 0, a seam neighbour, 180, and an interior value in every quadrant."""
    tiny = math.degrees(1e-9)
    ra = [0.0, 359.999, 180.0, _phase(seed, 1), 90.0 + _phase(seed, 2), 180.0 + _phase(seed, 3), 270.0 + _phase(seed, 4)]
    ap = [0.0, tiny, 180.0, _phase(seed, 5), 90.0 + _phase(seed, 6), 180.0 + _phase(seed, 7), 270.0 + _phase(seed, 8)]
    nu = [0.0, 359.999, 180.0, _phase(seed, 9), 90.0 + _phase(seed, 10), 180.0 + _phase(seed, 11), 270.0 + _phase(seed, 12)]
    if tier == "thorough":
        ra += [tiny, 90.0]
        ap += [359.999, 270.0]
        nu += [tiny, 90.0]
    return ra, ap, nu


def _eccs(tier):
    return ECC + (ECC_T_EXTRA if tier == "thorough" else [])


def _smas(tier):
    return SMA_T if tier == "thorough" else SMA_Q


ANOM_E = [0.0, 0.5e-7, 0.99e-7, 1e-7, 1.01e-7, 1e-6, 0.01, 0.3, 0.7, 0.89, 0.8999]


def _anom_values(tier, seed):
    n = 24 if tier == "quick" else 96
    ph = (_phase(seed, 13) / 90.0) * (360.0 / n)
    vals = [k * 360.0 / n for k in range(n)] + [k * 360.0 / n + ph for k in range(n)]
    vals += [math.degrees(1e-9), 359.999, 179.999, 180.001]
    vals += [-60.0, -359.0, 360.0, 400.0, 725.0]  # inputs outside [0, 360): documented to be wrapped
    return vals


# ------------------------------------------------------------------------------------------------ work items
def items(tier, seed):
    out = []
    ra, ap, nu = _angles(tier, seed)
    raq, apq, nuq = _angles("quick", seed)
    incs = _inc_alphabet(tier)
    for a in _smas(tier):
        full = tier == "quick" or a in SMA_FULL_T
        for e in _eccs(tier):
            if tier == "quick" and a != SMA_Q[0] and e not in ECC_Q_SECOND:
                continue  # quick: the second semi-major axis (pure scale) carries one e per class
            for inc in incs:
                if full:
                    out.append(("orbit", a, e, inc, ra, ap, nu, tier == "thorough"))
                else:  # thorough only: the two intermediate semi-major axes carry the quick angle product
                    out.append(("orbit", a, e, inc, raq, apq, nuq, True))
    anoms = _anom_values(tier, seed)
    for e in ANOM_E + ([0.05, 0.5, 0.8] if tier == "thorough" else []):
        out.append(("anomaly", e, anoms))
    for e in (0.0, 0.5e-7, 1.01e-7, 0.01, 0.3, 0.7, 0.89):
        out.append(("longitude", e, anoms[:: (2 if tier == "quick" else 1)], [0.0, 180.0, _phase(seed, 14), 90.0 + _phase(seed, 15), 180.0 + _phase(seed, 16), 270.0 + _phase(seed, 17)]))
    sing_angles = sorted(set(ra + [-30.0, 400.0]))
    for e in (0.0, 0.5e-7, 0.99e-7, 1e-7, 1.01e-7, 0.3):
        for inc in _inc_alphabet("full"):
            out.append(("singularity", e, inc, sing_angles if tier == "thorough" else sing_angles[:9]))
    for e in (1e-6, 0.01, 0.3, 0.89):
        for inc in (1e-6, math.radians(28.5), 0.5 * PI, math.radians(150.0), PI - 1e-6):
            out.append(("utils", 26560.0, e, inc, ra, ap, nu))
    out.append(("scalars", seed))
    for e in (0.0, 0.01, 0.3, 0.89):
        out.append(("mu", e, ra[:5], ap[2:6], nu[1:6]))
    return out


def bounds(tier, seed):
    ra, ap, nu = _angles(tier, seed)
    return {
        "sma_km": _smas(tier),
        "sma_note": "quick: 6600 km with every e, 50000 km with e in %s; thorough: 26560 km with the 9-value angle "
                    "product, the other four with the 7-value product" % (list(ECC_Q_SECOND),),
        "ecc": _eccs(tier),
        "inc_rad": _inc_alphabet(tier),
        "raan_deg": ra,
        "argp_deg": ap,
        "nu_deg": nu,
        "orbit_points": sum(len(i[4]) * len(i[5]) * len(i[6]) for i in items(tier, seed) if i[0] == "orbit"),
        "class_wrapper_sublattice": "EquinoctialElements.fromECI/fromCOE, ClassicalElements.fromEQE and EQEStateConfig run on the "
                                    "checkerboard (index sum of raan, argp, nu even); every other subcheck on every point",
        "anomaly_ecc": ANOM_E,
        "anomaly_values": len(_anom_values(tier, seed)),
        "ecc_limit": ECC_LIM,
        "inc_limit_rad": INC_LIM,
    }


# ------------------------------------------------------------------------------------------------ classification
def _ecc_class(e):
    """Documented classification of a *given* eccentricity: 'circular' / 'eccentric' / 'either' (within 5e-3 of limit)."""
    if e < 0.995 * ECC_LIM:
        return "circular"
    if e > 1.005 * ECC_LIM:
        return "eccentric"
    return "either"


def _inc_class_direct(inc):
    """Classification of a *given* inclination by the documented limit (functions that take i as an argument)."""
    d = min(inc, PI - inc)
    side = "retro_equatorial" if inc > 0.5 * PI else "equatorial"
    if d < INC_LIM * (1.0 - 1e-6):
        return side
    if d > INC_LIM * (1.0 + 1e-6):
        return "inclined"
    return "either_" + side


def _inc_class_cart(inc):
    """Classification reachable from a Cartesian state: arccos(h_z) resolves nothing below ~1.5e-8 rad."""
    d = min(inc, PI - inc)
    side = "retro_equatorial" if inc > 0.5 * PI else "equatorial"
    if d <= 2.0 * INC_LIM:
        return side  # cos(i) rounds to +-1 exactly -> the library sees i = 0 / pi
    if d >= 1e-6:
        return "inclined"
    return "either_" + side


def _edge(deg):
    m = deg % 90.0
    return m < 1.1e-3 or m > 90.0 - 1.1e-3


def _nontrivial_point(e, inc, angs_deg):
    d = min(inc, PI - inc)
    return (
        (0.5 * ECC_LIM <= e <= 2.0 * ECC_LIM)
        or (0.5 * INC_LIM <= d <= 2.0 * INC_LIM)
        or inc == 0.0
        or inc == PI
        or any(_edge(x) for x in angs_deg)
    )


# ------------------------------------------------------------------------------------------------ tolerances
def _scales(a, e, mu):
    p = a * (1.0 - e * e)
    return a * (1.0 + e), math.sqrt(mu / p) * (1.0 + e)


def _serr(x, xref, rs, vs):
    x = np.asarray(x, dtype=float)
    if x.shape != (6,) or not np.all(np.isfinite(x)):
        return float("inf")
    return max(float(np.max(np.abs(x[:3] - xref[:3]))) / rs, float(np.max(np.abs(x[3:] - xref[3:]))) / vs)


def _designed(e, inc, cart):
    """Designed classification error (normalised) that may be present for this orbit."""
    d = min(inc, PI - inc)
    allow = 0.0
    if _ecc_class(e) != "eccentric":
        allow += CIRC * e
    cls = _inc_class_cart(inc) if cart else _inc_class_direct(inc)
    if cls != "inclined":
        allow += 2.2 * d
    return allow


def _sin_floor(*angles):
    return max(min(abs(math.sin(t)) for t in angles), 1e-300)


def _tol_cart(e, inc, raan, argp, nu):
    """Normalised tolerance of Cartesian -> classical -> Cartesian (see module docstring)."""
    ec, ic = _ecc_class(e), _inc_class_cart(inc)
    sgn = -1.0 if inc > 0.5 * PI else 1.0
    cands = []
    # every extraction path the library may legitimately take for this point
    if ec != "circular" and ic != "equatorial" and ic != "retro_equatorial":
        cands.append(_sin_floor(raan, argp, nu, inc))
    if ec != "circular" and ic != "inclined":
        cands.append(_sin_floor(raan + sgn * argp, nu))
    if ec != "eccentric" and ic != "equatorial" and ic != "retro_equatorial":
        cands.append(_sin_floor(raan, argp + nu, inc))
    if ec != "eccentric" and ic != "inclined":
        cands.append(_sin_floor(raan + sgn * (argp + nu)))
    s = min(cands)
    cond = 1.1e-14 / s
    if ec != "circular":
        cond += 1.1e-14 / max(e, 1e-300)
    if ic == "inclined":
        cond += 1.1e-14 / max(math.sin(inc), 1e-300)
    return min(1e-6, 1e-11 + cond) + _designed(e, inc, cart=True)


def _tol_direct(e, inc):
    return 1e-11 + _designed(e, inc, cart=False)


def _eqe_sing(inc, retro):
    """Extra normalised tolerance next to the singular side of the chosen equinoctial family."""
    d = inc if retro else PI - inc
    return 4.4e-15 / max(d, 1e-300)


_RETRO_ALL = [False]  # thorough tier: the retrograde family over its whole domain, quick: for i >= 90 deg only


def _eqe_domain(inc, retro):
    d = inc if retro else PI - inc
    if retro and not _RETRO_ALL[0] and inc < 0.5 * PI:
        return False
    return d >= 1e-6 * (1.0 - 1e-9)


def _angle_ok(v):
    """(in documented range, is-the-seam) for a returned angle."""
    v = float(v)
    if not math.isfinite(v):
        return False, False
    if v == TWOPI:
        return True, True
    return 0.0 <= v < TWOPI, False


# ------------------------------------------------------------------------------------------------ orbit lattice
def _flip_diag(a, e, inc, c, xref, rs, vs, tol, raan_in, cart, mu=MU):
    """Name the mechanism of a retrograde-equatorial mismatch, so a known finding cannot hide a different one.

    'unflipped_longitude': the returned longitude slot is the inertial (eastward) longitude; negating it reproduces the
    state (eci2coe omits the i > 90 deg flip).  'raan_sign': the slot holds raan + argp (+ nu) where the retrograde orbit
    needs argp (+ nu) - raan; subtracting 2 raan reproduces the state (singularityCheck).  'other': neither.
    """
    try:
        _, _, _, ra, ap, an_ = (float(v) for v in c)
    except Exception:  # noqa: BLE001
        return "other"
    cands = [
        ("unflipped_longitude", (ra, -ap, an_)),
        ("unflipped_longitude", (ra, ap, -an_)),
        ("raan_sign", (ra, ap - 2.0 * raan_in, an_)),
        ("raan_sign", (ra, ap, an_ - 2.0 * raan_in)),
    ]
    if not cart:  # element -> element paths go through singularityCheck, Cartesian extraction through eci2coe
        cands = cands[2:] + cands[:2]
    for name, cand in cands:
        if _serr(R.coe2rv(a, e, inc, *cand, mu=mu), xref, rs, vs) <= tol:
            return name
    return "other"


class _Pt:
    """One lattice point: inputs, reference state, labels; funnels every case through Result.case."""

    def __init__(self, res, a, e, inc, ra_d, ap_d, nu_d, item_kind="orbit"):
        self.res = res
        self.a, self.e, self.inc = a, e, inc
        self.ra_d, self.ap_d, self.nu_d = ra_d, ap_d, nu_d
        self.raan, self.argp, self.nu = math.radians(ra_d), math.radians(ap_d), math.radians(nu_d)
        self.x = R.coe2rv(a, e, inc, self.raan, self.argp, self.nu)
        self.rs, self.vs = _scales(a, e, MU)
        self.ec = _ecc_class(e)
        self.icd = _inc_class_direct(inc)
        self.icc = _inc_class_cart(inc)
        self.case = {
            "a": a, "e": e, "inc": inc, "inc_dist_pi": PI - inc, "raan_deg": ra_d, "argp_deg": ap_d, "nu_deg": nu_d,
            "ecc_class": self.ec, "inc_class": self.icd, "inc_class_cart": self.icc,
        }
        self.item = (item_kind, a, e, inc, [ra_d], [ap_d], [nu_d], _RETRO_ALL[0])
        self._nt = _nontrivial_point(e, inc, (ra_d, ap_d, nu_d))
        self.retro_eq_cart = self.icc in ("retro_equatorial", "either_retro_equatorial")
        self.retro_eq_direct = self.icd in ("retro_equatorial", "either_retro_equatorial")

    def rec(self, sub, ok, sig=None, observed=None, expected=None, outcome=None, extra=None):
        nt, self._nt = self._nt, False  # a lattice point is counted once
        case = self.case if extra is None else {**self.case, **extra}
        return self.res.case(
            sub, case, bool(ok), nontrivial=nt, signature=sig or f"C12/{sub}/{self.ec}_{self.icd}",
            observed=observed, expected=expected, outcome=outcome, item=self.item,
        )

    def state(self, sub, x, tol, *, cart=False, coe=None, extra=None, xref=None, sig=None):
        """Cartesian agreement with the reference state; names the retrograde-equatorial mechanisms on failure."""
        xref = self.x if xref is None else xref
        err = _serr(x, xref, self.rs, self.vs)
        ok = err <= tol
        if not ok and sig is None:
            region = f"{self.ec}_{self.icc if cart else self.icd}"
            if coe is not None and (self.retro_eq_cart if cart else self.retro_eq_direct):
                diag = _flip_diag(self.a, self.e, self.inc, coe, xref, self.rs, self.vs, tol, self.raan, cart)
                sig = f"C12/{sub}/retro_equatorial/{diag}"
            else:
                sig = f"C12/{sub}/{region}"
        self.rec(sub, ok, sig=sig, observed={"err_norm": err, "state": x}, expected={"tol_norm": tol, "state": xref},
                 outcome=f"{self.ec}/{self.icc if cart else self.icd}", extra=extra)
        return ok

    def angles(self, sub, vals, extra=None):
        """Documented range [0, 2 pi); exactly 2 pi is the seam itself (either-way)."""
        bad = []
        for name, v in vals:
            ok, seam = _angle_ok(v)
            if seam:
                self.res.either_way += 1
            if not ok:
                bad.append((name, float(v)))
        self.rec(sub, not bad, sig=f"C12/{sub}", observed=bad, expected="[0, 2pi)", extra=extra)


def _ang_tol(s, e=None, sini=None):
    t = 1e-11 + 1.1e-14 / max(s, 1e-300)
    if e is not None:
        t += 1.1e-14 / max(e, 1e-300)
    if sini is not None:
        t += 1.1e-14 / max(sini, 1e-300)
    return min(3e-7, t)


def _try(fn, *args, **kw):
    try:
        return fn(*args, **kw), None
    except Exception as exc:  # noqa: BLE001
        return None, f"{type(exc).__name__}: {exc}"


def _orbit_point(res, a, e, inc, ra_d, ap_d, nu_d, wrappers=True):  # noqa: C901, PLR0912, PLR0915
    pt = _Pt(res, a, e, inc, ra_d, ap_d, nu_d)
    x, raan, argp, nu = pt.x, pt.raan, pt.argp, pt.nu
    coe_in = (a, e, inc, raan, argp, nu)
    tol_d = _tol_direct(e, inc)
    tol_c = _tol_cart(e, inc, raan, argp, nu)

    # ---- 1. coe2eci against the reference builder (plain formula, no classification inside)
    xc, err = _try(cv.coe2eci, *coe_in)
    pt.state("coe2eci/reference", xc if err is None else None, 1e-11)
    res.observe(xc)

    # ---- 2-4. eci2coe: elements, ranges, round trip
    c, err = _try(cv.eci2coe, x)
    if err is not None:
        pt.rec("eci2coe/call", False, observed=err)
    else:
        c = tuple(float(v) for v in c)
        res.observe(c)
        sma, ecc, ci, cra, cap, can = c
        pt.angles("eci2coe/range", (("raan", cra), ("argp", cap), ("anomaly", can)))
        pt.rec("eci2coe/scalars",
               abs(sma - a) <= 1e-11 * a * (1 + e) / (1 - e) and abs(ecc - e) <= 1e-12 and 0.0 <= ci <= PI
               and abs(ci - inc) <= min(5e-8, 1e-11 + 1.1e-14 / max(math.sin(inc), 1e-300)),
               observed=[sma, ecc, ci], expected=[a, e, inc])
        ref = R.rv2coe(x)
        # structure: which of the four element layouts must have been returned
        # (on the limit itself the library's own decision is read off the e / i it returns: it decides on exactly those)
        circ_layout = ecc < ECC_LIM
        eq_layout = not (INC_LIM <= ci <= PI - INC_LIM)
        want_circ = {"circular": True, "eccentric": False}.get(pt.ec)
        want_eq = {"inclined": False, "equatorial": True, "retro_equatorial": True}.get(pt.icc)
        struct_ok = True
        if want_circ is True and cap != 0.0:
            struct_ok = False
        if want_eq is True and cra != 0.0:
            struct_ok = False
        is_circ = circ_layout if want_circ is None else want_circ
        is_eq = eq_layout if want_eq is None else want_eq
        if want_circ is None or want_eq is None:
            res.either_way += 1
        sgn = -1.0 if inc > 0.5 * PI else 1.0
        sini = math.sin(inc)
        diffs = {}
        if struct_ok:
            if not is_circ and not is_eq:
                diffs = {
                    "raan": (R.angdiff(cra, ref["raan"]), _ang_tol(abs(math.sin(raan)), None, sini)),
                    "argp": (R.angdiff(cap, ref["argp"]), _ang_tol(abs(math.sin(argp)), e, sini)),
                    "nu": (R.angdiff(can, ref["nu"]), _ang_tol(abs(math.sin(nu)), e)),
                }
            elif not is_circ and is_eq:
                # longitude of periapsis, measured in the direction of motion (2 pi - inertial longitude if retrograde)
                want = R.wrap(sgn * ref["lonper"])
                diffs = {
                    "lonper": (R.angdiff(cap, want), _ang_tol(abs(math.sin(raan + sgn * argp)), e) + 2.0 * min(inc, PI - inc) ** 2),
                    "nu": (R.angdiff(can, ref["nu"]), _ang_tol(abs(math.sin(nu)), e)),
                }
            elif is_circ and not is_eq:
                diffs = {
                    "raan": (R.angdiff(cra, ref["raan"]), _ang_tol(abs(math.sin(raan)), None, sini)),
                    "arglat": (R.angdiff(can, ref["arglat"]), _ang_tol(abs(math.sin(argp + nu)), None, sini)),
                }
            else:
                want = R.wrap(sgn * ref["truelon"])
                diffs = {"truelon": (R.angdiff(can, want), _ang_tol(abs(math.sin(raan + sgn * (argp + nu)))) + 2.0 * min(inc, PI - inc) ** 2)}
        bad = {k: v for k, v in diffs.items() if not v[0] <= v[1]}
        sig = None
        if not struct_ok:
            sig = f"C12/eci2coe/elements/layout/{pt.ec}_{pt.icc}"
        elif bad:
            sig = f"C12/eci2coe/elements/{'+'.join(sorted(bad))}/{pt.ec}_{pt.icc}"
            if pt.retro_eq_cart and is_eq:
                # known mechanism: the inertial longitude is returned unflipped
                slot, refv = (cap, ref["lonper"]) if not is_circ else (can, ref["truelon"])
                only = set(bad) <= {"lonper", "truelon"}
                sig = "C12/eci2coe/elements/retro_equatorial/" + (
                    "unflipped_longitude" if only and R.angdiff(slot, refv) <= 3e-7 else "other")
        pt.rec("eci2coe/elements", struct_ok and not bad, sig=sig, observed={"coe": c, "bad": bad},
               expected={k: ref[k] for k in ("raan", "argp", "nu", "arglat", "lonper", "truelon")},
               outcome=f"{'circ' if is_circ else 'ecc'}/{'eq' if is_eq else 'incl'}")
        xb, err = _try(cv.coe2eci, *c)
        pt.state("eci2coe/roundtrip", xb if err is None else None, tol_c, cart=True, coe=c)

    # ---- 5-7. Cartesian <-> equinoctial, both families inside their documented domain
    for retro in (False, True):
        if not _eqe_domain(inc, retro):
            continue
        ex = {"retro": retro}
        tag = "retro" if retro else "direct"
        qref = R.coe2eqe(*coe_in, retro=retro)
        sing = _eqe_sing(inc, retro)
        pq_scale = max(1.0, math.hypot(qref[3], qref[4]))
        pq_tol = (1e-12 + 2.2e-15 / max(1.0 + (-1.0 if retro else 1.0) * math.cos(inc), 1e-300)) * pq_scale
        lam_tol = 1e-10 + 10.0 * sing + (1.01 * e if pt.ec != "eccentric" else 0.0)

        def _eqe_cmp(q, lam_extra=0.0, qref=qref, pq_tol=pq_tol, lam_tol=lam_tol):
            q = tuple(float(v) for v in q)
            lam_tol = lam_tol + lam_extra
            return (
                abs(q[0] - a) <= 1e-11 * a * (1 + e) / (1 - e)
                and abs(q[1] - qref[1]) <= 1e-12 and abs(q[2] - qref[2]) <= 1e-12
                and abs(q[3] - qref[3]) <= pq_tol and abs(q[4] - qref[4]) <= pq_tol
                and R.angdiff(q[5], qref[5]) <= lam_tol
            ), q

        q, err = _try(cv.eci2eqe, x, retro=retro)
        if err is not None:
            pt.rec(f"eci2eqe/call/{tag}", False, observed=err, extra=ex)
        else:
            ok, q = _eqe_cmp(q)
            res.observe(q)
            pt.rec(f"eci2eqe/elements/{tag}", ok, observed=q, expected=qref, extra=ex)
            pt.angles(f"eci2eqe/range/{tag}", (("mean_long", q[5]),), extra=ex)
            xb, err = _try(cv.eqe2eci, *q, retro=retro)
            pt.state(f"eci2eqe/roundtrip/{tag}", xb if err is None else None, 1e-11 + 10.0 * sing + (CIRC * e if pt.ec != "eccentric" else 0.0), extra=ex)
        xb, err = _try(cv.eqe2eci, *qref, retro=retro)
        pt.state(f"eqe2eci/reference/{tag}", xb if err is None else None, 1e-11 + 10.0 * sing + (CIRC * e if pt.ec != "eccentric" else 0.0), extra=ex)
        res.observe(xb)

        # ---- 8. coe2eqe against the defining equations
        q2, err = _try(cv.coe2eqe, *coe_in, retro=retro)
        if err is not None:
            pt.rec(f"coe2eqe/call/{tag}", False, observed=err, extra=ex)
        else:
            # circular: nu is passed through as M (<= 2e), where eci2eqe passes F through as lambda (<= e)
            ok, q2 = _eqe_cmp(q2, lam_extra=1.01 * e if pt.ec != "eccentric" else 0.0)
            pt.rec(f"coe2eqe/reference/{tag}", ok, observed=q2, expected=qref, extra=ex)
            pt.angles(f"coe2eqe/range/{tag}", (("mean_long", q2[5]),), extra=ex)

        # ---- 9. eqe2coe: ranges, layout, Cartesian agreement (documented thresholds are resolvable on this path)
        tol_e = tol_d + 10.0 * sing
        c2, err = _try(cv.eqe2coe, *qref, retro=retro)
        if err is not None:
            pt.rec(f"eqe2coe/call/{tag}", False, observed=err, extra=ex)
        else:
            c2 = tuple(float(v) for v in c2)
            res.observe(c2)
            pt.angles(f"eqe2coe/range/{tag}", (("raan", c2[3]), ("argp", c2[4]), ("anomaly", c2[5])), extra=ex)
            lay_ok = True
            if pt.ec == "circular" and c2[4] != 0.0:
                lay_ok = False
            if pt.icd in ("equatorial", "retro_equatorial") and c2[3] != 0.0:
                lay_ok = False
            if pt.ec == "eccentric" and pt.icd == "inclined":
                # nothing singular: the classical elements themselves must come back
                lay_ok = (R.angdiff(c2[3], raan) <= 1e-10 + 10 * sing and R.angdiff(c2[4], argp) <= 1e-9 + 1.1e-14 / e + 10 * sing
                          and R.angdiff(c2[5], nu) <= 1e-9 + 1.1e-14 / e + 10 * sing)
            pt.rec(f"eqe2coe/layout/{tag}", lay_ok and abs(c2[1] - e) <= 1e-12 and abs(c2[2] - inc) <= 1e-11 + 10 * sing,
                   observed=c2, expected=coe_in, extra=ex)
            pt.state(f"eqe2coe/cartesian/{tag}", R.coe2rv(*c2), tol_e, coe=c2, extra=ex)
        # ---- 10. chain coe -> eqe -> coe -> eci, all library
        if q2 is not None:
            c3, err = _try(cv.eqe2coe, *q2, retro=retro)
            xb = None
            if err is None:
                xb, err = _try(cv.coe2eci, *c3)
            pt.state(f"chain/coe_eqe_coe_eci/{tag}", xb, tol_e, coe=c3, extra=ex)

        # ---- 12. EquinoctialElements
        _equinoctial_class(pt, qref, retro, tag, sing, coe_in, wrappers)
        if not wrappers:
            continue

        # ---- 13c. EQE configuration
        lam_deg = math.degrees(qref[5])
        if lam_deg >= 360.0:
            lam_deg = 0.0
        cfg, err = _try(EQEStateConfig, semi_major_axis=a, h=qref[1], k=qref[2], p=qref[3], q=qref[4],
                        mean_longitude=lam_deg, retrograde=retro)
        xb = None
        if err is None:
            xb, err = _try(cfg.toECI, None)
        pt.state(f"config/eqe/{tag}", xb, 1e-11 + 10.0 * sing + (CIRC * e if pt.ec != "eccentric" else 0.0) + 1e-13 * 360.0,
                 extra=ex)

    # ---- 11. ClassicalElements
    _classical_class(pt, coe_in, tol_d, tol_c, wrappers)

    # ---- 13a. ECI configuration: the state itself
    if float(np.linalg.norm(x[:3])) > EARTH_RADIUS + 1e-6:  # the config (rightly) rejects positions inside the Earth
        cfg, err = _try(ECIStateConfig, position=[float(v) for v in x[:3]], velocity=[float(v) for v in x[3:]])
        xb = None
        if err is None:
            xb, err = _try(cfg.toECI, None)
        pt.rec("config/eci", xb is not None and np.array_equal(np.asarray(xb, dtype=float), x), observed=xb if err is None else err, expected=x)

    # ---- 13b. COE configuration, every variant this point can be written in
    inc_deg = math.degrees(inc)
    variants = [("full", {"right_ascension": ra_d, "argument_periapsis": ap_d, "true_anomaly": nu_d})]
    if ra_d == 0.0:
        variants.append(("ecc_equatorial", {"true_longitude_periapsis": ap_d, "true_anomaly": nu_d}))
    if ap_d == 0.0:
        variants.append(("circ_inclined", {"right_ascension": ra_d, "argument_latitude": nu_d}))
    if ra_d == 0.0 and ap_d == 0.0:
        variants.append(("circ_equatorial", {"true_longitude": nu_d}))
    for name, fields in variants:
        cfg, err = _try(COEStateConfig, semi_major_axis=a, eccentricity=e, inclination=inc_deg, **fields)
        xb, ce = None, None
        if err is None:
            ce, err = _try(ClassicalElements.fromConfig, cfg)
            xb, err2 = _try(cfg.toECI, None)
            err = err or err2
        coe = None if ce is None else (ce.sma, ce.ecc, ce.inc, ce.raan, ce.argp, ce.true_anomaly)
        # degree -> radian conversion of the inclination may move it by one ulp: irrelevant except on the limit itself
        pt.state(f"config/coe/{name}", xb, tol_d + 1e-12, coe=coe, extra={"variant": name})
        if err is not None:
            pt.rec(f"config/coe/{name}/error", False, observed=err, extra={"variant": name})


def _classical_class(pt, coe_in, tol_d, tol_c, wrappers):
    res = pt.res
    a, e, inc, raan, argp, nu = coe_in
    ce, err = _try(ClassicalElements, *coe_in)
    if err is not None:
        pt.rec("classical/ctor", False, observed=err)
    else:
        coe = (ce.sma, ce.ecc, ce.inc, ce.raan, ce.argp, ce.true_anomaly)
        res.observe(tuple(float(v) for v in coe))
        pt.angles("classical/range", (("raan", ce.raan), ("argp", ce.argp), ("true_anomaly", ce.true_anomaly), ("mean_anomaly", ce.mean_anomaly)))
        lay = True
        if pt.ec == "circular" and ce.argp != 0.0:
            lay = False
        if pt.icd in ("equatorial", "retro_equatorial") and ce.raan != 0.0:
            lay = False
        if pt.ec == "eccentric" and pt.icd == "inclined":
            lay = ce.raan == raan and ce.argp == argp and ce.true_anomaly == nu
        flags_ok = (
            (pt.ec == "either" or ce.is_eccentric == (pt.ec == "eccentric"))
            and ce.is_circular == (not ce.is_eccentric)
            and (pt.icd.startswith("either") or ce.is_inclined == (pt.icd == "inclined"))
            and ce.is_equatorial == (not ce.is_inclined)
        )
        n_ref = math.sqrt(MU / a**3)
        scal_ok = (
            ce.sma == a and ce.ecc == e and ce.inc == inc
            and abs(ce.mean_motion - n_ref) <= 1e-13 * n_ref
            and abs(ce.period - TWOPI / n_ref) <= 1e-13 * TWOPI / n_ref
            and R.angdiff(ce.mean_anomaly, R.nu2M(ce.true_anomaly, e)) <= 1e-9 + (2.02 * e if pt.ec != "eccentric" else 0.0)
        )
        pt.rec("classical/attributes", lay and flags_ok and scal_ok,
               sig=f"C12/classical/attributes/{'layout' if not lay else 'flags' if not flags_ok else 'scalars'}/{pt.ec}_{pt.icd}",
               observed={"coe": coe, "flags": [ce.is_eccentric, ce.is_circular, ce.is_inclined, ce.is_equatorial],
                         "n": ce.mean_motion, "P": ce.period, "M": ce.mean_anomaly}, expected=coe_in)
        # the stored elements describe the same orbit (reference builder on *their* fields), and toECI agrees
        pt.state("classical/fields_cartesian", R.coe2rv(*coe), tol_d, coe=coe)
        xb, err = _try(ce.toECI)
        pt.state("classical/toECI", xb, tol_d, coe=coe)
    ce, err = _try(ClassicalElements.fromECI, pt.x)
    xb, coe = None, None
    if err is None:
        coe = (ce.sma, ce.ecc, ce.inc, ce.raan, ce.argp, ce.true_anomaly)
        pt.angles("classical/fromECI/range", (("raan", ce.raan), ("argp", ce.argp), ("true_anomaly", ce.true_anomaly), ("mean_anomaly", ce.mean_anomaly)))
        xb, err = _try(ce.toECI)
    pt.state("classical/fromECI_toECI", xb, tol_c, cart=True, coe=coe)
    for retro in (False, True):
        if not wrappers or not _eqe_domain(inc, retro):
            continue
        qref = R.coe2eqe(*coe_in, retro=retro)
        ce, err = _try(ClassicalElements.fromEQE, *qref, retro=retro)
        xb, coe = None, None
        if err is None:
            coe = (ce.sma, ce.ecc, ce.inc, ce.raan, ce.argp, ce.true_anomaly)
            xb, err = _try(ce.toECI)
        pt.state(f"classical/fromEQE_toECI/{'retro' if retro else 'direct'}", xb, tol_d + 10.0 * _eqe_sing(inc, retro), coe=coe,
                 extra={"retro": retro})


def _equinoctial_class(pt, qref, retro, tag, sing, coe_in, wrappers):
    a, e, inc = pt.a, pt.e, pt.inc
    ex = {"retro": retro}
    tol = 1e-11 + 10.0 * sing + (CIRC * e if pt.ec != "eccentric" else 0.0)
    # a mean longitude outside [0, 2 pi) must be wrapped by the constructor
    lam_in = qref[5] + (TWOPI if (pt.ra_d + pt.ap_d) % 2.0 < 1.0 else 0.0)
    qe, err = _try(EquinoctialElements, qref[0], qref[1], qref[2], qref[3], qref[4], lam_in, retro=retro)
    if err is not None:
        pt.rec(f"equinoctial/ctor/{tag}", False, observed=err, extra=ex)
    else:
        n_ref = math.sqrt(MU / a**3)
        f_ref = R.lam2F(qref[5], qref[1], qref[2])
        # is_inclined / is_eccentric by the documented limits (the retro family measures inclination from pi)
        attrs_ok = (
            qe.sma == qref[0] and qe.h == qref[1] and qe.k == qref[2] and qe.p == qref[3] and qe.q == qref[4]
            and R.angdiff(qe.mean_longitude, qref[5]) <= 1e-12
            and qe.is_retro == retro
            and abs(qe.mean_motion - n_ref) <= 1e-13 * n_ref and abs(qe.period - TWOPI / n_ref) <= 1e-13 * TWOPI / n_ref
            and R.angdiff(qe.eccentric_longitude, f_ref) <= 1e-9 + (1.01 * e if pt.ec != "eccentric" else 0.0)
            and (pt.ec == "either" or qe.is_eccentric == (pt.ec == "eccentric")) and qe.is_circular == (not qe.is_eccentric)
            and (pt.icd.startswith("either") or qe.is_inclined == (pt.icd == "inclined")) and qe.is_equatorial == (not qe.is_inclined)
        )
        pt.rec(f"equinoctial/attributes/{tag}", attrs_ok,
               observed={"lam": qe.mean_longitude, "F": qe.eccentric_longitude, "n": qe.mean_motion, "P": qe.period,
                         "flags": [qe.is_eccentric, qe.is_inclined, qe.is_retro]}, expected={"lam": qref[5], "F": f_ref}, extra=ex)
        pt.angles(f"equinoctial/range/{tag}", (("mean_longitude", qe.mean_longitude), ("eccentric_longitude", qe.eccentric_longitude)), extra=ex)
        xb, err = _try(qe.toECI)
        pt.state(f"equinoctial/toECI/{tag}", xb, tol, extra=ex)
    for name, ctor, args in (("fromECI", EquinoctialElements.fromECI, (pt.x,)), ("fromCOE", EquinoctialElements.fromCOE, coe_in)):
        if not wrappers:
            break
        qe, err = _try(ctor, *args, retro=retro)
        xb = None
        if err is None:
            xb, err = _try(qe.toECI)
        sig = None
        if retro and qe is not None and qe.is_retro is False and _serr(xb, pt.x, pt.rs, pt.vs) > tol:
            # name the mechanism: the object was built with the retrograde elements but without the retrograde flag
            alt = R.eqe2rv(qe.sma, qe.h, qe.k, qe.p, qe.q, qe.mean_longitude, retro=True)
            sig = f"C12/equinoctial/{name}_toECI/retro/" + ("retro_flag_dropped" if _serr(alt, pt.x, pt.rs, pt.vs) <= tol + 1e-9 else "other")
        pt.state(f"equinoctial/{name}_toECI/{tag}", xb, tol, extra=ex, sig=sig)


def _run_orbit(res, item):
    _, a, e, inc, ras, aps, nus = item[:7]
    _RETRO_ALL[0] = len(item) > 7 and bool(item[7])
    single = len(ras) * len(aps) * len(nus) == 1  # replay of one point: everything runs
    for i1, ra_d in enumerate(ras):
        for i2, ap_d in enumerate(aps):
            for i3, nu_d in enumerate(nus):
                _orbit_point(res, float(a), float(e), float(inc), float(ra_d), float(ap_d), float(nu_d),
                             wrappers=single or (i1 + i2 + i3) % 2 == 0)


# ------------------------------------------------------------------------------------------------ anomalies
def _anom_case(res, sub, case, got, want, tol, item, nontrivial):
    ok_r, seam = _angle_ok(got) if got is not None else (False, False)
    if seam:
        res.either_way += 1
    err = R.angdiff(float(got), want) if ok_r else float("inf")
    res.case(sub, case, ok_r and err <= tol, nontrivial=nontrivial,
             signature=f"C12/{sub}/{'range' if not ok_r else case['ecc_class']}",
             observed=None if got is None else float(got), expected=want, outcome=case["ecc_class"], item=item)


def _run_anomaly(res, item):
    _, e, vals = item
    ec = _ecc_class(e)
    designed = 2.02 * e if ec != "eccentric" else 0.0  # nu = E = M is returned for circular orbits
    for deg in vals:
        th = math.radians(deg)
        case = {"e": e, "anomaly_deg": deg, "ecc_class": ec}
        it = ("anomaly", e, [deg])
        nt = (0.5 * ECC_LIM <= e <= 2.0 * ECC_LIM) or e >= 0.7 or _edge(deg)
        refs = {
            "trueAnom2EccAnom": R.nu2E(th, e), "eccAnom2TrueAnom": R.E2nu(th, e), "eccAnom2MeanAnom": R.E2M(th, e),
            "meanAnom2EccAnom": R.M2E(th, e), "trueAnom2MeanAnom": R.nu2M(th, e), "meanAnom2TrueAnom": R.M2nu(th, e),
        }
        got = {}
        first = True
        for name, want in refs.items():
            g, err = _try(getattr(an, name), th, e)
            got[name] = g
            # conditioning of nu(E) near apoapsis at high e: d nu/dE = sqrt(1-e^2)/(1-e cos E) <= sqrt((1+e)/(1-e))
            tol = 1e-9 + designed
            _anom_case(res, f"anomaly/{name}", case, g, want, tol, it, nt and first)
            first = False
            if ec == "circular" and g is not None:
                # documented: nu = E = M for a circular orbit -> the (wrapped) input comes back unchanged
                res.case(f"anomaly/{name}/circular_identity", case, R.angdiff(float(g), th) <= 1e-12,
                         signature=f"C12/anomaly/{name}/circular_identity", observed=float(g), expected=R.wrap(th), item=it)
        res.observe(tuple(None if v is None else float(v) for v in got.values()))
        # mutually inverse pairs, through the library only
        for f, b in (("trueAnom2EccAnom", "eccAnom2TrueAnom"), ("eccAnom2TrueAnom", "trueAnom2EccAnom"),
                     ("eccAnom2MeanAnom", "meanAnom2EccAnom"), ("meanAnom2EccAnom", "eccAnom2MeanAnom"),
                     ("trueAnom2MeanAnom", "meanAnom2TrueAnom"), ("meanAnom2TrueAnom", "trueAnom2MeanAnom")):
            if got[f] is None:
                continue
            back, err = _try(getattr(an, b), got[f], e)
            ok = back is not None and R.angdiff(float(back), th) <= 1e-9
            res.case(f"anomaly/inverse/{f}", case, ok, signature=f"C12/anomaly/inverse/{f}/{ec}",
                     observed=None if back is None else float(back), expected=R.wrap(th), item=it)
        # Kepler's equation on the library's own outputs
        if got["meanAnom2EccAnom"] is not None:
            E = float(got["meanAnom2EccAnom"])
            resid = R.angdiff(E - e * math.sin(E), th) if ec == "eccentric" else R.angdiff(E, th)
            if ec == "either":
                resid = min(resid, R.angdiff(E - e * math.sin(E), th))
            res.case("anomaly/kepler_residual", case, resid <= 1e-9, signature=f"C12/anomaly/kepler_residual/{ec}",
                     observed=resid, expected=0.0, item=it)
        # the solver itself, from three starting guesses (library guess M +- e, M, pi); M in [0, 2 pi)
        if ec == "eccentric" and 0.0 <= deg < 360.0:
            want = R.M2E(th, e)
            for lbl, e0 in (("lib", th - e if th > PI else th + e), ("M", th), ("pi", PI)):
                E, err = _try(kp.keplerSolveCOE, e0, th, e)
                ok = E is not None and abs(float(E) - want) <= 1e-9 and abs(float(E) - e * math.sin(float(E)) - th) <= 1e-9
                res.case("kepler/solveCOE", {**case, "guess": lbl}, ok, signature=f"C12/kepler/solveCOE/{lbl}",
                         observed=err if E is None else float(E), expected=want, item=it)
            # negative mean anomaly (documented domain [-2 pi, 2 pi]): the root of the same equation, unwrapped
            E, err = _try(kp.keplerSolveCOE, -th - e if th < PI else -th + e, -th, e)
            ok = E is not None and abs(float(E) + want) <= 1e-9
            res.case("kepler/solveCOE", {**case, "guess": "negM"}, ok, signature="C12/kepler/solveCOE/negM",
                     observed=err if E is None else float(E), expected=-want, item=it)


def _run_longitude(res, item):
    _, e, vals, lonper_degs = item
    ec = _ecc_class(e)
    designed = 1.01 * e if ec != "eccentric" else 0.0
    for wd in lonper_degs:
        w = math.radians(wd)
        h, k = e * math.sin(w), e * math.cos(w)
        for deg in vals:
            th = math.radians(deg)
            case = {"e": e, "lonper_deg": wd, "anomaly_deg": deg, "ecc_class": ec}
            it = ("longitude", e, [deg], [wd])
            nt = (0.5 * ECC_LIM <= e <= 2.0 * ECC_LIM) or e >= 0.7 or _edge(deg) or _edge(wd)
            lam, _ = _try(an.eccLong2MeanLong, th, h, k)
            _anom_case(res, "longitude/eccLong2MeanLong", case, lam, R.F2lam(th, h, k), 1e-9 + designed, it, nt)
            F, _ = _try(an.meanLong2EccLong, th, h, k)
            _anom_case(res, "longitude/meanLong2EccLong", case, F, R.lam2F(th, h, k), 1e-9 + designed, it, False)
            res.observe(None if lam is None else float(lam), None if F is None else float(F))
            if F is not None:
                F = float(F)
                resid = R.angdiff(F + h * math.cos(F) - k * math.sin(F), th) if ec == "eccentric" else R.angdiff(F, th)
                if ec == "either":
                    resid = min(resid, R.angdiff(F + h * math.cos(F) - k * math.sin(F), th))
                res.case("longitude/kepler_residual", case, resid <= 1e-9, signature=f"C12/longitude/kepler_residual/{ec}",
                         observed=resid, expected=0.0, item=it)
                back, _ = _try(an.eccLong2MeanLong, F, h, k)
                res.case("longitude/inverse", case, back is not None and R.angdiff(float(back), th) <= 1e-9,
                         signature=f"C12/longitude/inverse/{ec}", observed=None if back is None else float(back), expected=R.wrap(th), item=it)
            if ec == "eccentric" and 0.0 <= deg < 360.0:
                want = R.lam2F(th, h, k)
                Fs, err = _try(kp.keplerSolveEQE, th, h, k, th)
                # the root of the unwrapped equation nearest the guess: equal to the reference modulo 2 pi
                ok = Fs is not None and R.angdiff(float(Fs), want) <= 1e-9 and abs(float(Fs) + h * math.cos(float(Fs)) - k * math.sin(float(Fs)) - th) <= 1e-9
                res.case("kepler/solveEQE", case, ok, signature="C12/kepler/solveEQE", observed=err if Fs is None else float(Fs), expected=want, item=it)
            # true anomaly <-> mean longitude with node / perigee split of the longitude of perigee, both families
            for retro in (False, True):
                II = -1.0 if retro else 1.0
                for rd in (0.0, 40.0, 200.0):
                    raan = math.radians(rd)
                    argp = w - II * raan
                    c2 = {**case, "retro": retro, "raan_deg": rd}
                    lam, _ = _try(an.trueAnom2MeanLong, th, e, raan, argp, retro=retro)
                    want = R.wrap(R.nu2M(th, e) + argp + II * raan)
                    _anom_case(res, "longitude/trueAnom2MeanLong", c2, lam, want, 1e-9 + 2.0 * designed, it, False)
                    nu, _ = _try(an.meanLong2TrueAnom, th, e, raan, argp, retro=retro)
                    want = R.M2nu(th - argp - II * raan, e)
                    _anom_case(res, "longitude/meanLong2TrueAnom", c2, nu, want, 1e-9 + 2.0 * designed, it, False)
                    if lam is not None:
                        back, _ = _try(an.meanLong2TrueAnom, float(lam), e, raan, argp, retro=retro)
                        res.case("longitude/inverse_true", c2, back is not None and R.angdiff(float(back), th) <= 1e-9,
                                 signature=f"C12/longitude/inverse_true/{ec}", observed=None if back is None else float(back),
                                 expected=R.wrap(th), item=it)


# ------------------------------------------------------------------------------------------------ singularityCheck
def _run_singularity(res, item):
    _, e, inc, angs = item
    a = 26560.0
    for ra_d in angs:
        for ap_d in angs:
            for nu_d in angs:
                pt = _Pt(res, a, e, inc, ra_d, ap_d, nu_d, item_kind="singularity")
                pt.item = ("singularity", e, inc, [ra_d, ap_d, nu_d])
                out, err = _try(ut.singularityCheck, e, inc, pt.raan, pt.argp, pt.nu)
                if err is not None:
                    pt.rec("singularityCheck/call", False, observed=err)
                    continue
                ra, ap, an_ = (float(v) for v in out)
                res.observe((ra, ap, an_))
                pt.angles("singularityCheck/range", (("raan", ra), ("argp", ap), ("anomaly", an_)))
                lay = True
                if pt.ec == "circular" and ap != 0.0:
                    lay = False
                if pt.icd in ("equatorial", "retro_equatorial") and ra != 0.0:
                    lay = False
                if pt.ec == "eccentric" and pt.icd == "inclined":
                    lay = (R.angdiff(ra, pt.raan) <= 1e-12 and R.angdiff(ap, pt.argp) <= 1e-12 and R.angdiff(an_, pt.nu) <= 1e-12)
                pt.rec("singularityCheck/layout", lay, observed=[ra, ap, an_], expected=[pt.raan, pt.argp, pt.nu])
                coe = (a, e, inc, ra, ap, an_)
                pt.state("singularityCheck/cartesian", R.coe2rv(*coe), _tol_direct(e, inc), coe=coe)


# ------------------------------------------------------------------------------------------------ utils helpers
def _run_utils(res, item):  # noqa: PLR0915
    _, a, e, inc, ras, aps, nus = item[:7]
    _RETRO_ALL[0] = True
    for ra_d in ras:
        for ap_d in aps:
            for nu_d in nus:
                pt = _Pt(res, a, e, inc, ra_d, ap_d, nu_d, item_kind="utils")
                x = pt.x
                r, v = x[:3].copy(), x[3:].copy()
                ref = R.rv2coe(x)
                hhat = ref["h"] / math.sqrt(float(ref["h"] @ ref["h"]))
                ehat = ref["evec"] / ref["e"]
                nhat = np.array([math.cos(ref["raan"]), math.sin(ref["raan"]), 0.0])
                sini = math.sin(inc)
                s = lambda t: abs(math.sin(t))  # noqa: E731

                def ang(sub, fn, args, want, tol, pt=pt):
                    g, err = _try(fn, *args)
                    ok_r, seam = _angle_ok(g) if g is not None else (False, False)
                    if seam:
                        pt.res.either_way += 1
                    d = R.angdiff(float(g), want) if ok_r else float("inf")
                    pt.rec(f"utils/{sub}", ok_r and d <= tol, sig=f"C12/utils/{sub}", observed=err if g is None else float(g), expected=want)
                    return g

                g1 = ang("getTrueAnomaly", ut.getTrueAnomaly, (r, v, ehat), ref["nu"], _ang_tol(s(pt.nu), e))
                ang("getTrueAnomalyFromRV", ut.getTrueAnomalyFromRV, (x,), ref["nu"], _ang_tol(s(pt.nu), e))
                ang("getArgumentPerigee", ut.getArgumentPerigee, (ehat, nhat), ref["argp"], _ang_tol(s(pt.argp), e, sini))
                ang("getRightAscension", ut.getRightAscension, (nhat,), ref["raan"], _ang_tol(s(pt.raan), None, sini))
                ang("getArgumentLatitude", ut.getArgumentLatitude, (r, nhat), ref["arglat"], _ang_tol(s(pt.argp + pt.nu), None, sini))
                # inertial longitudes (documented as the angle from the x axis; atan2 of the first two components)
                ang("getTrueLongitudePeriapsis", ut.getTrueLongitudePeriapsis, (np.array([math.cos(pt.argp), math.sin(pt.argp), 0.0]),),
                    R.wrap(pt.argp), _ang_tol(s(pt.argp)))
                ang("getTrueLongitude", ut.getTrueLongitude, (7000.0 * np.array([math.cos(pt.nu), math.sin(pt.nu), 0.0]),),
                    R.wrap(pt.nu), _ang_tol(s(pt.nu)))
                fpa_ref = R.wrap(math.atan2(float(r @ v), math.sqrt(float(ref["h"] @ ref["h"]))))
                ang("getFlightPathAngle", ut.getFlightPathAngle, (e, pt.nu), fpa_ref, 1e-10)
                res.observe(None if g1 is None else float(g1))
                # vectors / scalars
                hv, _ = _try(ut.getAngularMomentum, r, v)
                nv, _ = _try(ut.getLineOfNodes, ref["h"])
                ee, _ = _try(ut.getEccentricity, r, v)
                rn, vn = math.sqrt(float(r @ r)), math.sqrt(float(v @ v))
                sma, _ = _try(ut.getSemiMajorAxis, rn, vn)
                en, _ = _try(ut.getOrbitalEnergy, rn, vn)
                ok = (
                    hv is not None and fw.maxabs(hv, ref["h"]) <= 1e-12 * math.sqrt(float(ref["h"] @ ref["h"]))
                    and nv is not None and fw.maxabs(nv, np.array([-ref["h"][1], ref["h"][0], 0.0])) <= 1e-12 * math.sqrt(float(ref["h"] @ ref["h"]))
                    and ee is not None and abs(float(ee[0]) - e) <= 1e-12 and fw.maxabs(ee[1], ehat) <= 1e-11 + 1.1e-14 / e
                    and sma is not None and abs(float(sma) - a) <= 1e-11 * a * (1 + e) / (1 - e)
                    and en is not None and abs(float(en) + MU / (2 * a)) <= 1e-11 * MU / a * (1 + e) / (1 - e)
                )
                pt.rec("utils/vectors", ok, sig="C12/utils/vectors", observed={"h": hv, "n": nv, "e": None if ee is None else [float(ee[0]), ee[1]], "a": sma, "E": en},
                       expected={"h": ref["h"], "e": e, "ehat": ehat, "a": a})
                # equinoctial helpers, both families
                for retro in (False, True):
                    if not _eqe_domain(inc, retro):
                        continue
                    q = R.coe2eqe(a, e, inc, pt.raan, pt.argp, pt.nu, retro=retro)
                    fg, _ = _try(ut.getEquinoctialBasisVectors, q[3], q[4], retro=retro)
                    wv, _ = _try(ut.getAngularMomentumFromEQE, q[3], q[4], retro=retro)
                    ie, _ = _try(ut.getInclinationFromEQE, q[3], q[4], retro=retro)
                    ecq, _ = _try(ut.getEccentricityFromEQE, q[1], q[2])
                    fr, gr, wr = R.eqe_basis(q[3], q[4], retro=retro)
                    tolb = 1e-11 + 10 * _eqe_sing(inc, retro)
                    ok = (
                        fg is not None and fw.maxabs(fg[0], fr) <= tolb and fw.maxabs(fg[1], gr) <= tolb
                        and wv is not None and fw.maxabs(wv, hhat) <= tolb and fw.maxabs(np.cross(fg[0], fg[1]), hhat) <= tolb
                        and ie is not None and abs(float(ie) - inc) <= tolb
                        and ecq is not None and abs(float(ecq) - e) <= 1e-13
                    )
                    pt.rec(f"utils/eqe_helpers/{'retro' if retro else 'direct'}", ok, sig=f"C12/utils/eqe_helpers/{'retro' if retro else 'direct'}",
                           observed={"f": None if fg is None else fg[0], "g": None if fg is None else fg[1], "w": wv, "inc": ie, "ecc": ecq},
                           expected={"f": fr, "g": gr, "w": hhat, "inc": inc, "ecc": e}, extra={"retro": retro})


# ------------------------------------------------------------------------------------------------ scalars / predicates
def _run_scalars(res, item):  # noqa: PLR0915
    it = item

    def rec(sub, case, ok, observed=None, expected=None, nontrivial=True, sig=None):
        res.case(sub, case, bool(ok), nontrivial=nontrivial, signature=sig or f"C12/{sub}", observed=observed, expected=expected, item=it)

    rec("constants", {"name": "ECCENTRICITY_LIMIT"}, orb.ECCENTRICITY_LIMIT == ECC_LIM, orb.ECCENTRICITY_LIMIT, ECC_LIM)
    rec("constants", {"name": "INCLINATION_LIMIT"}, abs(orb.INCLINATION_LIMIT - INC_LIM) <= 1e-24, orb.INCLINATION_LIMIT, INC_LIM)
    rec("constants", {"name": "Earth.mu"}, Earth.mu == MU == R.MU_EARTH, Earth.mu, MU)
    # classification predicates on both sides of the documented limits; the limit itself is either-way
    for e, want in ((0.0, False), (0.5e-7, False), (0.99e-7, False), (1e-7, None), (1.01e-7, True), (1e-6, True), (0.5, True), (0.9999, True)):
        g, err = _try(orb.isEccentric, e)
        if want is None:
            res.either_way += 1
        rec("isEccentric", {"e": e}, err is None and (want is None or bool(g) == want), err or bool(g), want)
    for e in (-1e-9, 1.0, 1.5):
        g, err = _try(orb.isEccentric, e)
        rec("isEccentric/invalid", {"e": e}, err is not None and err.startswith("EccentricityError"), err or g, "EccentricityError")
    L = INC_LIM
    for inc, want in ((0.0, False), (0.5 * L, False), (0.99 * L, False), (L, None), (1.01 * L, True), (1e-6, True), (1.0, True), (0.5 * PI, True),
                      (PI - 1e-6, True), (PI - 1.01 * L, True), (PI - L, None), (PI - 0.99 * L, False), (PI - 0.5 * L, False), (PI, False)):
        g, err = _try(orb.isInclined, inc)
        if want is None:
            res.either_way += 1
        rec("isInclined", {"inc": inc}, err is None and (want is None or bool(g) == want), err or bool(g), want)
        # docstring: +1 for direct orbits, -1 for equatorial retrograde orbits
        g, err = _try(ut.retrogradeFactor, inc)
        wantf = None if want is None else (-1 if (want is False and inc > 0.5 * PI) else 1)
        rec("retrogradeFactor", {"inc": inc, "inc_dist_pi": PI - inc}, err is None and (wantf is None or g == wantf), err or g, wantf,
            sig="C12/retrogradeFactor/" + ("retro_equatorial_not_pi" if (want is False and 0.5 * PI < inc < PI) else "other"))
    for inc in (-1e-9, PI + 1e-9, 4.0):
        g, err = _try(orb.isInclined, inc)
        rec("isInclined/invalid", {"inc": inc}, err is not None and err.startswith("InclinationError"), err or g, "InclinationError")
    # fixAngleQuadrant
    for ang_, chk, want in ((1.0, 1.0, 1.0), (1.0, -1.0, TWOPI - 1.0), (1.0, 0.0, 1.0), (3.0, -1e-300, TWOPI - 3.0), (0.25, 5.0, 0.25)):
        g, err = _try(orb.fixAngleQuadrant, ang_, chk)
        rec("fixAngleQuadrant", {"angle": ang_, "check": chk}, err is None and abs(g - want) <= 1e-15, err or g, want)
    # period / mean motion / sma helpers, default and alternative mu
    for a in SMA_T:
        for mu in (MU, MU_ALT):
            kw = {} if mu == MU else {"mu": mu}
            n_ref = math.sqrt(mu / a**3)
            n, _ = _try(ut.getMeanMotion, a, **kw)
            p, _ = _try(ut.getPeriod, a, **kw)
            back, _ = _try(ut.getSmaFromMeanMotion, n_ref, **kw)
            ok = (n is not None and abs(n - n_ref) <= 1e-14 * n_ref and p is not None and abs(p - TWOPI / n_ref) <= 1e-14 * TWOPI / n_ref
                  and back is not None and abs(back - a) <= 1e-12 * a)
            rec("period_mean_motion", {"a": a, "mu": mu}, ok, [n, p, back], [n_ref, TWOPI / n_ref, a])
    # EQE element helpers: inclination / eccentricity incl. the documented errors
    for inc in (0.0, 1e-6, 0.5, 0.5 * PI, 2.0, PI - 1e-6):
        t = math.tan(0.5 * inc)
        for rd in (0.0, 100.0, 250.0):
            g, err = _try(ut.getInclinationFromEQE, t * math.sin(math.radians(rd)), t * math.cos(math.radians(rd)))
            rec("getInclinationFromEQE", {"inc": inc, "raan_deg": rd, "retro": False}, err is None and abs(g - inc) <= 1e-11 + 4.4e-14 / (PI - inc), err or g, inc)
    for inc in (1e-6, 0.5, 0.5 * PI, 2.0, PI - 1e-6, PI - 0.5 * L, PI):
        t = 1.0 / math.tan(0.5 * inc)
        for rd in (0.0, 100.0, 250.0):
            g, err = _try(ut.getInclinationFromEQE, t * math.sin(math.radians(rd)), t * math.cos(math.radians(rd)), retro=True)
            rec("getInclinationFromEQE", {"inc": inc, "raan_deg": rd, "retro": True}, err is None and abs(g - inc) <= 1e-11 + 4.4e-14 / inc, err or g, inc)
    # documented EQE singularity: retrograde-equatorial without retro raises
    for inc in (PI - 0.5 * L, PI - 0.9 * L):
        t = math.tan(0.5 * inc)
        g, err = _try(ut.getInclinationFromEQE, 0.0, t)
        rec("getInclinationFromEQE/singular", {"inc": inc}, err is not None and err.startswith("InclinationError"), err or g, "InclinationError")
    for h, k, raises in ((0.0, 0.0, False), (0.6, 0.7, False), (0.8, 0.6, True), (0.0, 1.2, True), (-0.3, 0.4, False)):
        g, err = _try(ut.getEccentricityFromEQE, h, k)
        ok = (err is not None and err.startswith("EccentricityError")) if raises else (err is None and abs(g - math.hypot(h, k)) <= 1e-15)
        rec("getEccentricityFromEQE", {"h": h, "k": k}, ok, err or g, "EccentricityError" if raises else math.hypot(h, k))
    # COEStateConfig: which variant is recognised, and an underspecified one is rejected
    base = {"semi_major_axis": 7000.0, "eccentricity": 0.01, "inclination": 10.0}
    for fields, want in (
        ({"true_anomaly": 1.0, "right_ascension": 2.0, "argument_periapsis": 3.0}, (True, True)),
        ({"true_anomaly": 1.0, "true_longitude_periapsis": 3.0}, (True, False)),
        ({"right_ascension": 2.0, "argument_latitude": 3.0}, (False, True)),
        ({"true_longitude": 3.0}, (False, False)),
        ({"true_anomaly": 1.0}, None), ({"right_ascension": 1.0}, None), ({}, None),
    ):
        cfg, err = _try(COEStateConfig, **base, **fields)
        if want is None:
            rec("config/coe_variant", {"fields": sorted(fields)}, err is not None, "accepted" if err is None else err[:80], "rejected")
        else:
            rec("config/coe_variant", {"fields": sorted(fields)}, err is None and (cfg.eccentric, cfg.inclined) == want,
                err[:80] if err else [cfg.eccentric, cfg.inclined], list(want))
    res.observe(1)


# ------------------------------------------------------------------------------------------------ alternative mu
def _run_mu(res, item):
    _, e, ras, aps, nus = item
    a, inc, mu = 9000.0, 1.1, MU_ALT
    for ra_d in ras:
        for ap_d in aps:
            for nu_d in nus:
                pt = _Pt(res, a, e, inc, ra_d, ap_d, nu_d, item_kind="mu")
                pt.item = ("mu", e, [ra_d], [ap_d], [nu_d])
                coe_in = (a, e, inc, pt.raan, pt.argp, pt.nu)
                x = R.coe2rv(*coe_in, mu=mu)
                pt.x = x
                pt.rs, pt.vs = _scales(a, e, mu)
                tol_c = _tol_cart(e, inc, pt.raan, pt.argp, pt.nu)
                xb, err = _try(cv.coe2eci, *coe_in, mu=mu)
                pt.state("mu/coe2eci", xb, 1e-11)
                c, err = _try(cv.eci2coe, x, mu=mu)
                ok = c is not None and abs(float(c[0]) - a) <= 1e-10 * a and abs(float(c[1]) - e) <= 1e-12
                pt.rec("mu/eci2coe", ok, observed=c if err is None else err, expected=coe_in)
                q, err = _try(cv.eci2eqe, x, mu=mu)
                qref = R.coe2eqe(*coe_in)
                ok = q is not None and abs(float(q[0]) - a) <= 1e-10 * a and R.angdiff(float(q[5]), qref[5]) <= 1e-9 + 1.01 * e * (pt.ec != "eccentric") \
                    and abs(float(q[1]) - qref[1]) <= 1e-12 and abs(float(q[2]) - qref[2]) <= 1e-12
                pt.rec("mu/eci2eqe", ok, observed=q if err is None else err, expected=qref)
                xb, err = _try(cv.eqe2eci, *qref, mu=mu)
                pt.state("mu/eqe2eci", xb, 1e-11 + CIRC * e * (pt.ec != "eccentric"))
                ce, err = _try(ClassicalElements.fromECI, x, mu=mu)
                xb = None
                if err is None:
                    xb, err = _try(ce.toECI, mu=mu)
                pt.state("mu/classical_fromECI_toECI", xb, tol_c, cart=True)
                ce, err = _try(ClassicalElements, *coe_in, mu=mu)
                n_ref = math.sqrt(mu / a**3)
                pt.rec("mu/classical_period", ce is not None and abs(ce.period - TWOPI / n_ref) <= 1e-13 * TWOPI / n_ref and abs(ce.mean_motion - n_ref) <= 1e-13 * n_ref,
                       observed=err or [ce.period, ce.mean_motion], expected=[TWOPI / n_ref, n_ref])
                qe, err = _try(EquinoctialElements.fromECI, x, mu=mu)
                xb = None
                if err is None:
                    xb, err = _try(qe.toECI, mu=mu)
                pt.state("mu/equinoctial_fromECI_toECI", xb, 1e-11 + CIRC * e * (pt.ec != "eccentric"))
                ee, err = _try(ut.getEccentricity, x[:3], x[3:], mu=mu)
                nu_g, err2 = _try(ut.getTrueAnomalyFromRV, x, mu=mu)
                ok = ee is not None and abs(float(ee[0]) - e) <= 1e-12
                if pt.ec == "eccentric":
                    ok = ok and nu_g is not None and R.angdiff(float(nu_g), R.wrap(pt.nu)) <= _ang_tol(abs(math.sin(pt.nu)), e)
                pt.rec("mu/utils", ok, observed=[None if ee is None else float(ee[0]), nu_g], expected=[e, pt.nu])
                res.observe(x)


# ------------------------------------------------------------------------------------------------ dispatch
def run_item(item):
    res = fw.Result()
    kind = item[0]
    if kind == "orbit":
        _run_orbit(res, item)
    elif kind == "anomaly":
        _run_anomaly(res, item)
    elif kind == "longitude":
        _run_longitude(res, item)
    elif kind == "singularity":
        _run_singularity(res, item)
    elif kind == "utils":
        _run_utils(res, item)
    elif kind == "scalars":
        _run_scalars(res, item)
    elif kind == "mu":
        _run_mu(res, item)
    else:
        raise ValueError(kind)
    return res
