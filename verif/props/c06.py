"""C06 - the unscented filter equals the Kalman filter on linear-Gaussian systems; covariances stay valid.

Lattice + history explorer.  The real ``UnscentedKalmanFilter`` is driven through predict / forecast / update /
generateSigmaPoints and the result objects of ``results.py`` with a linear ``Dynamics`` stub (X -> F^k X) and observation
stubs whose ``measurement.calculateMeasurement`` returns H x + G s (s = the observation's own sensor vector), and every
product is compared with a textbook Kalman filter (``verif/oracles/kf_linear.py``) that starts each step from the state
the filter actually holds (one-step conformance, run in lock-step along every operation sequence of the announced
depth, and along every multi-step history of tracking steps - considered by tasking / observed / not observed /
propagated in two legs - so that nothing a call leaves behind in the filter object can change a later step unseen).
``physics/noise.py`` builders are compared with their documented closed forms.  Families (D), (E) repeat the
measurement update with the measured values / the filter's own inputs typed and held in every way numpy promotion
distinguishes (ints, narrow ints, float32, scalars, 0-d arrays, lists, mixtures, real ``Observation`` objects): the
reference is the float64 Kalman update on the same numbers.  Family (H) asks predict() for windows other than the ordinary
single step (0 steps = the epoch the filter already sits at, 2 and 3 steps) inside step histories on a fresh object.
"""
from __future__ import annotations

import functools
import itertools
import math
import os
import pickle
from types import SimpleNamespace

import numpy as np

from verif import framework as fw
from verif import scen  # noqa: F401  installs the in-process fake ray before resonaate is imported
from verif.oracles import kf_linear as kf

from resonaate.common.behavioral_config import BehavioralConfig
from resonaate.data.observation import Observation
from resonaate.estimation.kalman.unscented_kalman_filter import UnscentedKalmanFilter
from resonaate.estimation.results import UKFForecastResult, UKFPredictResult, UKFUpdateResult
from resonaate.estimation.sequential_filter import EstimateSource, FilterFlag
from resonaate.physics import noise as rnoise
from resonaate.physics.measurements import IsAngle, Measurement, MeasurementType
from resonaate.physics.time.stardate import ScenarioTime

PROPERTY = "C06"
LEVEL = "model_checking"
RULE = (
    "filter lattice: every (state dimension n=1..8) x (transition-matrix kind) x (P,Q,R kind triple of the tier) x "
    "(tuning alpha,beta,kappa) x (resample off/on); for each, (A) one prediction followed by EVERY ordered stack of "
    "1..4 observations with dimensions from {1,2,3,4} and total dimension <= 8 (forecast and update; quick tier: all "
    "130 stacks for one tuning per system, a 9-stack core set for the other three), and (B) EVERY operation sequence "
    "predict.(predict|update(no obs)|update(1 obs)|update(3-obs stack)|forecast(stack))^k explored as a tree (quick: "
    "k <= 2; thorough: k <= 3 for two of six tunings per system, k <= 2 for the rest), and (C) step histories on one "
    "filter object: a step = predict then one body of {nothing | update(no obs) | forecast | forecast.update(no obs) | "
    "forecast.update(obs) | update(obs)} (thorough adds forecast.forecast.update(no obs | obs)); EVERY history of s "
    "steps followed by a probe step predict.{nothing | update(obs) | forecast | forecast.update(obs)}, walked as a "
    "prefix tree so that every operation of every history is judged (quick: s = 2 for one tuning per system = 185 "
    "sequences of up to 9 operations, s = 1 = 29 sequences of up to 6 operations for the other three; thorough: s = 2 "
    "with 8 bodies = 336 sequences of up to 11 operations for two of six tunings, s = 1 = 40 sequences for the rest); "
    "forecasts and observed updates swap between the single observation and the 3-stack with the step parity, so "
    "forecast and update inside a step and like operations of consecutive steps differ in measurement dimension: "
    "whatever predict / forecast / update(no obs) / update(obs) leaves in the object meets an operation of every kind "
    "directly, after a bare predict, and after one whole intermediate step of every body; "
    "and (D) number types of the measured values: per state dimension n=1..8 two systems x two tunings (thorough: six) x "
    "(resample off/on), one prediction then update(stack) for EVERY value kind x stack in {(1),(3),(2,1,3),(4,4),"
    "(1,1,1,1),(2,2)} (thorough: 14 stacks), value kinds = the same whole / non-whole numbers held as Python ints, "
    "Python-int lists, int64 / int32 / int16 arrays, numpy int scalars, 0-d int arrays, int64 then int32 across the "
    "stack, float64, Python floats, float lists, float32, numpy float scalars, 0-d float arrays, whole-number float64 "
    "/ float32, int and float mixed inside one observation (array / list), int-typed and float-typed observations "
    "alternating along the stack (both orders, also with float32 / int16), and real Observation objects (library "
    "Measurement over linear MeasurementTypes) whose value columns hold ints / floats / whole floats / a mixture; 9 "
    "kinds make the stacked true_y an integer array; and (E) the filter's own inputs as integer arrays of whole "
    "numbers: initial estimate, initial covariance, Q, R each alone and all together as int64 / int32 (and all "
    "float64) x measured values float64 / Python ints (all-together rows also whole floats / int32) along the fixed "
    "sequence P.Ub.P.Ua.P.U0.P.Fb.Ua.P.Fa.Ub with the result-object mirror; every product of (D), (E) is compared "
    "with the float64 Kalman reference on the same numbers with the tolerances of (A), and the estimate / innovation "
    "must be floating-point vectors; and (H) prediction windows: predict() asked for a window of w whole steps, w in "
    "{0 = the epoch the filter already sits at (second batch of observations with the same time stamp, or first "
    "observations at the filter's own start epoch), 1, 2, 3 = steps skipped and caught up in one call}; per (n, F kind) "
    "system x (tuning, P/Q/R kind triple) pair (quick: two pairs per system, all 16 pairings over the lattice; "
    "thorough: all six tunings, each with its own triple) x (resample off/on), EVERY history window prediction . body "
    ". window prediction . probe body on a fresh filter object, bodies = the step bodies of (C), probe bodies = "
    "{nothing | update(no obs) | update(obs) | forecast.update(obs)} (thorough adds forecast, forecast.update(no "
    "obs)), first window in {0, 1, long} with long = 2 or 3 alternating with n + F kind (thorough: {0, 1, 2, 3}), "
    "second window in {0, 1, 2, 3}: quick 288 histories = 378 sequences of up to 6 operations, thorough 768 histories "
    "= 804 sequences of up to 7 operations, walked as a prefix tree like (C); the prediction over w steps is compared "
    "with F^w x, F^w P F^w^T + Q (sigma points centred on F^w x, residuals belonging to the stored points, time "
    "advanced by w steps), so a zero-length window must leave (x, P + Q) and a sigma set of the CURRENT estimate for "
    "the update(no obs) / no-redraw update / forecast that follows; after every operation each "
    "product of the real filter (pred_x, pred_p, mean_pred_y, innov_cvr, cross_cvr, kalman_gain, est_p, est_x, "
    "innovation, nis, r_matrix, sigma points, time, source, flags) is compared with a textbook Kalman filter started "
    "from the state the filter held before the operation, and the same operation is replayed on a pickled copy whose "
    "result object is applied to a mirror filter that must stay bitwise equal. non-trivial = stack of >= 2 "
    "observations, or resample on, or a sequence of >= 2 operations, or in (D), (E) any representation other than "
    "float64 ndarrays, or in (H) a sequence with at least one window other than 1 step; a history prefix already "
    "walked by (B) (in (H): a sequence of ordinary single-step predictions only) is judged "
    "again but not counted again (weights: kappa defaulted or alpha < 1; sigma "
    "points: full/ill-conditioned covariance or custom root; noise builders: dt != 1 and magnitude != 1); distinct by "
    "construction (lattice points / tree nodes)."
)
ASSUMPTIONS = [
    "numpy dense linear algebra (matmul, solve, cholesky, eigvalsh) is the reference arithmetic",
    "julianDateToDatetime (C05) is only required not to raise; the stubs ignore the datetime",
    "residuals()/angularMean (C16) are exercised only on non-angular components (with every value type of family (D))",
    "Observation / Measurement (real objects in family (D)) only store and hand back the values they were given",
    "the documented no-redraw variant is K = (P- - Q) H^T (H (P- - Q) H^T + R)^-1, P+ = P- - K S K^T (DESIGN C06)",
]
EXPECT_MIN_NONTRIVIAL = 2000

DT = 60.0
JD0 = 2459304.25
EPS = kf.EPS

TUNINGS_Q = [(1e-3, 2.0, None), (0.5, 2.0, 0.0), (1.0, 0.0, "3-n"), (1.0, 2.0, 1.0)]
TUNINGS_T = TUNINGS_Q + [(0.1, 2.0, None), (0.9, 1.0, 2.5)]
OPS = ["P", "U0", "Ua", "Ub", "Fb"]
# prediction operations by the length of their window in whole steps of the dynamics stub ("P" = the ordinary single step;
# the others belong to family (H), prediction windows: "P0" = predict to the epoch the filter already sits at)
PREDICT_WINDOWS = {"P": 1, "P0": 0, "P2": 2, "P3": 3}
ALL_COMPS = kf.compositions()
# quick tier: the full composition sweep runs for one tuning per system (rotating with n, F kind, P kind: on a linear
# system the products do not depend on the tuning), the remaining tunings run this core set
CORE_COMPS = [(1,), (4,), (1, 1), (2, 3), (4, 4), (3, 1, 2), (1, 2, 3), (2, 2, 2, 2), (1, 2, 1, 3)]


def _kinds(tier):
    """(P kind, Q kind, R kind) triples: quick = every kind once in every role; thorough = 16-run orthogonal array."""
    if tier == "quick":
        return [(k, (k + 1) % 4, (k + 2) % 4) for k in range(4)]
    return [(p, q, (p + q) % 4) for p in range(4) for q in range(4)]


def _depth(tier, n=None, fk=None, ti=None):
    """Sequence depth: quick 3; thorough 4 for two of the six tunings per system (rotating with n and the F kind so
    that every tuning is explored to depth 4 on a third of the systems), 3 for the others."""
    if tier == "quick":
        return 3
    if ti is None:
        return 4
    return 4 if (ti - n - fk) % 3 == 0 else 3


def _tunings(tier):
    return TUNINGS_Q if tier == "quick" else TUNINGS_T


def items(tier, seed):
    out = []
    for n in range(1, 9):
        for fk in range(4):
            for pk, qk, rk in _kinds(tier):
                out.append(("lin", n, fk, pk, qk, rk, seed, tier))
    for n in range(1, 9):
        for fk in range(4):
            out.append(("window", n, fk, seed, tier))
        out.append(("dtype", n, seed, tier))
        out.append(("intinputs", n, seed, tier))
    out.append(("weights", seed, tier))
    out.append(("sigma", seed, tier))
    out.append(("noobs_nonlinear", seed, tier))
    out.append(("bookkeeping", seed, tier))
    out.append(("noise", seed, tier))
    return out


def bounds(tier, seed):
    return {
        "state_dims": list(range(1, 9)),
        "F_kinds": kf.F_KINDS,
        "cov_kinds": kf.COV_KINDS,
        "PQR_kind_triples": _kinds(tier),
        "tunings_alpha_beta_kappa": [list(map(str, t)) for t in _tunings(tier)],
        "resample": [False, True],
        "stack_compositions": len(ALL_COMPS),
        "stack_compositions_note": "all tunings" if tier != "quick" else
        f"all {len(ALL_COMPS)} for tuning index (n + F kind + P kind) mod 4, core set {CORE_COMPS} for the others",
        "sequence_depth": _depth(tier),
        "sequence_depth_note": "every tuning" if tier == "quick" else
        "depth 4 for tuning indices with (index - n - F kind) mod 3 == 0 (two of six per system), depth 3 for the rest",
        "sequence_ops": OPS,
        "step_history_bodies": [".".join(("P",) + b) for b in (STEP_BODIES_Q if tier == "quick" else STEP_BODIES_T)],
        "step_history_probe_step": [".".join(("P",) + b) for b in PROBE_BODIES],
        "step_history_plans": {
            f"{steps}_steps_then_probe": dict(zip(
                ("sequences", "longest_in_operations"),
                _trie_stats(_trie(_histories(tuple(STEP_BODIES_Q if tier == "quick" else STEP_BODIES_T), steps))),
            ))
            for steps in (1, 2)
        },
        "step_history_note": (
            "2 steps for tuning index (n + F kind + P kind + 2) mod 4, 1 step for the other three" if tier == "quick" else
            "2 steps for tuning indices with (index - n - F kind) mod 3 == 1 (two of six per system), 1 step for the rest"
        ) + "; both resample modes; stacks a (forecast) / b (observed update) on even steps, swapped on odd steps, the "
        "second forecast of a step takes the update's stack; every prefix is judged step by step",
        "prediction_window_steps": {op: PREDICT_WINDOWS[op] for op in WINDOW_OPS},
        "prediction_window_histories": "first window . body . second window . probe body on a fresh filter; first windows "
        + (str(["P0", "P", "P2 if (n + F kind) even else P3"]) if tier == "quick" else str(WINDOW_OPS))
        + ", second windows " + str(WINDOW_OPS),
        "prediction_window_bodies": [".".join(b) or "-" for b in (STEP_BODIES_Q if tier == "quick" else STEP_BODIES_T)],
        "prediction_window_probe_bodies": [".".join(b) or "-" for b in (WINDOW_PROBES_Q if tier == "quick" else WINDOW_PROBES_T)],
        "prediction_window_plan": dict(zip(
            ("histories", "sequences", "longest_in_operations"),
            (len(_window_histories(*_window_alphabet(tier, 1, 0))),)
            + _trie_stats(_trie(_window_histories(*_window_alphabet(tier, 1, 0))), 0),
        )),
        "prediction_window_contexts": {
            f"n={n},F={kf.F_KINDS[fk]}": [[list(map(str, _tunings(tier)[ti])), list(tr)] for ti, tr in _window_contexts(tier, n, fk)]
            for n in (1, 8) for fk in (0, 3)
        },
        "prediction_window_contexts_note": "(tuning, [P kind, Q kind, R kind]) pairs per (n, F kind) system, shown for the "
        "corner systems; " + ("tuning index (n + F kind + 2 j) mod 4 with triple index (n + 2 F kind + j + [n > 4]) mod 4, j = 0, 1"
                              if tier == "quick" else "every tuning index t with triple index (n + 4 F kind + 3 t) mod 16")
        + "; both resample modes; stacks a / b by step parity as in the step histories",
        "number_types_value_kinds": VALUE_KINDS,
        "number_types_integer_true_y_kinds": INT_ONLY_KINDS,
        "number_types_stacks": [list(c) for c in (DTYPE_COMPS_Q if tier == "quick" else DTYPE_COMPS_T)],
        "number_types_systems_per_n": "F/P/Q/R kinds " + str([list(x) for x in _dtype_systems(1, seed)]) + " for n = 1, "
        "rotating with n; tunings " + ("two of four per system, rotating with n" if tier == "quick" else "all six")
        + "; both resample modes; measured values = 4 y (non-whole) or round(4 y) (whole), |.| <= 12; a one-component "
        "observation of a mixed_within kind and a one-observation stack of an alternating kind hold the first type only",
        "input_types_casts": [name for name, _, _ in INPUT_CASTS],
        "input_types_value_kinds": {"one integer input": INPUT_VALUE_KINDS_SINGLE, "float64 / all integer": INPUT_VALUE_KINDS},
        "input_types_sequence": ".".join(INPUT_SEQUENCE),
        "input_types_note": "whole-number x0, P0, Q, R of the four covariance kinds (ill-conditioned: standard "
        "deviations 1..1000), stacks a / b as in the sequence explorer",
        "phase_seed": seed,
    }


# ------------------------------------------------------------------------------------------------ stubs
class StubContractError(RuntimeError):
    """The library called a stub outside the stub's contract (e.g. a propagation window that is not whole steps)."""


class LinDyn:
    """Linear dynamics stub: propagate(t0, t1, X) = F^k X with k = (t1 - t0) / DT whole steps."""

    def __init__(self, f):
        self.f = f
        self.calls = []

    def propagate(self, initial_time, final_time, initial_state, scheduled_events=None, **_kw):
        k = (float(final_time) - float(initial_time)) / DT
        kk = int(round(k))
        self.calls.append((float(initial_time), float(final_time)))
        if kk < 0 or abs(k - kk) > 1e-9:
            raise StubContractError(f"stub dynamics asked for a window of {k} steps")
        return np.linalg.matrix_power(self.f, kk) @ initial_state


class QuadDyn(LinDyn):
    """Mildly non-linear dynamics (only for the no-observation clause): F X + 0.05 X*X."""

    def propagate(self, initial_time, final_time, initial_state, scheduled_events=None, **_kw):
        self.calls.append((float(initial_time), float(final_time)))
        return self.f @ initial_state + 0.05 * initial_state * initial_state


class LinMeas:
    def __init__(self, h, g):
        self.h = h
        self.g = g
        self.angular_values = [IsAngle.NOT_ANGLE] * h.shape[0]
        self.noisy_calls = 0

    def calculateMeasurement(self, sensor_eci, tgt_eci, utc_datetime, noisy=False):  # noqa: N802
        if noisy:
            self.noisy_calls += 1
        v = self.h @ tgt_eci + self.g @ sensor_eci
        return {f"m{i}": float(x) for i, x in enumerate(v)}


class LinObs:
    def __init__(self, h, g, r, y, s, jd):
        self.measurement = LinMeas(h, g)
        self.r_matrix = r
        self.measurement_states = y
        self.sensor_eci = s
        self.julian_date = jd


# ------------------------------------------------------------------------------------------------ number types
# How the measured values of one observation reach update(): the real ``Observation.measurement_states`` is
# ``array([value, ...])`` over whatever objects were stored on the observation (floats from the shipped sensors; ints,
# numpy scalars, 0-d arrays from hand-built / imported data), so the stacked true_y takes whatever dtype numpy's
# promotion gives.  The Kalman update is a statement about the numbers, not about their representation: every kind
# below is compared with the float64 reference on the same numbers.  ``whole`` = nearest whole numbers of 4 y.
INT_ONLY_KINDS = [  # every value of the stack is integer-typed: true_y is an integer array
    "py_int", "py_int_list", "np_int64", "np_int32", "np_int16", "np_int64_scalars", "zero_d_int", "int64_then_int32",
    "observation_int",
]
FLOAT_KINDS = [  # at least one float-typed value in the stack (or all): true_y is a floating array
    "np_float64", "py_float", "py_float_list", "np_float32", "np_float64_scalars", "zero_d_float", "whole_float",
    "whole_float32", "mixed_within", "mixed_within_list", "int_then_float", "float_then_int", "int_then_float32",
    "int16_then_float32", "observation_float", "observation_whole_float", "observation_mixed",
]
VALUE_KINDS = INT_ONLY_KINDS + FLOAT_KINDS


def measured_values(kind, y, j):
    """The measured values of the observation at stack position j, typed and held as ``kind`` says."""
    w = [int(round(4.0 * float(v))) for v in y]  # Python ints in [-12, 12]
    f = [4.0 * float(v) for v in y]  # Python floats, not whole
    even = j % 2 == 0
    mixed = [w[i] if (i + j) % 2 == 0 else f[i] for i in range(len(w))]
    table = {
        "py_int": lambda: np.array(w),
        "py_int_list": lambda: list(w),
        "np_int64": lambda: np.array(w, dtype=np.int64),
        "np_int32": lambda: np.array(w, dtype=np.int32),
        "np_int16": lambda: np.array(w, dtype=np.int16),
        "np_int64_scalars": lambda: np.array([np.int64(v) for v in w]),
        "zero_d_int": lambda: np.array([np.array(v) for v in w]),
        "int64_then_int32": lambda: np.array(w, dtype=np.int64 if even else np.int32),
        "np_float64": lambda: np.array(f, dtype=np.float64),
        "py_float": lambda: np.array(f),
        "py_float_list": lambda: list(f),
        "np_float32": lambda: np.array(f, dtype=np.float32),
        "np_float64_scalars": lambda: np.array([np.float64(v) for v in f]),
        "zero_d_float": lambda: np.array([np.array(v) for v in f]),
        "whole_float": lambda: np.array([float(v) for v in w]),
        "whole_float32": lambda: np.array(w, dtype=np.float32),
        "mixed_within": lambda: np.array(mixed),
        "mixed_within_list": lambda: list(mixed),
        "int_then_float": lambda: np.array(w) if even else np.array(f),
        "float_then_int": lambda: np.array(f) if even else np.array(w),
        "int_then_float32": lambda: np.array(w) if even else np.array(f, dtype=np.float32),
        "int16_then_float32": lambda: np.array(w, dtype=np.int16) if even else np.array(f, dtype=np.float32),
        # real Observation objects: plain Python values, stored as given
        "observation_int": lambda: list(w),
        "observation_float": lambda: list(f),
        "observation_whole_float": lambda: [float(v) for v in w],
        "observation_mixed": lambda: list(mixed),
    }
    return table[kind]()


OBS_LABELS = ["azimuth_rad", "elevation_rad", "range_km", "range_rate_km_p_sec"]  # value columns of an Observation


class LinRow(MeasurementType):
    """One linear measurement component h . x + g . s stored in one of the value columns of the Observation table."""

    def __init__(self, label, h_row, g_row):
        self.LABEL = label
        self.h_row = h_row
        self.g_row = g_row

    def calculate(self, sen_eci_state, tgt_eci_state, utc_date):
        return float(self.h_row @ tgt_eci_state + self.g_row @ sen_eci_state)

    @property
    def is_angular(self):
        return IsAngle.NOT_ANGLE


class RealLinMeas(Measurement):
    """The library's Measurement over LinRow components; carries H and G for the reference, counts noisy calls."""

    def __init__(self, h, g, r, labels):
        super().__init__([LinRow(lab, h[i], g[i]) for i, lab in enumerate(labels)], r)
        self.h = h
        self.g = g
        self.noisy_calls = 0

    def calculateMeasurement(self, sen_eci_state, tgt_eci_state, utc_date, noisy=False):  # noqa: N802
        if noisy:
            self.noisy_calls += 1
        return super().calculateMeasurement(sen_eci_state, tgt_eci_state, utc_date, noisy=noisy)


def real_observation(h, g, r, values, s, jd, j):
    """A real ``Observation`` (<= 4 components) whose value columns hold ``values`` exactly as given; the columns are
    taken in a rotated order so that the label order of the Measurement, not the column order, defines the vector."""
    d = h.shape[0]
    labels = [OBS_LABELS[(j + i) % 4] for i in range(d)]
    meas = RealLinMeas(h, g, np.asarray(r, dtype=float), labels)
    return Observation(julian_date=jd, target_id=10001, sensor_id=20001 + j, sensor_type="Linear", sensor_eci=s,
                       measurement=meas, **dict(zip(labels, values)))


class Detector:
    """Maneuver-detection stub: records what it was called with, answers a fixed verdict."""

    def __init__(self, verdict):
        self.verdict = verdict
        self.metric = None
        self.args = None

    def __call__(self, innovation, innov_cvr):
        self.args = (np.array(innovation, copy=True), np.array(innov_cvr, copy=True))
        self.metric = 42.5
        return self.verdict


# ------------------------------------------------------------------------------------------------ system builder
class System:
    def __init__(self, n, fk, pk, qk, rk, seed):
        self.n, self.fk, self.pk, self.qk, self.rk, self.seed = n, fk, pk, qk, rk, seed
        ph = seed % 1000
        self.f = kf.make_F(fk, n, ph)
        self.p0 = kf.make_cov(pk, n, ph)
        self.q = kf.make_cov(qk, n, ph + 1, scale=0.3, reverse=True)
        sign = np.array([(-1.0) ** i for i in range(n)])
        self.x0 = sign * (1.0 + 0.37 * np.arange(n)) + 0.1 * kf.halton_vector(n, ph)
        self._obs_cache = {}
        # number-type families (D), (E): how the measured values / R / the filter's own inputs are typed and held
        # (None = float64 ndarrays, the representation of families (A)-(C))
        self.value_kind = None
        self.r_dtype = None
        self.casts = {}

    def _make_r(self, j, d):
        return kf.make_cov(self.rk, d, self.seed % 1000 + 2 + j, scale=0.2 * (1.0 + 0.5 * j))

    def obs(self, j, d):
        """Observation at stack position j with dimension d (its own H, G, R, y, sensor vector, epoch)."""
        key = (j, d)
        if key not in self._obs_cache:
            ph = self.seed % 1000
            h = kf.halton_matrix(d, self.n, 17 + 13 * j + 5 * d + ph)
            g = 0.3 * kf.halton_matrix(d, 6, 29 + 7 * j + ph)
            r = self._make_r(j, d)
            y = 3.0 * kf.halton_vector(d, 3 + 11 * j + ph, base=5)
            s = 0.5 * kf.halton_vector(6, 41 + 3 * j + ph, base=7)
            self._obs_cache[key] = (h, g, r, y, s)
        h, g, r, y, s = self._obs_cache[key]
        r = r.copy() if self.r_dtype is None else r.astype(self.r_dtype)
        if self.value_kind is None:
            return LinObs(h, g, r, y.copy(), s.copy(), JD0 + 0.001 * j)
        if self.value_kind.startswith("observation_"):
            return real_observation(h, g, r, measured_values(self.value_kind, y, j), s.copy(), JD0 + 0.001 * j, j)
        return LinObs(h, g, r, measured_values(self.value_kind, y, j), s.copy(), JD0 + 0.001 * j)

    def stack(self, comp):
        return [self.obs(j, d) for j, d in enumerate(comp)]

    def make_filter(self, tuning, resample, dyn=None, **kw):
        a, b, k = tuning
        if k == "3-n":
            k = 3.0 - self.n
        def typed(name, value):
            return value.copy() if name not in self.casts else value.astype(self.casts[name])

        return UnscentedKalmanFilter(
            10001,
            ScenarioTime(0.0),
            typed("x0", self.x0),
            typed("p0", self.p0),
            dyn if dyn is not None else LinDyn(self.f),
            typed("q", self.q),
            resample=resample,
            alpha=a,
            beta=b,
            kappa=k,
            **kw,
        )


def _tuning_numbers(n, tuning):
    a, b, k = tuning
    if k == "3-n":
        k = 3.0 - n
    return a, b, k


# ------------------------------------------------------------------------------------------------ tolerances
class Tol:
    """Tolerances derived from the floating-point error of the unscented transform itself.

    * The weighted mean sum_i w_i X_i has |w_0| ~ n / (3 alpha^2) (2.7e6 for n = 8 at the default alpha = 1e-3), so its
      rounding error is ~ eps * sum|w_i| * max|X|: ``mean`` = 1e-11 + 32 sqrt(2n+1) eps sum|w| (relative to max|X|);
      observed on the lattice: <= 1 eps sqrt(2n+1) sum|w|.
    * That mean error d enters the covariance through the centre residual as |Wc_0| d d^T: absolute ``floor`` =
      4 |Wc_0| d^2 with d = 4 sqrt(2n+1) eps sum|w| xmax (4x the observed mean error, 16x in the square); everything else in the covariance sums is backward stable in the diagonally scaled
      sense: relative 1e-9 of sqrt(P_ii P_jj).
    * Gain and posterior go through inv(S): relative 100 eps cond(S scaled) on top, and inherit the covariance floor
      amplified by cond.
    The smallest defect that must be exposed (one wrong index/sign/weight) changes these quantities by >= 1e-3 relative
    on the well-conditioned kinds, i.e. >= 5 orders above the tolerance there.
    """

    def __init__(self, n, tuning):
        a, b, k = _tuning_numbers(n, tuning)
        _, _, wm, wc = kf.ut_weights(n, a, b, k)
        self.kw = float(np.sum(np.abs(wm)))
        self.wc0 = abs(float(wc[0]))
        self.mean = 1e-11 + 32.0 * math.sqrt(2 * n + 1) * EPS * self.kw
        self.delta = 4.0 * math.sqrt(2 * n + 1) * EPS * self.kw

    def floor(self, xmax):
        return 4.0 * self.wc0 * (self.delta * xmax) ** 2


_DEBUG = os.environ.get("VERIF_C06_DEBUG")
_DEBUG_MAX: dict = {}


def _bucket(ratio):
    if ratio < 1e-4:
        return "err/tol<1e-4"
    if ratio < 1e-2:
        return "err/tol<1e-2"
    if ratio <= 1.0:
        return "err/tol<=1"
    return "err/tol>1"


class Ctx:
    """Per-(system, tuning, resample) comparison context."""

    def __init__(self, res, sysm, tuning, resample, item):
        self.res, self.sys, self.tuning, self.resample, self.item = res, sysm, tuning, resample, item
        self.tol = Tol(sysm.n, tuning)
        self.mode = "resample" if resample else "noresample"
        self.family = None  # set by the number-type families: appended to every signature of the context
        self.base = {
            "n": sysm.n,
            "F": kf.F_KINDS[sysm.fk],
            "P": kf.COV_KINDS[sysm.pk],
            "Q": kf.COV_KINDS[sysm.qk],
            "R": kf.COV_KINDS[sysm.rk],
            "tuning": [str(t) for t in tuning],
            "resample": resample,
        }

    def case(self, sub, extra, ok, *, nontrivial, field, ratio=None, observed=None, expected=None, tag=None):
        c = dict(self.base)
        c.update(extra)
        c["field"] = field
        sig = f"C06/{sub}/{field}/{self.mode}" + (f"/{self.family}" if self.family else "") + (f"/{tag}" if tag else "")
        if _DEBUG and ratio is not None:
            key = f"{sub}/{field}/{self.mode}"
            if ratio > _DEBUG_MAX.get(key, (0.0, None))[0]:
                _DEBUG_MAX[key] = (ratio, dict(c))
        return self.res.case(
            sub,
            c,
            bool(ok),
            nontrivial=nontrivial,
            signature=sig,
            observed=observed,
            expected=expected,
            outcome=_bucket(ratio) if ratio is not None else None,
            item=self.item,
        )


def _exact(a, b):
    a = np.asarray(a)
    b = np.asarray(b)
    return a.shape == b.shape and bool(np.array_equal(a, b))


def _brief(m):
    m = np.asarray(m, dtype=float)
    return m.ravel()[:6].tolist()


# ------------------------------------------------------------------------------------------------ one-step oracles
def check_predict(ctx, flt, pre, extra, nontrivial, sub="predict", steps=1):
    """flt has just executed predict() from the state ``pre`` (dict of copies taken before the call) over a window of
    ``steps`` whole steps of the dynamics stub (family (H): 0 = to the epoch the filter already sits at, 2, 3 = skipped
    steps): the Kalman prediction over the window is F^steps x, F^steps P F^steps^T + Q (Q is added once per call)."""
    sysm, tol = ctx.sys, ctx.tol
    n = sysm.n
    f_win = sysm.f if steps == 1 else np.linalg.matrix_power(sysm.f, steps)  # the stub applies F^steps in one product
    t_win = steps * DT
    xm, pm, pprop = kf.kf_predict(pre["est_x"], pre["est_p"], f_win, sysm.q)
    d = np.sqrt(np.diag(pm))
    lchol = np.linalg.cholesky(pre["est_p"])
    spread = flt.gamma * np.hstack([np.zeros((n, 1)), lchol, -lchol])
    xmax = float(np.max(np.abs(f_win @ (pre["est_x"].reshape(n, 1) + spread))))  # size of the propagated sigma points
    floor = tol.floor(xmax)
    # numpy's cholesky reads the lower triangle only; an input est_p that is symmetric only to rounding (K S K^T is
    # not formed symmetrically) is therefore ambiguous by its own asymmetry: the band between the two readings is
    # added to the tolerance instead of choosing one of them
    low = np.tril(pre["est_p"]) + np.tril(pre["est_p"], -1).T
    band = kf.scaled_err(kf.kf_predict(pre["est_x"], low, f_win, sysm.q)[1], pm, d, d)
    # the Cholesky factor of an estimate whose ill-conditioning is not a diagonal scaling (a posterior with one well
    # measured direction) is accurate to eps * cond only: 100 eps cond(scaled est_p)
    rel_cov = 1e-9 + floor / float(np.min(d) ** 2) + 4.0 * band + 100.0 * EPS * kf.scaled_cond(0.5 * (pre["est_p"] + pre["est_p"].T))

    e = kf.vec_err(flt.pred_x, xm)
    ctx.case(sub, extra, e <= tol.mean, nontrivial=nontrivial, field="pred_x", ratio=e / tol.mean,
             observed=_brief(flt.pred_x), expected=_brief(xm))
    e = kf.scaled_err(flt.pred_p, pm, d, d)
    ctx.case(sub, extra, e <= rel_cov, nontrivial=nontrivial, field="pred_p", ratio=e / rel_cov,
             observed=_brief(flt.pred_p), expected=_brief(pm))
    # covariance validity
    e = kf.sym_err(flt.pred_p, d)
    ctx.case("cov_symmetric", extra, e <= 1e-12, nontrivial=nontrivial, field="pred_p", ratio=e / 1e-12, observed=e)
    me = kf.scaled_min_eig(flt.pred_p, d)
    ctx.case("cov_psd", extra, me >= -1e-10, nontrivial=nontrivial, field="pred_p", ratio=max(-me, 0.0) / 1e-10,
             observed=me, expected=">= -1e-10")
    # bookkeeping of predict: time advanced to the requested time, estimate untouched, flags cleared, dynamics window
    t_ok = float(flt.time) == pre["time"] + t_win
    ctx.case(sub + "_bookkeeping", extra, t_ok, nontrivial=nontrivial, field="time", observed=float(flt.time),
             expected=pre["time"] + t_win)
    ctx.case(sub + "_bookkeeping", extra, _exact(flt.est_x, pre["est_x"]) and _exact(flt.est_p, pre["est_p"]),
             nontrivial=nontrivial, field="estimate_untouched")
    ctx.case(sub + "_bookkeeping", extra, flt.flags == FilterFlag.NONE, nontrivial=nontrivial, field="flags",
             observed=str(flt.flags))
    calls = flt.dynamics.calls
    if steps > 0:  # (whether a zero-length window reaches the dynamics at all is not part of the contract: not judged)
        ctx.case(sub + "_bookkeeping", extra, bool(calls) and calls[-1] == (pre["time"], pre["time"] + t_win),
                 nontrivial=nontrivial, field="dynamics_window", observed=calls[-1:] or None,
                 expected=[pre["time"], pre["time"] + t_win])
    # propagated sigma points: shape, centre = propagated mean, residuals consistent with the stored points
    sp_shape = flt.sigma_points.shape == (n, 2 * n + 1)
    sp_ok = sp_shape and kf.vec_err(flt.sigma_points[:, 0], xm) <= 1e-12
    ctx.case(sub, extra, sp_ok, nontrivial=nontrivial, field="sigma_centre",
             observed=_brief(flt.sigma_points[:, 0]) if sp_shape else list(flt.sigma_points.shape), expected=_brief(xm))
    res_ok = flt.sigma_x_res.shape == (n, 2 * n + 1) and _exact(
        flt.sigma_x_res, flt.sigma_points - flt.pred_x.reshape(n, 1)
    )
    ctx.case(sub, extra, res_ok, nontrivial=nontrivial, field="sigma_x_res")
    return {"pprop": pprop, "f_l_prev": f_win @ lchol}


UPDATE_FIELDS_COV = ["innov_cvr", "cross_cvr", "kalman_gain", "est_p"]


def check_measurement_step(ctx, flt, pre, orc, stack, extra, nontrivial, *, forecast_only):
    """flt has just executed update(stack) (or forecast(stack)) from the prior state ``pre``; ``orc`` carries the
    oracle's memory of the last prediction (propagated covariance without Q, and F L for the diagnostic)."""
    sysm, tol = ctx.sys, ctx.tol
    n = sysm.n
    sub = "forecast" if forecast_only else "update"
    hs = [o.measurement.h for o in stack]
    rs = [o.r_matrix for o in stack]
    # the reference works in float64 on the same numbers, however the measured values / R are typed or held
    rs = [np.asarray(r, dtype=float) for r in rs]
    ys = [np.asarray(o.measurement_states, dtype=float).reshape(-1) for o in stack]
    bs = [o.measurement.g @ o.sensor_eci for o in stack]
    xm, pm = pre["pred_x"], pre["pred_p"]
    if ctx.resample:
        ref = kf.kf_update(xm, pm, hs, rs, ys, bs)
    else:
        # the propagated sigma set carries P- minus Q; taken from the filter's own prior (not from the oracle's memory of
        # the prediction) so that the step is judged on the state it actually started from
        pv = pm - sysm.q
        ref = kf.variant_update(xm, pm, 0.5 * (pv + pv.T), hs, rs, ys, bs)
    m = ref["r_matrix"].shape[0]
    d = np.sqrt(np.diag(pm))
    dy = np.sqrt(np.diag(ref["innov_cvr"]))
    hmax = float(np.max(np.sum(np.abs(np.vstack(hs)), axis=1)))
    lchol = np.linalg.cholesky(pm)
    xmax = float(np.max(np.abs(xm)) + flt.gamma * np.max(np.abs(lchol)))
    ymax = hmax * xmax + float(np.max(np.abs(np.concatenate(bs))))
    cond = kf.scaled_cond(ref["innov_cvr"])
    floor_x = tol.floor(xmax)
    floor_y = tol.floor(ymax)
    # redrawn sets go through cholesky(P-): accurate to eps * cond of the diagonally scaled P- (see check_predict)
    redraw = 100.0 * EPS * kf.scaled_cond(0.5 * (pm + pm.T)) if ctx.resample else 0.0
    # no-redraw mode: the filter's pred_p was rounded at the size of Q when Q was added, so P- - Q (reference) and the
    # sigma-set covariance (filter) differ by ~ eps max|Q| absolutely
    qcan = 0.0 if ctx.resample else 8.0 * EPS * float(np.max(np.abs(sysm.q)))
    rel_s = 1e-9 + redraw + (hmax * hmax * (floor_x + qcan) + floor_y) / float(np.min(dy) ** 2)
    rel_c = 1e-9 + redraw + (hmax * (floor_x + qcan) + math.sqrt(floor_x * floor_y)) / float(np.min(d) * np.min(dy))
    rel_k = (rel_s + rel_c) * (1.0 + cond) + 100.0 * EPS * cond
    tols = {"innov_cvr": rel_s, "cross_cvr": rel_c, "kalman_gain": rel_k, "est_p": 1e-9 + rel_k}
    scales = {
        "innov_cvr": (dy, dy),
        "cross_cvr": (d, dy),
        "kalman_gain": (d, 1.0 / dy),
        "est_p": (d, d),
    }
    stale = None
    if ctx.resample:
        stale = kf.stale_xres_update(xm, pm, orc["f_l_prev"], hs, rs, ys, bs)

    def tag_for(field, tolv, vec=False):
        """Diagnostic label only: does the deviation equal 'state residuals kept from the prediction'?"""
        if stale is None:
            return None
        obs = getattr(flt, field)
        if vec:
            return "stale_sigma_x_res" if kf.vec_err(obs, stale[field]) <= max(tolv, 1e-9) else "other"
        a, b = scales[field]
        return "stale_sigma_x_res" if kf.scaled_err(obs, stale[field], a, b) <= max(tolv, 1e-9) else "other"

    # stacked measurement bookkeeping
    ctx.case(sub, extra, _exact(flt.r_matrix, ref["r_matrix"]), nontrivial=nontrivial, field="r_matrix",
             observed=_brief(np.diag(np.atleast_2d(flt.r_matrix))), expected=_brief(np.diag(ref["r_matrix"])))
    ia = np.asarray(flt.is_angular)
    ctx.case(sub, extra, ia.shape == (m,) and not ia.any(), nontrivial=nontrivial, field="is_angular",
             observed=ia.tolist())
    tol_y = tol.mean * max(1.0, ymax / max(1.0, float(np.max(np.abs(ref["mean_pred_y"])))))
    e = kf.vec_err(flt.mean_pred_y, ref["mean_pred_y"])
    ctx.case(sub, extra, e <= tol_y, nontrivial=nontrivial, field="mean_pred_y", ratio=e / tol_y,
             observed=_brief(flt.mean_pred_y), expected=_brief(ref["mean_pred_y"]))
    for field in UPDATE_FIELDS_COV:
        a, b = scales[field]
        e = kf.scaled_err(getattr(flt, field), ref[field], a, b)
        ok = e <= tols[field]
        ctx.case(sub, extra, ok, nontrivial=nontrivial, field=field, ratio=e / tols[field],
                 observed=_brief(getattr(flt, field)), expected=_brief(ref[field]),
                 tag=None if ok else tag_for(field, tols[field]))
    ssh = flt.sigma_y_res.shape == (m, 2 * n + 1) and flt.sigma_points.shape == (n, 2 * n + 1)
    ctx.case(sub, extra, ssh, nontrivial=nontrivial, field="sigma_shapes", observed=list(flt.sigma_y_res.shape))
    if ctx.resample:  # redrawn set is centred on the predicted mean and reproduces the predicted covariance
        w = np.diag(flt.cvr_weight)
        dev = flt.sigma_points - xm.reshape(n, 1)
        e = max(kf.vec_err(flt.sigma_points[:, 0], xm), kf.scaled_err((dev * w) @ dev.T, pm, d, d))
        ctx.case(sub, extra, e <= 1e-9 + redraw, nontrivial=nontrivial, field="redrawn_sigma_points",
                 ratio=e / (1e-9 + redraw))
    else:
        ctx.case(sub, extra, _exact(flt.sigma_points, pre["sigma_points"]), nontrivial=nontrivial,
                 field="sigma_points_kept")
    ctx.case(sub, extra, _exact(flt.pred_x, pre["pred_x"]) and _exact(flt.pred_p, pre["pred_p"]) and
             float(flt.time) == pre["time"], nontrivial=nontrivial, field="prior_untouched")

    # covariance clauses, with the filter's own K and S
    k_own, s_own = np.asarray(flt.kalman_gain), np.asarray(flt.innov_cvr)
    if k_own.shape == (n, m) and s_own.shape == (m, m) and np.all(np.isfinite(k_own)) and np.all(np.isfinite(s_own)):
        ksk = k_own @ s_own @ k_own.T
        e = kf.scaled_err(flt.est_p, pm - ksk, d, d)
        id_tol = 1e-9 + 1000.0 * EPS * cond  # K = C S^-1 carries entries ~ cond(S): K S K^T cancels to eps * cond
        ctx.case("cov_posterior_identity", extra, e <= id_tol, nontrivial=nontrivial, field="est_p", ratio=e / id_tol,
                 observed=_brief(flt.est_p), expected=_brief(pm - ksk))
        me = kf.scaled_min_eig(pm - np.asarray(flt.est_p), d)
        ctx.case("cov_not_above_prior", extra, me >= -1e-10, nontrivial=nontrivial, field="pred_p-est_p",
                 ratio=max(-me, 0.0) / 1e-10, observed=me, expected=">= -1e-10")
    else:
        ctx.case("cov_posterior_identity", extra, False, nontrivial=nontrivial, field="shapes",
                 observed=[list(k_own.shape), list(s_own.shape)])
    e = kf.sym_err(flt.est_p, d)  # asymmetry of P- - K S K^T is rounding at the scale of the prior
    sym_tol = 1e-12 + 1000.0 * EPS * cond
    ctx.case("cov_symmetric", extra, e <= sym_tol, nontrivial=nontrivial, field="est_p", ratio=e / sym_tol, observed=e)
    me = kf.scaled_min_eig(flt.est_p, d)
    psd_tol = 1e-10 + rel_k
    ctx.case("cov_psd", extra, me >= -psd_tol, nontrivial=nontrivial, field="est_p", ratio=max(-me, 0.0) / psd_tol,
             observed=me, expected=f">= -{psd_tol:.3g}")
    e = kf.sym_err(flt.innov_cvr, dy)
    ctx.case("cov_symmetric", extra, e <= 1e-12, nontrivial=nontrivial, field="innov_cvr", ratio=e / 1e-12, observed=e)
    me = kf.scaled_min_eig(flt.innov_cvr, dy)
    ctx.case("cov_psd", extra, me > 0.0, nontrivial=nontrivial, field="innov_cvr", observed=me)

    noisy = sum(o.measurement.noisy_calls for o in stack)
    ctx.case(sub, extra, noisy == 0, nontrivial=nontrivial, field="noise_free_sigma_measurements", observed=noisy)
    ctx.case(sub + "_bookkeeping", extra, flt.flags == FilterFlag.NONE, nontrivial=nontrivial, field="flags",
             observed=str(flt.flags))
    if forecast_only:
        keep = _exact(flt.est_x, pre["est_x"]) and flt.source == pre["source"] and _exact(flt.innovation, pre["innovation"])
        ctx.case(sub + "_bookkeeping", extra, keep, nontrivial=nontrivial, field="state_estimate_untouched")
    else:
        ctx.case(sub, extra, _exact(flt.true_y, ref["true_y"]), nontrivial=nontrivial, field="true_y",
                 observed=_brief(flt.true_y), expected=_brief(ref["true_y"]))
        e = kf.vec_err(flt.innovation, ref["innovation"])
        ctx.case(sub, extra, e <= tol_y, nontrivial=nontrivial, field="innovation", ratio=e / tol_y,
                 observed=_brief(flt.innovation), expected=_brief(ref["innovation"]))
        tol_n = 10.0 * (tol_y + rel_s * (1.0 + cond) + 100.0 * EPS * cond)
        e = abs(float(flt.nis) - ref["nis"]) / max(1.0, abs(ref["nis"]))
        ctx.case(sub, extra, e <= tol_n, nontrivial=nontrivial, field="nis", ratio=e / tol_n, observed=float(flt.nis),
                 expected=ref["nis"])
        # est_x = pred_x + K nu; its error budget is the gain's, times the innovation size relative to the state
        numax = float(np.max(np.abs(ref["innovation"]) / dy))
        tol_x = tol.mean + tol_y + rel_k * numax * float(np.max(d)) * math.sqrt(m) / max(1.0, float(np.max(np.abs(ref["est_x"]))))
        e = kf.vec_err(flt.est_x, ref["est_x"])
        ok = e <= tol_x
        ctx.case(sub, extra, ok, nontrivial=nontrivial, field="est_x", ratio=e / tol_x, observed=_brief(flt.est_x),
                 expected=_brief(ref["est_x"]), tag=None if ok else tag_for("est_x", tol_x, vec=True))
        ctx.case(sub + "_bookkeeping", extra, flt.source == EstimateSource.INTERNAL_OBSERVATION, nontrivial=nontrivial,
                 field="source", observed=str(flt.source))
    ctx.res.observe(np.asarray(flt.est_p, dtype=float), np.asarray(flt.kalman_gain, dtype=float))


def check_noobs(ctx, flt, pre, extra, nontrivial):
    """flt has just executed update([]): the estimate is the propagated mean, the covariance the predicted one."""
    n = ctx.sys.n
    # linear system: propagated mean == F x == pred_x; tolerance of the weighted mean
    e = kf.vec_err(flt.est_x, pre["pred_x"])
    ctx.case("noobs", extra, e <= ctx.tol.mean, nontrivial=nontrivial, field="est_x", ratio=e / ctx.tol.mean,
             observed=_brief(flt.est_x), expected=_brief(pre["pred_x"]))
    ctx.case("noobs", extra, _exact(flt.est_x, pre["sigma_points"][:, 0]) and np.asarray(flt.est_x).shape == (n,),
             nontrivial=nontrivial, field="est_x_is_centre_point")
    ctx.case("noobs", extra, _exact(flt.est_p, pre["pred_p"]), nontrivial=nontrivial, field="est_p",
             observed=_brief(flt.est_p), expected=_brief(pre["pred_p"]))
    ctx.case("noobs", extra, flt.source == EstimateSource.INTERNAL_PROPAGATION, nontrivial=nontrivial, field="source",
             observed=str(flt.source))
    ctx.case("noobs", extra, _exact(flt.pred_x, pre["pred_x"]) and _exact(flt.pred_p, pre["pred_p"]) and
             float(flt.time) == pre["time"], nontrivial=nontrivial, field="prior_untouched")


SNAP_FIELDS = ["est_x", "est_p", "pred_x", "pred_p", "sigma_points", "sigma_x_res", "innovation"]


def snapshot(flt):
    s = {k: np.array(getattr(flt, k), copy=True) for k in SNAP_FIELDS}
    s["time"] = float(flt.time)
    s["source"] = flt.source
    return s


def _same_value(a, b):
    if isinstance(a, np.ndarray) or isinstance(b, np.ndarray):
        return _exact(a, b)
    if isinstance(a, float) and isinstance(b, float) and math.isnan(a) and math.isnan(b):
        return True
    return a == b


RESULT_CLASSES = {"P": UKFPredictResult, "U": UKFUpdateResult, "F": UKFForecastResult}


def mirror_step(ctx, mirror, direct, opk, arg, extra, nontrivial):
    """What the job queue does: run the operation on a pickled copy, ship the result object, apply it to the owner.
    The owner (mirror) must then hold exactly what the directly driven filter holds, for every field of the result."""
    worker = pickle.loads(pickle.dumps(mirror))
    if opk == "P":
        worker.predict(arg)
        result = worker.getPredictionResult()
    elif opk == "U":
        worker.update(arg)
        result = worker.getUpdateResult()
    else:
        worker.forecast(arg)
        result = worker.getForecastResult()
    result = pickle.loads(pickle.dumps(result))
    mirror.applyFilterResult(result)
    import dataclasses  # noqa: PLC0415

    names = [f.name for f in dataclasses.fields(result)]
    bad = [nm for nm in names if not _same_value(getattr(mirror, nm), getattr(direct, nm))]
    ctx.case("results_apply", extra, type(result) is RESULT_CLASSES[opk] and not bad, nontrivial=nontrivial,
             field=f"{opk}_result", observed={"type": type(result).__name__, "fields_differing": bad})
    need = {
        "P": {"time", "est_x", "est_p", "pred_x", "pred_p", "sigma_points", "sigma_x_res"},
        "F": {"is_angular", "mean_pred_y", "r_matrix", "cross_cvr", "innov_cvr", "kalman_gain", "est_p",
              "sigma_points", "sigma_y_res"},
    }
    need["U"] = need["F"] | {"est_x", "innovation", "nis", "source", "maneuver_metric", "maneuver_detected"}
    ctx.case("results_apply", extra, need[opk] <= set(names), nontrivial=nontrivial, field=f"{opk}_result_fields",
             observed=sorted(need[opk] - set(names)))


# ------------------------------------------------------------------------------------------------ sweeps
def _apply_op(ctx, op, direct, mirror, orc, stacks, extra, nontrivial, *, repeat=False):
    """Execute one operation on the directly driven filter, check it, replay it through the result path.

    ``repeat``: the sequence ending here was already explored by another family of the same context: it is executed and
    judged again (it is a prefix of longer sequences) but counted neither as non-trivial nor as a new transition."""
    pre = snapshot(direct)
    if op in PREDICT_WINDOWS:  # "P" = one step; family (H): "P0" / "P2" / "P3" = a window of 0 / 2 / 3 steps
        t1 = ScenarioTime(pre["time"] + PREDICT_WINDOWS[op] * DT)
        direct.predict(t1)
        orc = check_predict(ctx, direct, pre, extra, nontrivial, steps=PREDICT_WINDOWS[op])
        mirror_step(ctx, mirror, direct, "P", t1, extra, nontrivial)
    elif op == "U0":
        direct.update([])
        check_noobs(ctx, direct, pre, extra, nontrivial)
        mirror_step(ctx, mirror, direct, "U", [], extra, nontrivial)
    else:
        comp = stacks[op[1]]
        stack = ctx.sys.stack(comp)
        nt = (nontrivial or len(comp) >= 2) and not repeat
        if op[0] == "U":
            direct.update(stack)
            check_measurement_step(ctx, direct, pre, orc, stack, extra, nt, forecast_only=False)
            mirror_step(ctx, mirror, direct, "U", ctx.sys.stack(comp), extra, nt)
        else:
            direct.forecast(stack)
            check_measurement_step(ctx, direct, pre, orc, stack, extra, nt, forecast_only=True)
            mirror_step(ctx, mirror, direct, "F", ctx.sys.stack(comp), extra, nt)
    if not repeat:
        ctx.res.transitions += 1
    return orc


def _guarded_op(ctx, op, parent, d2, m2, orc, stacks, extra, nontrivial, *, repeat=False):
    """Apply ``op`` to the copies (d2, m2) of the filters of ``parent``; returns the oracle memory, or None when the
    branch cannot be expanded (either-way refusal or a violation, both already recorded)."""
    try:
        return _apply_op(ctx, op, d2, m2, dict(orc), stacks, extra, nontrivial, repeat=repeat)
    except np.linalg.LinAlgError as exc:
        # cholesky refuses an estimate covariance that is not positive definite at working precision.  That is the
        # documented behaviour, and it is reached legitimately when a (near) perfect measurement of an enormous
        # prior leaves P- - K S K^T within rounding of singular (loss of definiteness beyond the tolerance was
        # already judged by cov_psd at the update).  Either-way, branch not expanded.  Anything else is a violation.
        low = np.tril(parent.est_p) + np.tril(parent.est_p, -1).T
        dd = np.sqrt(np.abs(np.diag(low)))
        if op in PREDICT_WINDOWS and kf.scaled_min_eig(low, np.where(dd > 0, dd, 1.0)) < 1e-12:
            ctx.res.either_way += 1
            ctx.case("sequence", extra, True, nontrivial=False, field="predict_from_numerically_singular_estimate")
        else:
            ctx.case("sequence", extra, False, nontrivial=nontrivial, field=f"exception_{type(exc).__name__}",
                     observed=str(exc)[:200])
    except Exception as exc:  # noqa: BLE001
        ctx.case("sequence", extra, False, nontrivial=nontrivial, field=f"exception_{type(exc).__name__}",
                 observed=str(exc)[:200])
    return None


def _tree(ctx, direct, mirror, orc, stacks, seq, depth):
    """Depth-first exploration of every operation sequence extending ``seq`` up to ``depth`` operations."""
    ctx.res.states += 1
    ctx.res.traces += 1  # every node is one operation sequence validated against the reference, step by step
    ctx.res.extra["operation_sequences"] = ctx.res.extra.get("operation_sequences", 0) + 1
    if len(seq) == depth:
        return
    blob = pickle.dumps((direct, mirror))
    for op in OPS:
        d2, m2 = pickle.loads(blob)
        seq2 = seq + [op]
        extra = {"sequence": ".".join(seq2), "stack_a": list(stacks["a"]), "stack_b": list(stacks["b"])}
        nontrivial = ctx.resample or len(seq2) >= 2
        orc2 = _guarded_op(ctx, op, direct, d2, m2, orc, stacks, extra, nontrivial)
        if orc2 is not None:
            _tree(ctx, d2, m2, orc2, stacks, seq2, depth)


# ------------------------------------------------------------------------------------------------ (C) step histories
# What the estimate agent does to one filter object over consecutive time steps.  A *step* is a prediction followed by
# one body: nothing (a second prediction follows: propagation in two legs), update with no observations (not tasked),
# forecast only (considered by tasking, then propagated again), forecast then update with no observations (considered,
# not observed), forecast then observed update (considered and observed), observed update alone; the thorough tier adds
# two candidate forecasts before either kind of update.  Every history of ``steps`` such steps is followed by a probe
# step (a prediction, then nothing | observed update | forecast | forecast and observed update) and the whole family is
# walked as a prefix tree, so each operation of each history - not only the probe - is judged against the Kalman
# filter started from the state the filter held, and replayed through the result objects.  Anything one of predict /
# forecast / update(no obs) / update(obs) leaves behind in the object (a marker, a cached factor, a stale residual or
# measurement block) has to survive at most one full intermediate step to reach an operation of every kind here.
STEP_BODIES_Q = [(), ("U0",), ("F",), ("F", "U0"), ("F", "U"), ("U",)]
STEP_BODIES_T = STEP_BODIES_Q + [("F", "F", "U0"), ("F", "F", "U")]
PROBE_BODIES = [(), ("U",), ("F",), ("F", "U")]


def _step_ops(body, k):
    """Operations of step number k (0-based).  The stacks swap with the step parity: on even steps forecasts take the
    single observation (a) and observed updates the 3-observation stack (b), on odd steps the other way round, and the
    second forecast of a step takes the update's stack: forecast and update inside a step, and like operations of
    consecutive steps, never have the same measurement dimension (a block kept from the earlier call cannot fit)."""
    first, second = ("a", "b") if k % 2 == 0 else ("b", "a")
    out, forecasts = ["P"], 0
    for letter in body:
        if letter == "F":
            out.append("F" + (first if forecasts == 0 else second))
            forecasts += 1
        elif letter == "U":
            out.append("U" + second)
        else:
            out.append("U0")
    return out


@functools.lru_cache(maxsize=None)
def _histories(bodies, steps):
    """Every history of ``steps`` steps with bodies from ``bodies`` followed by one probe step, as tuples of operations
    (the prediction of step 0 is the root of the exploration and is left out)."""
    out = []
    for combo in itertools.product(bodies, repeat=steps):
        for probe in PROBE_BODIES:
            ops = []
            for k, body in enumerate(combo + (probe,)):
                ops += _step_ops(body, k)
            out.append(tuple(ops[1:]))
    return out


def _trie(seqs):
    root: dict = {}
    for s in seqs:
        node = root
        for op in s:
            node = node.setdefault(op, {})
    return root


def _trie_stats(node, depth=1):
    """(number of nodes below this one, length in operations of the longest sequence incl. the root prediction)"""
    count, longest = 0, depth
    for child in node.values():
        c, l = _trie_stats(child, depth + 1)
        count += 1 + c
        longest = max(longest, l)
    return count, longest


def _history_plan(tier, n, fk, pk, ti):
    """(step bodies, number of steps before the probe step) for tuning index ti of a system: two steps for one tuning
    per system in the quick tier (rotating with n, F kind and P kind; on a linear system nothing here depends on the
    tuning) and for two of the six in the thorough tier (the ones after the depth-4 tunings), one step for the others."""
    if tier == "quick":
        return tuple(STEP_BODIES_Q), 2 if ti == (n + fk + pk + 2) % len(TUNINGS_Q) else 1
    return tuple(STEP_BODIES_T), 2 if (ti - n - fk) % 3 == 1 else 1


def _walk(ctx, direct, mirror, orc, stacks, seq, node, tree_depth):
    """Depth-first walk of the prefix tree ``node`` of step histories below the sequence ``seq``."""
    if not node:
        return
    blob = pickle.dumps((direct, mirror))
    for op, child in node.items():
        d2, m2 = pickle.loads(blob)
        seq2 = seq + [op]
        # a sequence that explorer (B) of this context has walked already is executed and judged again (it is a prefix
        # of the longer ones) but not counted again
        repeat = len(seq2) <= tree_depth and all(o in OPS for o in seq2)
        extra = {"sequence": ".".join(seq2), "family": "step_history", "stack_a": list(stacks["a"]),
                 "stack_b": list(stacks["b"])}
        orc2 = _guarded_op(ctx, op, direct, d2, m2, orc, stacks, extra, not repeat, repeat=repeat)
        if orc2 is None:
            continue
        if not repeat:
            ctx.res.states += 1
            ctx.res.traces += 1
            ctx.res.extra["operation_sequences"] = ctx.res.extra.get("operation_sequences", 0) + 1
            ctx.res.extra["step_history_sequences"] = ctx.res.extra.get("step_history_sequences", 0) + 1
        _walk(ctx, d2, m2, orc2, stacks, seq2, child, tree_depth)


def _seq_stacks(n, seed):
    singles = [c for c in ALL_COMPS if len(c) == 1]
    triples = [c for c in ALL_COMPS if len(c) == 3 and len(set(c)) >= 2]
    return {"a": singles[(n + seed) % len(singles)], "b": triples[(5 * n + seed) % len(triples)]}


def _run_lin(res, item):
    _, n, fk, pk, qk, rk, seed, tier = item
    sysm = System(n, fk, pk, qk, rk, seed)
    stacks = _seq_stacks(n, seed)
    for ti, tuning in enumerate(_tunings(tier)):
        full = tier != "quick" or ti == (n + fk + pk) % len(TUNINGS_Q)
        comps = ALL_COMPS if full else CORE_COMPS
        for resample in (False, True):
            ctx = Ctx(res, sysm, tuning, resample, item)
            # ---------------- (A) one prediction, then every stack composition
            flt = sysm.make_filter(tuning, resample)
            pre = snapshot(flt)
            flt.predict(ScenarioTime(DT))
            extra = {"sequence": "P"}
            orc = check_predict(ctx, flt, pre, extra, resample, sub="predict")
            pres = pickle.loads(pickle.dumps(flt.getPredictionResult()))
            res.observe(np.asarray(flt.pred_x, dtype=float), np.asarray(flt.pred_p, dtype=float))
            for ci, comp in enumerate(comps):
                owner = sysm.make_filter(tuning, resample)
                owner.applyFilterResult(pres)
                nt = resample or len(comp) >= 2
                res.extra["stack_runs"] = res.extra.get("stack_runs", 0) + 1
                try:
                    if ci % 2 == 0:
                        extra = {"sequence": "P.F.U", "stack": list(comp)}
                        pre_u = snapshot(owner)
                        stack = sysm.stack(comp)
                        owner.forecast(stack)
                        check_measurement_step(ctx, owner, pre_u, orc, stack, extra, nt, forecast_only=True)
                    else:
                        extra = {"sequence": "P.U", "stack": list(comp)}
                    pre_u = snapshot(owner)
                    stack = sysm.stack(comp)
                    owner.update(stack)
                    check_measurement_step(ctx, owner, pre_u, orc, stack, extra, nt, forecast_only=False)
                except Exception as exc:  # noqa: BLE001
                    ctx.case("update", extra, False, nontrivial=nt, field=f"exception_{type(exc).__name__}",
                             observed=str(exc)[:200])
            # ---------------- (G) carry-over across observed steps: four consecutive steps whose stacks have the SAME total
            # dimension (3) but different blocks / noise matrices, on one filter object driven directly, and on an owner
            # whose predictions come back from a worker copy as result objects while its updates run on the owner itself
            # (what an agent does when only the propagation is farmed out): anything predict / update leave behind that is
            # not part of the result object, or a block kept because its size still fits, shows from the second step on
            g_direct, g_mixed = sysm.make_filter(tuning, resample), sysm.make_filter(tuning, resample)
            for k, comp in enumerate(((2, 1), (1, 2), (3,), (1, 1, 1))):
                extra = {"sequence": "carry_over", "step": k, "stack": list(comp)}
                try:
                    pre = snapshot(g_direct)
                    t1 = ScenarioTime(pre["time"] + DT)
                    g_direct.predict(t1)
                    orc_g = check_predict(ctx, g_direct, pre, extra, True, sub="predict")
                    worker = pickle.loads(pickle.dumps(g_mixed))
                    worker.predict(t1)
                    g_mixed.applyFilterResult(pickle.loads(pickle.dumps(worker.getPredictionResult())))
                    pre_u = snapshot(g_direct)
                    stack = sysm.stack(comp)
                    g_direct.update(stack)
                    check_measurement_step(ctx, g_direct, pre_u, orc_g, stack, extra, True, forecast_only=False)
                    g_mixed.update(sysm.stack(comp))
                    bad = [nm for nm in ("est_x", "est_p", "pred_x", "pred_p", "innov_cvr", "kalman_gain", "r_matrix", "innovation")
                           if not _same_value(getattr(g_mixed, nm), getattr(g_direct, nm))]
                    ctx.case("results_apply", extra, not bad, nontrivial=True, field="prediction_by_result_update_on_owner",
                             observed={"fields_differing": bad})
                    res.transitions += 2
                except Exception as exc:  # noqa: BLE001
                    ctx.case("update", extra, False, nontrivial=True, field=f"exception_{type(exc).__name__}", observed=str(exc)[:200])
                    break
            # ---------------- (B) every operation sequence up to the depth, as a tree rooted at one prediction
            direct = sysm.make_filter(tuning, resample)
            mirror = sysm.make_filter(tuning, resample)
            extra = {"sequence": "P", "stack_a": list(stacks["a"]), "stack_b": list(stacks["b"])}
            orc = _apply_op(ctx, "P", direct, mirror, {}, stacks, extra, resample)
            _tree(ctx, direct, mirror, orc, stacks, ["P"], _depth(tier, n, fk, ti))
            # ---------------- (C) every step history of the plan, as a prefix tree rooted at the same prediction
            bodies, steps = _history_plan(tier, n, fk, pk, ti)
            _walk(ctx, direct, mirror, orc, stacks, ["P"], _trie(_histories(bodies, steps)), _depth(tier, n, fk, ti))


# ------------------------------------------------------------------------------------------------ (H) prediction windows
# Families (A)-(G) only ever ask predict() for the ordinary single step.  The agents ask for whatever the clock says:
# two batches of observations that carry the same time stamp are processed one after the other (the second prediction
# goes to the epoch the filter already sits at: a window of 0 steps, also the first prediction of a filter created at
# the epoch of its first observations), and a target that was not propagated for some steps is caught up in one call
# (a window of 2, 3 steps).  On the linear stub the Kalman prediction over a window of k steps is F^k x, F^k P F^k^T + Q,
# whatever k is; in particular k = 0 gives (x, P + Q) AND a sigma-point set drawn around the estimate the filter holds
# now, which the following update(no obs) / no-redraw update / forecast work from.  A history here is
#     window prediction . body . window prediction . probe body
# on a fresh filter object, walked as a prefix tree exactly like (C): every operation of every history is judged against
# the Kalman filter started from the state the filter held (check_predict with the window's F^k; the measurement
# oracles are the ones of (A)-(C)) and replayed through the result objects.  The first window prediction meets the
# freshly constructed object (no sigma points yet), the second one meets whatever each body left behind (propagated
# points of another epoch, a redrawn set, measurement blocks of either dimension, an observed / propagated estimate).
WINDOW_OPS = ["P0", "P", "P2", "P3"]
WINDOW_PROBES_Q = [(), ("U0",), ("U",), ("F", "U")]
WINDOW_PROBES_T = WINDOW_PROBES_Q + [("F",), ("F", "U0")]


def _window_long_op(n, fk):
    """Quick tier: the long first window of a system is 2 or 3 steps, alternating with n + F kind."""
    return "P2" if (n + fk) % 2 == 0 else "P3"


def _window_alphabet(tier, n, fk):
    """(first windows, step bodies, second windows, probe bodies) of the histories of one system."""
    if tier == "quick":
        return ("P0", "P", _window_long_op(n, fk)), tuple(STEP_BODIES_Q), tuple(WINDOW_OPS), tuple(WINDOW_PROBES_Q)
    return tuple(WINDOW_OPS), tuple(STEP_BODIES_T), tuple(WINDOW_OPS), tuple(WINDOW_PROBES_T)


@functools.lru_cache(maxsize=None)
def _window_histories(firsts, bodies, seconds, probes):
    """Every history first window . body . second window . probe body as a tuple of operations.  Stacks by the step
    parity as in (C): forecast a / observed update b in the first step, swapped in the second."""
    out = []
    for w1 in firsts:
        for body in bodies:
            for w2 in seconds:
                for probe in probes:
                    out.append(tuple([w1] + _step_ops(body, 0)[1:] + [w2] + _step_ops(probe, 1)[1:]))
    return out


def _window_contexts(tier, n, fk):
    """(tuning index, (P kind, Q kind, R kind)) pairs of one (n, F kind) system: nothing in a prediction window depends
    on the tuning or the covariance kinds beyond what (A)-(C) sweep, so they rotate: quick = two pairs per system,
    thorough = every tuning, each with its own triple of the 16-run array."""
    kinds = _kinds(tier)
    if tier == "quick":
        return [((n + fk + 2 * j) % len(TUNINGS_Q), kinds[(n + 2 * fk + j + (n > 4)) % len(kinds)]) for j in range(2)]
    return [(ti, kinds[(n + 4 * fk + 3 * ti) % len(kinds)]) for ti in range(len(TUNINGS_T))]


def _walk_windows(ctx, direct, mirror, orc, stacks, seq, node):
    """Depth-first walk of the prefix tree ``node`` of prediction-window histories below the sequence ``seq``."""
    if not node:
        return
    blob = pickle.dumps((direct, mirror))
    for op, child in node.items():
        d2, m2 = pickle.loads(blob)
        seq2 = seq + [op]
        # a sequence whose predictions are all ordinary single steps belongs to (B) / (C): it is executed and judged
        # again (it is a prefix of the longer ones) but counted neither as non-trivial nor as a new transition
        repeat = all(PREDICT_WINDOWS.get(o, 1) == 1 for o in seq2)
        extra = {"sequence": ".".join(seq2), "family": "prediction_windows", "stack_a": list(stacks["a"]),
                 "stack_b": list(stacks["b"])}
        orc2 = _guarded_op(ctx, op, direct, d2, m2, orc, stacks, extra, not repeat, repeat=repeat)
        if orc2 is None:
            continue
        if not repeat:
            ctx.res.states += 1
            ctx.res.traces += 1
            ctx.res.extra["operation_sequences"] = ctx.res.extra.get("operation_sequences", 0) + 1
            ctx.res.extra["prediction_window_sequences"] = ctx.res.extra.get("prediction_window_sequences", 0) + 1
        _walk_windows(ctx, d2, m2, orc2, stacks, seq2, child)


def _run_window(res, item):
    _, n, fk, seed, tier = item
    stacks = _seq_stacks(n, seed)
    trie = _trie(_window_histories(*_window_alphabet(tier, n, fk)))
    tunings = _tunings(tier)
    for ti, (pk, qk, rk) in _window_contexts(tier, n, fk):
        sysm = System(n, fk, pk, qk, rk, seed)
        for resample in (False, True):
            ctx = Ctx(res, sysm, tunings[ti], resample, item)
            ctx.family = "prediction_windows"
            direct = sysm.make_filter(tunings[ti], resample)
            mirror = sysm.make_filter(tunings[ti], resample)
            _walk_windows(ctx, direct, mirror, {}, stacks, [], trie)


# ------------------------------------------------------------------------------------------------ (D), (E) number types
# (D) one prediction, then update(stack) for every value kind of VALUE_KINDS x stack composition below: the numbers are
# the same whole / non-whole values throughout, only their Python / numpy type and container change.
# (E) the filter's own inputs (initial estimate, initial covariance, Q, R) handed over as integer arrays holding whole
# numbers, one at a time and all together, followed through a fixed operation sequence.
DTYPE_COMPS_Q = [(1,), (3,), (2, 1, 3), (4, 4), (1, 1, 1, 1), (2, 2)]
DTYPE_COMPS_T = DTYPE_COMPS_Q + [(2,), (4,), (1, 2), (4, 1), (3, 1, 2), (1, 2, 1, 3), (2, 2, 2, 2), (1, 1, 1)]
INPUT_CASTS = [
    ("float64", {}, None),
    ("x0_int64", {"x0": np.int64}, None), ("x0_int32", {"x0": np.int32}, None),
    ("p0_int64", {"p0": np.int64}, None), ("p0_int32", {"p0": np.int32}, None),
    ("q_int64", {"q": np.int64}, None), ("q_int32", {"q": np.int32}, None),
    ("r_int64", {}, np.int64), ("r_int32", {}, np.int32),
    ("all_int64", {"x0": np.int64, "p0": np.int64, "q": np.int64}, np.int64),
    ("all_int32", {"x0": np.int32, "p0": np.int32, "q": np.int32}, np.int32),
]
INPUT_VALUE_KINDS = ["np_float64", "py_int", "whole_float", "np_int32"]  # with float64 / all-integer inputs
INPUT_VALUE_KINDS_SINGLE = ["np_float64", "py_int"]  # with one integer-typed input
INPUT_SEQUENCE = ["P", "Ub", "P", "Ua", "P", "U0", "P", "Fb", "Ua", "P", "Fa", "Ub"]


def _dtype_tunings(tier, n, k):
    """Quick: two of the four tunings per system, rotating with n and the system number; thorough: all six."""
    if tier != "quick":
        return list(TUNINGS_T)
    return [TUNINGS_Q[(n + k) % 4], TUNINGS_Q[(n + k + 2) % 4]]


def _dtype_systems(n, seed):
    """Two systems per state dimension: well-conditioned full matrices, and rotating kinds (diagonal / ill-conditioned)."""
    return [((n + seed) % 4, 2, 1, 2), ((n + seed + 1) % 4, 3 if n % 2 else 1, (n + 2) % 4, (n + 3) % 4)]


def _run_dtype(res, item):
    _, n, seed, tier = item
    comps = DTYPE_COMPS_Q if tier == "quick" else DTYPE_COMPS_T
    for k, (fk, pk, qk, rk) in enumerate(_dtype_systems(n, seed)):
        sysm = System(n, fk, pk, qk, rk, seed)
        for tuning in _dtype_tunings(tier, n, k):
            for resample in (False, True):
                ctx = Ctx(res, sysm, tuning, resample, item)
                sysm.value_kind = None
                flt = sysm.make_filter(tuning, resample)
                pre = snapshot(flt)
                flt.predict(ScenarioTime(DT))
                ctx.family = "number_types"
                orc = check_predict(ctx, flt, pre, {"sequence": "P", "family": "number_types"}, False)
                pres = pickle.loads(pickle.dumps(flt.getPredictionResult()))
                for comp in comps:
                    for kind in VALUE_KINDS:
                        sysm.value_kind = kind
                        ctx.family = kind
                        extra = {"sequence": "P.U", "stack": list(comp), "values": kind, "family": "number_types"}
                        nt = kind != "np_float64"
                        owner = sysm.make_filter(tuning, resample)
                        owner.applyFilterResult(pres)
                        mirror = pickle.loads(pickle.dumps(owner))
                        res.extra["number_type_runs"] = res.extra.get("number_type_runs", 0) + 1
                        try:
                            pre_u = snapshot(owner)
                            stack = sysm.stack(comp)
                            owner.update(stack)
                            check_measurement_step(ctx, owner, pre_u, orc, stack, extra, nt, forecast_only=False)
                            mirror_step(ctx, mirror, owner, "U", sysm.stack(comp), extra, nt)
                            # the estimate is a floating-point vector whatever the measured values were typed as
                            kind_ok = np.asarray(owner.est_x).dtype.kind == "f" and np.asarray(owner.innovation).dtype.kind == "f"
                            ctx.case("update", extra, kind_ok, nontrivial=nt, field="floating_estimate",
                                     observed=[str(np.asarray(owner.est_x).dtype), str(np.asarray(owner.innovation).dtype)])
                        except Exception as exc:  # noqa: BLE001
                            if not _raised_in_library(exc):
                                raise
                            ctx.case("update", extra, False, nontrivial=nt, field=f"exception_{type(exc).__name__}",
                                     observed=str(exc)[:200])
                sysm.value_kind = None


def _whole_cov(kind, n, phase, reverse=False):
    """Symmetric positive-definite matrix of the named kind whose entries are whole numbers (exact in float64, int32)."""
    if kind == 0:
        return np.eye(n)
    d = np.arange(1, n + 1, dtype=float)
    if kind == 1:
        return np.diag(d[::-1] if reverse else d)
    g = np.round(2.0 * kf.halton_matrix(n, n + 2, 5 + 7 * (phase % 89)))  # entries in {-2, .., 2}
    m = g @ g.T + 2.0 * np.eye(n)
    if kind == 2:
        return m
    s = 10.0 ** (np.arange(n) % 4)  # standard deviations 1 .. 1000: entries below 2^31
    if reverse:
        s = s[::-1]
    return m * np.outer(s, s)


class WholeSystem(System):
    """The same alphabet of systems with whole-number x0, P0, Q, R (so that integer arrays hold the same numbers)."""

    def __init__(self, n, fk, pk, qk, rk, seed):
        super().__init__(n, fk, pk, qk, rk, seed)
        ph = seed % 1000
        self.p0 = _whole_cov(pk, n, ph)
        self.q = _whole_cov(qk, n, ph + 1, reverse=True)
        x = np.round(2.0 * self.x0)
        self.x0 = np.where(x == 0.0, 1.0, x)

    def _make_r(self, j, d):
        return _whole_cov(self.rk, d, self.seed % 1000 + 2 + j)


def _run_intinputs(res, item):
    _, n, seed, tier = item
    stacks = _seq_stacks(n, seed)
    for k, (fk, pk, qk, rk) in enumerate(_dtype_systems(n, seed)):
        sysm = WholeSystem(n, fk, pk, qk, rk, seed)
        for tuning in _dtype_tunings(tier, n, k):
            for resample in (False, True):
                for name, casts, r_dtype in INPUT_CASTS:
                    single = len(casts) + (r_dtype is not None) == 1
                    for kind in INPUT_VALUE_KINDS_SINGLE if single else INPUT_VALUE_KINDS:
                        sysm.casts, sysm.r_dtype, sysm.value_kind = dict(casts), r_dtype, kind
                        ctx = Ctx(res, sysm, tuning, resample, item)
                        ctx.family = f"inputs_{name}"
                        direct = sysm.make_filter(tuning, resample)
                        mirror = sysm.make_filter(tuning, resample)
                        nt = bool(casts) or r_dtype is not None or kind != "np_float64"
                        orc, seq = {}, []
                        res.extra["input_type_runs"] = res.extra.get("input_type_runs", 0) + 1
                        for op in INPUT_SEQUENCE:
                            seq.append(op)
                            extra = {"sequence": ".".join(seq), "family": "input_types", "inputs": name, "values": kind,
                                     "stack_a": list(stacks["a"]), "stack_b": list(stacks["b"])}
                            orc = _guarded_op(ctx, op, direct, direct, mirror, orc, stacks, extra, nt)
                            if orc is None:
                                break
                            res.states += 1
                        res.traces += 1
        sysm.casts, sysm.r_dtype, sysm.value_kind = {}, None, None


# ------------------------------------------------------------------------------------------------ weights
def _run_weights(res, item):
    _, seed, tier = item
    tunings = list(_tunings(tier)) + [(0.25, 0.0, None), (1.0, 2.0, 0.0), (0.01, 3.0, 2.0)]
    for n in range(1, 9):
        sysm = System(n, 0, 0, 0, 0, seed)
        for tuning in tunings:
            a, b, k = _tuning_numbers(n, tuning)
            flt = sysm.make_filter(tuning, False)
            lam, gamma, wm, wc = kf.ut_weights(n, a, b, k)
            case = {"n": n, "tuning": [str(t) for t in tuning]}
            nt = tuning[2] is None or a < 1.0
            kw = float(np.sum(np.abs(wm)))
            tol = 16 * EPS * kw  # rounding of a (2n+1)-term sum whose terms are as large as sum|w|
            mw = np.asarray(flt.mean_weight, dtype=float)
            cw = np.asarray(flt.cvr_weight, dtype=float)
            res.case("weights_sum_mean", case, mw.shape == (2 * n + 1,) and abs(float(np.sum(mw)) - 1.0) <= tol,
                     nontrivial=nt, signature="C06/weights/sum_mean", observed=float(np.sum(mw)), expected=1.0, item=item)
            want = 1.0 + (1.0 - a * a + b)
            diag_only = cw.shape == (2 * n + 1, 2 * n + 1) and _exact(cw, np.diag(np.diag(cw)))
            res.case("weights_sum_cov", case, diag_only and abs(float(np.sum(cw)) - want) <= tol + 4 * EPS * want,
                     nontrivial=nt, signature="C06/weights/sum_cov", observed=float(np.sum(cw)), expected=want, item=item)
            ok = (
                diag_only
                and mw.shape == wm.shape
                and np.max(np.abs(mw - wm)) <= 4 * EPS * np.max(np.abs(wm))
                and np.max(np.abs(np.diag(cw) - wc)) <= 4 * EPS * np.max(np.abs(wc))
                and abs(flt.gamma - gamma) <= 4 * EPS * gamma
                and flt.num_sigmas == 2 * n + 1
                and flt.x_dim == n
            )
            res.case("weights_closed_form", case, ok, nontrivial=nt, signature="C06/weights/closed_form",
                     observed={"w0": float(mw[0]), "wi": float(mw[-1]), "wc0": float(cw[0, 0]), "gamma": float(flt.gamma)},
                     expected={"w0": float(wm[0]), "wi": float(wm[-1]), "wc0": float(wc[0]), "gamma": gamma}, item=item)
            ep = flt.extra_parameters
            res.case("weights_closed_form", case,
                     ep == {"alpha": a, "beta": b, "kappa": (None if tuning[2] is None else k), "resample": False},
                     nontrivial=nt, signature="C06/weights/extra_parameters", observed=str(ep), item=item)
            res.observe(mw, cw)
            # the configuration path builds the same filter (duck-typed config object: alpha = 1 is admissible for the
            # constructor although the config schema itself wants alpha < 1)
            for resample, iod, mmae in ((False, False, False), (True, True, False), (True, False, True)):
                cfg = SimpleNamespace(initial_orbit_determination=iod, adaptive_estimation=mmae, resample=resample,
                                      alpha=a, beta=b, kappa=None if tuning[2] is None else k)
                det = Detector(False)
                f2 = UnscentedKalmanFilter.fromConfig(cfg, 10002, ScenarioTime(120.0), sysm.x0.copy(), sysm.p0.copy(),
                                                      LinDyn(sysm.f), sysm.q.copy(), det)
                ok = (
                    isinstance(f2, UnscentedKalmanFilter) and _exact(f2.mean_weight, mw) and _exact(f2.cvr_weight, cw)
                    and f2.gamma == flt.gamma and f2.target_id == 10002 and float(f2.time) == 120.0
                    and f2.initial_orbit_determination is iod and f2.adaptive_estimation is mmae
                    and f2.maneuver_detection is det and _exact(f2.est_x, sysm.x0) and _exact(f2.est_p, sysm.p0)
                    and _exact(f2.q_matrix, sysm.q)
                    and f2.extra_parameters == {"alpha": a, "beta": b, "kappa": cfg.kappa, "resample": resample}
                )
                # behaviour of the resample switch: forecast redraws the sigma points iff it is on
                f2.predict(ScenarioTime(180.0))
                before = np.array(f2.sigma_points, copy=True)
                f2.forecast(sysm.stack((1,)))
                redrawn = not _exact(f2.sigma_points, before)
                res.case("weights_from_config", dict(case, resample=resample, iod=iod, mmae=mmae), ok and redrawn is resample,
                         nontrivial=nt, signature="C06/weights/from_config", observed={"fields_ok": ok, "redrawn": redrawn},
                         item=item)


# ------------------------------------------------------------------------------------------------ sigma points
def _msqrt_sym(m):
    w, v = np.linalg.eigh(m)
    return (v * np.sqrt(w)) @ v.T


def _run_sigma(res, item):
    _, seed, tier = item
    from numpy.linalg import LinAlgError  # noqa: PLC0415

    for n in range(1, 9):
        for ck in range(4):
            sysm = System(n, 0, ck, 0, 0, seed)
            for tuning in _tunings(tier):
                flt = sysm.make_filter(tuning, False)
                a, b, k = _tuning_numbers(n, tuning)
                _, gamma, wm, wc = kf.ut_weights(n, a, b, k)
                cov = sysm.p0
                mean = sysm.x0 + 0.25
                d = np.sqrt(np.diag(cov))
                for sq_name, sq in (("cholesky", None), ("symmetric_root", _msqrt_sym)):
                    pts = flt.generateSigmaPoints(mean, cov) if sq is None else flt.generateSigmaPoints(mean, cov, sqrt_func=sq)
                    case = {"n": n, "cov": kf.COV_KINDS[ck], "tuning": [str(t) for t in tuning], "sqrt": sq_name}
                    nt = ck >= 2 or sq is not None
                    shape_ok = pts.shape == (n, 2 * n + 1)
                    res.case("sigma_shape_centre", case, shape_ok and _exact(pts[:, 0], mean), nontrivial=nt,
                             signature="C06/sigma/shape_centre", observed=list(pts.shape), item=item)
                    if not shape_ok:
                        continue
                    # column i and column i + n are mirror images about the mean; one half is +gamma * root (the order
                    # of the halves is not part of the contract: either sign is accepted)
                    dev = pts - mean.reshape(n, 1)
                    # adding gamma*L to the mean rounds at eps*|mean|; dev of the two halves agree to that
                    rt = 8 * EPS * (float(np.max(np.abs(mean))) + gamma * float(np.max(d)))
                    mirror_ok = float(np.max(np.abs(dev[:, 1 : n + 1] + dev[:, n + 1 :]))) <= rt
                    root = dev[:, 1 : n + 1] / gamma
                    # cholesky: lower triangular with positive diagonal, in column order
                    if sq is None:
                        dg = np.diag(root)
                        order_ok = float(np.max(np.abs(np.triu(root, 1)))) <= rt / gamma and bool(np.all(dg > 0) or np.all(dg < 0))
                    else:  # custom root: the columns of sqrt_func(cov) are used as returned
                        want_root = sq(cov)
                        order_ok = min(float(np.max(np.abs(root - want_root))), float(np.max(np.abs(root + want_root)))) <= rt / gamma
                    res.case("sigma_layout", case, mirror_ok and order_ok, nontrivial=nt, signature="C06/sigma/layout",
                             observed={"mirror": mirror_ok, "order": order_ok}, item=item)
                    # the set reproduces mean and covariance under the filter's documented weights
                    tolm = 1e-11 + 8.0 * math.sqrt(2 * n + 1) * EPS * float(np.sum(np.abs(wm)))
                    e_mean = kf.vec_err(pts @ wm, mean)
                    # dev carries the eps*|mean| rounding of the sum; relative to gamma*sqrt(P_ii) that is rt/(gamma d)
                    tolc = 1e-9 + 4.0 * rt / (gamma * float(np.min(d)))
                    # (the eigen-decomposition root of this harness is only normwise accurate: moments via cholesky only)
                    e_cov = kf.scaled_err((dev * wc) @ dev.T, cov, d, d) if sq is None else 0.0
                    res.case("sigma_moments", case, e_mean <= tolm and e_cov <= tolc, nontrivial=nt,
                             signature="C06/sigma/moments", observed={"mean_err": e_mean, "cov_err": e_cov},
                             expected={"mean_tol": tolm, "cov_tol": tolc},
                             outcome=_bucket(max(e_mean / tolm, e_cov / tolc)), item=item)
                    res.observe(pts)
        # a covariance that is not positive definite: numpy's LinAlgError propagates unless the NearestPD debug flag is set
        if not BehavioralConfig.getConfig().debugging.NearestPD:
            sysm = System(n, 0, 0, 0, 0, seed)
            flt = sysm.make_filter(TUNINGS_Q[0], False)
            bad = np.eye(n)
            bad[n - 1, n - 1] = -1.0
            try:
                flt.generateSigmaPoints(sysm.x0, bad)
                raised = "no exception"
            except LinAlgError:
                raised = "LinAlgError"
            except Exception as exc:  # noqa: BLE001
                raised = type(exc).__name__
            res.case("sigma_not_pd", {"n": n}, raised == "LinAlgError", nontrivial=True, signature="C06/sigma/not_pd",
                     observed=raised, expected="LinAlgError", item=item)


# ------------------------------------------------------------------------------------------------ no observations, non-linear
def _run_noobs_nonlinear(res, item):
    """The clause 'a step without observations returns the propagated mean unchanged' made sharp: with a curved
    propagation the propagated estimate (centre point) and the weighted sigma-point mean differ visibly."""
    _, seed, tier = item
    for n in range(1, 9):
        for fk in range(4):
            sysm = System(n, fk, 2, 1, 0, seed)
            for tuning in _tunings(tier):
                for resample in (False, True):
                    flt = sysm.make_filter(tuning, resample, dyn=QuadDyn(sysm.f))
                    flt.predict(ScenarioTime(DT))
                    pred_p = np.array(flt.pred_p, copy=True)
                    flt.update([])
                    want = sysm.f @ sysm.x0 + 0.05 * sysm.x0 * sysm.x0
                    gap = kf.vec_err(flt.pred_x, want)
                    case = {"n": n, "F": kf.F_KINDS[fk], "tuning": [str(t) for t in tuning], "resample": resample}
                    res.case("noobs_nonlinear", case, kf.vec_err(flt.est_x, want) <= 1e-13 and _exact(flt.est_p, pred_p),
                             nontrivial=gap > 1e-4, signature="C06/noobs/propagated_mean_changed",
                             observed=_brief(flt.est_x), expected=_brief(want), outcome="gap>1e-4" if gap > 1e-4 else "gap small",
                             item=item)
                    res.observe(np.asarray(flt.est_x, dtype=float))


# ------------------------------------------------------------------------------------------------ bookkeeping
def _run_bookkeeping(res, item):
    _, seed, tier = item
    sysm = System(4, 3, 2, 1, 1, seed)
    tuning = TUNINGS_Q[0]
    comp = (2, 1)
    combos = [(False, False), (True, False), (False, True)]
    for resample in (False, True):
        for verdict in (None, False, True):
            for iod, mmae in combos:
                det = None if verdict is None else Detector(verdict)
                flt = sysm.make_filter(tuning, resample, maneuver_detection=det, initial_orbit_determination=iod,
                                       adaptive_estimation=mmae)
                case = {"resample": resample, "detector": str(verdict), "iod": iod, "mmae": mmae}
                init_ok = (
                    flt.source == EstimateSource.INITIALIZATION and flt.flags == FilterFlag.NONE and flt.x_dim == 4
                    and flt.target_id == 10001 and float(flt.time) == 0.0 and flt.maneuver_detected is False
                    and flt.maneuver_metric is None and _exact(flt.est_x, sysm.x0) and _exact(flt.est_p, sysm.p0)
                    and _exact(flt.q_matrix, sysm.q) and flt.pred_p.size == 0 and flt.pred_x.size == 0
                )
                res.case("bookkeeping_init", case, init_ok, nontrivial=True, signature="C06/bookkeeping/init", item=item)
                flt.predict(ScenarioTime(DT))
                flt.update(sysm.stack(comp))
                want = FilterFlag.NONE
                if verdict:
                    want |= FilterFlag.MANEUVER_DETECTION
                    if mmae:
                        want |= FilterFlag.ADAPTIVE_ESTIMATION_START
                    if iod:
                        want |= FilterFlag.INITIAL_ORBIT_DETERMINATION_START
                ok = flt.flags == want and flt.maneuver_detected is bool(verdict)
                ok = ok and (flt.maneuver_metric == 42.5 if verdict else flt.maneuver_metric is None)
                if det is not None:
                    ok = ok and det.args is not None and _exact(det.args[0], flt.innovation) and _exact(det.args[1], flt.innov_cvr)
                res.case("bookkeeping_maneuver_flags", case, ok, nontrivial=True, signature="C06/bookkeeping/maneuver_flags",
                         observed={"flags": str(flt.flags), "detected": flt.maneuver_detected, "metric": flt.maneuver_metric},
                         expected=str(want), item=item)
                ures = flt.getUpdateResult()
                res.case("bookkeeping_maneuver_flags", case,
                         type(ures) is UKFUpdateResult and getattr(ures, "maneuver_detected", None) is bool(verdict)
                         and getattr(ures, "source", None) == EstimateSource.INTERNAL_OBSERVATION,
                         nontrivial=True, signature="C06/bookkeeping/update_result", item=item)
                # the next predict / forecast clears the flags
                flt.forecast(sysm.stack(comp))
                f1 = flt.flags
                if verdict:
                    flt.update(sysm.stack(comp))
                flt.predict(ScenarioTime(2 * DT))
                res.case("bookkeeping_flags_cleared", case, f1 == FilterFlag.NONE and flt.flags == FilterFlag.NONE,
                         nontrivial=True, signature="C06/bookkeeping/flags_cleared", observed=[str(f1), str(flt.flags)], item=item)
                try:
                    flt.flags = 3
                    typed = False
                except TypeError:
                    typed = True
                res.case("bookkeeping_flags_cleared", case, typed, nontrivial=True, signature="C06/bookkeeping/flags_type", item=item)
    try:
        sysm.make_filter(tuning, False, initial_orbit_determination=True, adaptive_estimation=True)
        raised = False
    except ValueError:
        raised = True
    res.case("bookkeeping_init", {"iod": True, "mmae": True}, raised, nontrivial=True,
             signature="C06/bookkeeping/iod_and_mmae_rejected", item=item)


# ------------------------------------------------------------------------------------------------ process noise
class _RecordingRng:
    def __init__(self):
        self.args = None

    def multivariate_normal(self, mean, cov):
        self.args = (np.array(mean, copy=True), np.array(cov, copy=True))
        return np.asarray(mean) + 1.0


def _run_noise(res, item):
    _, seed, tier = item
    dts = [1.0, 0.5, 30.0, 60.0, 300.0, 7.0 + (seed % 13)]
    mags = [1.0, 1e-3, 2.5e-7, 3.0, 1e-10 * (1 + seed % 5)]
    if tier == "thorough":
        dts += [2.0, 10.0, 120.0, 450.0, 900.0, 3600.0]
        mags += [1e-5, 0.1, 17.0]
    builders = [
        ("discrete_white_noise", rnoise.discreteWhiteNoise, kf.discrete_white_noise_ref),
        ("continuous_white_noise", rnoise.continuousWhiteNoise, kf.continuous_white_noise_ref),
        ("simple_noise", rnoise.simpleNoise, kf.simple_noise_ref),
    ]
    for name, fn, ref_fn in builders:
        for dt in dts:
            for mag in mags:
                got = np.asarray(fn(dt, mag), dtype=float)
                ref = ref_fn(dt, mag)
                case = {"builder": name, "dt": dt, "magnitude": mag}
                nt = dt != 1.0 and mag != 1.0
                # closed forms are products of <= 6 factors: relative error <= 16 eps per entry
                ok = got.shape == (6, 6) and bool(np.all(np.abs(got - ref) <= 16 * EPS * np.abs(ref)))
                res.case("noise_closed_form", case, ok, nontrivial=nt, signature=f"C06/noise/{name}/closed_form",
                         observed=[float(got[0, 0]), float(got[0, 3]), float(got[3, 3])] if got.shape == (6, 6) else list(got.shape),
                         expected=[float(ref[0, 0]), float(ref[0, 3]), float(ref[3, 3])], item=item)
                if got.shape != (6, 6):
                    continue
                dd = np.sqrt(np.where(np.diag(ref) > 0, np.diag(ref), 1.0))
                mineig = kf.scaled_min_eig(got, dd)
                res.case("noise_symmetric_psd", case, _exact(got, got.T) and mineig >= -1e-12, nontrivial=nt,
                         signature=f"C06/noise/{name}/symmetric_psd", observed=mineig, item=item)
                for label in (name, name.upper(), name.title()):
                    via = np.asarray(rnoise.noiseCovarianceFactory(label, dt, mag), dtype=float)
                    res.case("noise_factory", dict(case, label=label), _exact(via, got), nontrivial=nt,
                             signature=f"C06/noise/factory/{name}", item=item)
                res.observe(got)
    for bad in ("white_noise", "", "discrete"):
        try:
            rnoise.noiseCovarianceFactory(bad, 60, 1.0)
            raised = False
        except ValueError:
            raised = True
        res.case("noise_factory", {"label": bad}, raised, nontrivial=True, signature="C06/noise/factory/invalid_label", item=item)
    truth = np.array([7000.0, -1200.0, 300.0, 1.5, -7.2, 0.4])
    for pos, vel in [(1e-3, 1e-6), (0.1, 1e-3), (2.0, 0.05), (1e-3 * (1 + seed % 7), 3e-6)]:
        rec = _RecordingRng()
        x, p = rnoise.initialEstimateNoise(truth, pos, vel, rec)
        want = np.diag([pos * pos] * 3 + [vel * vel] * 3)
        case = {"pos_std": pos, "vel_std": vel}
        ok = (
            np.asarray(p).shape == (6, 6) and bool(np.all(np.abs(np.asarray(p) - want) <= 4 * EPS * want))
            and rec.args is not None and _exact(rec.args[0], truth) and _exact(rec.args[1], p) and _exact(x, truth + 1.0)
        )
        res.case("noise_initial_estimate", case, ok, nontrivial=True, signature="C06/noise/initial_estimate/covariance",
                 observed=np.diag(np.asarray(p)).tolist() if np.asarray(p).ndim == 2 else None, expected=np.diag(want).tolist(), item=item)
        x1, p1 = rnoise.initialEstimateNoise(truth, pos, vel, np.random.default_rng(1234 + seed))
        x2, p2 = rnoise.initialEstimateNoise(truth, pos, vel, np.random.default_rng(1234 + seed))
        dev = (x1 - truth) / np.array([pos] * 3 + [vel] * 3)
        # 6 standard normal draws: |z| <= 8 has probability 1 - 1e-14 for a correct sampler, pinned by the seed anyway
        ok = _exact(x1, x2) and _exact(p1, p2) and bool(np.all(np.abs(dev) <= 8.0)) and bool(np.any(dev != 0.0))
        res.case("noise_initial_estimate", case, ok, nontrivial=True, signature="C06/noise/initial_estimate/draw",
                 observed=dev.tolist(), item=item)


# ------------------------------------------------------------------------------------------------ dispatch
def _raised_in_library(exc) -> bool:
    """True iff the exception was raised by (or underneath) resonaate code called from this harness."""
    if isinstance(exc, StubContractError):
        return True
    tb = exc.__traceback__
    lib = False
    while tb is not None:  # library frame below the last harness frame (numpy raising under a library call counts)
        name = tb.tb_frame.f_code.co_filename
        if "/verif/" in name:
            lib = False
        elif "/resonaate/" in name:
            lib = True
        tb = tb.tb_next
    return lib


def run_item(item):
    res = fw.Result()
    item = tuple(item)
    kind = item[0]
    runner = {
        "lin": _run_lin,
        "dtype": _run_dtype,
        "intinputs": _run_intinputs,
        "window": _run_window,
        "weights": _run_weights,
        "sigma": _run_sigma,
        "noobs_nonlinear": _run_noobs_nonlinear,
        "bookkeeping": _run_bookkeeping,
        "noise": _run_noise,
    }[kind]
    try:
        runner(res, item)
    except Exception as exc:  # noqa: BLE001
        if not _raised_in_library(exc):
            raise  # harness error: exit 2
        # the library raised on an input of the announced lattice: the property cannot hold there
        res.case(f"{kind}_exception", {"item": list(item[:6])}, False, nontrivial=True,
                 signature=f"C06/exception/{kind}/{type(exc).__name__}", observed=str(exc)[:300], item=item)
    if _DEBUG:
        import json  # noqa: PLC0415

        with open(_DEBUG, "a") as fh:
            for k, (r, c) in _DEBUG_MAX.items():
                fh.write(json.dumps({"key": k, "ratio": r, "case": fw.jsonable(c)}) + "\n")
        _DEBUG_MAX.clear()
    return res
