"""C14 - visibility predicates match exact geometry and respect its symmetries.

Lattice explorer: every predicate is run on the complete Cartesian lattice announced in ``bounds`` (branch points,
thresholds and seams read from the code plus a regular fill) and compared with the independent reference geometry of
``verif/oracles/visgeom.py``.  VERIF_SEED only shifts the phase of the regular fill (generic directions, one pointing
azimuth, the Sun longitude); every run enumerates its lattice completely.
"""
from __future__ import annotations

import math
import warnings
from datetime import datetime, timedelta
from fractions import Fraction

import numpy as np

from verif import framework as fw
from verif import scen  # noqa: F401  (installs the in-process fake ray before resonaate is imported)
from verif.oracles import visgeom as vg

from resonaate.common.labels import Explanation, PlatformLabel
from resonaate.physics import constants as rconst
from resonaate.physics.bodies import Earth
from resonaate.physics.bodies.third_body import Sun
from resonaate.physics.maths import subtendedAngle, wrapAngle2Pi
from resonaate.physics.measurements import getAzimuth, getElevation, getRange
from resonaate.physics import sensor_utils as su
from resonaate.physics.time.stardate import datetimeToJulianDate
from resonaate.physics.transforms.methods import getSlantRangeVector
from resonaate.scenario.config.sensor_config import (
    AdvRadarConfig,
    ConicFieldOfViewConfig,
    OpticalConfig,
    RadarConfig,
    RectangularFieldOfViewConfig,
)
from resonaate.sensors import sensorFactory
from resonaate.sensors.field_of_view import FieldOfView
from resonaate.sensors.sensor_base import Sensor

PROPERTY = "C14"
LEVEL = "model_checking"
RULE = (
    "complete Cartesian lattices (see bounds): line of sight over all ordered pairs of (radius x direction) positions "
    "plus constructed grazing segments (closest approach = R +/- {0,1e-6,1e-3,1,100,3000} km, closest point inside / "
    "before / after the segment), both argument orders; field of view over shape x pointing (az incl. both sides of "
    "the north seam, el up to the zenith) x target offsets at {0,0.5,0.98,1.02} of the half-widths x rotations about "
    "the vertical; azimuth/elevation/range masks on a real Radar sensor built by sensorFactory; visible-Sun fraction "
    "along arcs through umbra and penumbra; Earth-limb and lighting/exclusion cones at threshold +/- {1e-9..1e-1} rad; "
    "azimuth/elevation/wrap helpers at quadrant boundaries, seam and zenith. CALLERS (which state each geometric "
    "helper is handed): a real Optical sensor built by sensorFactory(OpticalConfig) on a stub host (eci_state, epoch, "
    "platform type), isVisible() verdict AND miss reason against the whole documented decision chain evaluated in ECI "
    "(range, segment/sphere line of sight, masks, umbra, visual magnitude, galactic cone, Sun cone, tangent cone with "
    "apex at the SENSOR / site darkness): (optical/space/limb) every sensor radius x every target radius (LEO..10 R, "
    "equal and different), 3 Sun-relative sensor positions x 4 position angles x nadir angles {coarse fill, Earth-disc "
    "edge, the sensor's limb cone +/- offsets, the cone a sensor at the TARGET's distance would have +/- offsets} x "
    "near / far crossing of the target shell, two detectable magnitudes, slant vector built geometrically and (one "
    "position angle) by the library's getSlantRangeVector; (optical/space/cones) boresights about the Sun, anti-Sun, "
    "galactic-centre and anti-centre axes at threshold +/- offsets; (optical/ground) sites at Sun angles about the "
    "twilight threshold x az/el/range targets; (radar/callers) Radar and AdvRadar isVisible on ground/LEO/GEO hosts "
    "at {0.5, 1-1e-6, 1+1e-6, 2} x the radar-equation range for 3 cross-sections. NEXT TO THE VERTICAL (the azimuth of a "
    "direction arc-seconds from the zenith is still the bearing of its horizontal POSITION offset; only where the "
    "arcsin elevation cannot tell it from 90 deg, < 3e-8 rad, is the documented velocity heading admissible too): zenith "
    "distance {0 exactly, 1e-9, 1e-7, 1e-6, 5e-6, 1e-5, 2e-5, 1e-4, 1e-3} rad x 8 bearings (incl. north, both sides of "
    "the seam) x relative velocity {at rest, heading bearing+100 deg 2 km/s, bearing+180 deg 1 m/s, bearing+323 deg "
    "0.5 km/s} for (fov) every shape x {boresight near zenith, target near zenith, both near zenith, boresight near "
    "nadir, both near nadir} x partner offsets at {0,0.5,0.98,1.02} of the half-widths / partner zenith distances x "
    "{same bearing, 0.98, 1.02 half-widths, opposite bearing}, verdicts also compared across the 8 bearings (rotation "
    "about the vertical); (mask) Radar azimuth masks that contain some bearings and exclude others, ground and space "
    "host, zenith and (space host, elevation mask widened to -90 deg through the setter) nadir; (callers) Optical on a "
    "dark ground site, Radar and AdvRadar on ground/LEO/GEO hosts with wrapping and plain masks; (az/el) getAzimuth / "
    "getElevation themselves at zenith and nadir. non-trivial = the decision depends on "
    "the mechanism: (los) the infinite line through the points comes within R+100 km of the geocentre; (fov) offset "
    "within 2% of an edge, or the azimuth pair straddles north, or pointing elevation >= 89 deg; (mask) azimuth "
    "within 1e-5 rad of a mask end or mask wraps through north; (sun) penumbra or within 2 solar radii of a shadow "
    "boundary; (limb/lighting/exclusion) within 1e-2 rad of the cone; (az/el) within 1e-5 rad of the seam, zenith "
    "or a quadrant boundary; (optical) the decision chain reaches the stage under examination (limb: expected VISIBLE or "
    "LIMB_OF_EARTH; cones: galactic stage or later; ground: site darkness stage); (radar) base chain passed so the "
    "sensitivity range decides; (next to the vertical) the azimuth is defined (not in the either-way band) and the chain "
    "reaches the azimuth test. distinct by construction (lattice points)."
)
ASSUMPTIONS = [
    "reference geometry: rational arithmetic for the segment/sphere test, atan2-based angles elsewhere (verif/oracles/visgeom.py)",
    "Earth radius 6378.1363 km, limb altitude 100 km, Sun radius 696000 km (compared with the library constants in subcheck 'constants')",
    "visible-Sun fraction: conical shadow model of Montenbruck 3.4.2 (two flat discs of angular radii a, b at separation c); "
    "docstring exclusion 'only valid for orbiting satellites': below 1 km altitude on the day side the value is not compared",
    "rectangular field of view is defined on azimuth/elevation differences (wrapped on the circle); at the exact zenith "
    "the azimuth is the one of the velocity (Vallado Alg. 27, as documented in getAzimuth)",
    "inputs within the derived rounding band of a predicate's own threshold are classified either-way",
    "azimuth next to the vertical: bearing of the horizontal position offset (atan2 of the SEZ components, "
    "visgeom.azimuth_candidates); zenith distance 0 < zd < 3e-8 rad (sqrt(2 eps) = 2.1e-8: z/rho rounds to 1, the elevation "
    "'is' 90 deg) admits the position bearing and the velocity heading, a verdict that differs between the two is "
    "either-way; exactly at the zenith with no horizontal velocity, and exactly at the nadir, the azimuth is undefined "
    "(either-way whenever the verdict depends on it)",
    "sensor-level chains: the Sun position is Sun.getPosition(host.julian_date_epoch) (ephemeris = another property); "
    "apparent magnitude = Cognion 2013 Eq. 1/3 with the Sun at -26.74; radar range = radar equation for a flat plate "
    "(own formulae in verif/oracles/visgeom.py); order of the exits as documented in Optical/Radar/Sensor.isVisible",
    "Sun exclusion of a space sensor: the docstring says sensor->Sun, the caller hands target->Sun (parallax <= 7e-4 rad): "
    "a case where the two disagree about the 15 deg cone is either-way",
    "slant vectors made by getSlantRangeVector use the geodetic vertical (<= 3.4e-3 rad from the radial one): that much "
    "either-way band on the limb for those cases only; geometrically built slant vectors use the radial vertical exactly",
]
EXPECT_MIN_NONTRIVIAL = 200000

R = vg.R_EARTH
DEG = math.pi / 180.0
ANG_BAND = 1e-11  # rad: arccos/arcsin/arctan2 of O(1) arguments away from +-1 carry <= 1e-14 rad; lattice offsets >= 1e-9
FOV_BAND = 1e-9  # rad: arccos near 0 / arcsin near zenith lose up to sqrt(eps)=1.5e-8 only inside 1e-8 of the pole; the
#                  lattice keeps >= 1.7e-4 rad (2% of the smallest half-width 0.5 deg) from every edge
SUN_TOL = 1e-6  # on the fraction: d(fraction)/d(angle) <= 2/(pi a) = 137 /rad, angle errors <= 1e-11 rad (arcsin near
#                 1 at R+1e-6 km) -> 1.4e-9; smallest defect to expose ~1e-4 (norm(sun) instead of norm(sat_sun) in a)


def _f(x):
    return float(x)


# ================================================================================================ lattices
def _axes_and_diagonals():
    dirs = []
    for ax in range(3):
        for sg in (1.0, -1.0):
            v = [0.0, 0.0, 0.0]
            v[ax] = sg
            dirs.append(v)
    for sx in (1.0, -1.0):
        for sy in (1.0, -1.0):
            for sz in (1.0, -1.0):
                dirs.append(vg.unit([sx, sy, sz]))
    return dirs


def _generic_dirs(seed, n):
    out = []
    for k in range(n):
        lat = math.radians(-80.0 + math.fmod(17.3 + 29.7 * k + 0.731 * seed, 160.0))
        lon = math.radians(math.fmod(11.1 + 47.9 * k + 3.17 * seed, 360.0))
        out.append([math.cos(lat) * math.cos(lon), math.cos(lat) * math.sin(lon), math.sin(lat)])
    return out


def _los_dirs(tier, seed):
    return _axes_and_diagonals() + _generic_dirs(seed, 4 if tier == "quick" else 18)


def _los_radii(tier):
    radii = [R, R + 1e-6, 6578.0, 7000.0, 42164.0, 10 * R]
    if tier == "thorough":
        radii += [R + 0.1, 6400.0, 8000.0, 12000.0, 26560.0, 5 * R]
    return radii


def _los_positions(tier, seed):
    return [vg.scale(d, r) for r in _los_radii(tier) for d in _los_dirs(tier, seed)]


LOS_CLEARANCES = [-3000.0, -100.0, -1.0, -1e-3, -1e-6, 0.0, 1e-6, 1e-3, 1.0, 100.0]
LOS_SPANS_Q = [(-500.0, 800.0), (-7000.0, 300.0), (-40000.0, 60000.0), (200.0, 9000.0), (-9000.0, -200.0), (0.0, 5000.0),
               (-6000.0, 6000.0)]
LOS_SPANS_T = LOS_SPANS_Q + [(-100.0, 100.0), (-63000.0, 10.0), (5500.0, 5600.0), (-20000.0, 0.0), (-1.0, 30000.0),
                             (-15000.0, 41000.0)]

FOV_SHAPES_Q = [("conic", 1.0), ("conic", 60.0), ("conic", 179.0), ("rect", 1.0, 1.0), ("rect", 2.0, 2.0),
                ("rect", 20.0, 10.0), ("rect", 179.0, 179.0), ("conic", 10.0), ("rect", 10.0, 40.0)]
FOV_SHAPES_T = FOV_SHAPES_Q + [("conic", 0.1), ("rect", 0.1, 0.1), ("rect", 120.0, 5.0)]
FOV_FRACTIONS_Q = [-1.02, -0.98, -0.5, 0.0, 0.5, 0.98, 1.02]
FOV_FRACTIONS_T = [-1.5, -1.02, -1.001, -0.999, -0.98, -0.5, -0.25, 0.0, 0.25, 0.5, 0.98, 0.999, 1.001, 1.02, 1.5]
FOV_ROT_Q = [0.3, 90.0, 359.9]
FOV_ROT_T = [0.3, 45.0, 90.0, 180.0, 270.05, 359.9]
FOV_EL_Q = [-30.0, 0.0, 45.0, 89.0]
FOV_EL_T = [-89.0, -60.0, -30.0, 0.0, 20.0, 45.0, 70.0, 85.0, 89.0, 89.9]
P_VEL = (0.3, -0.2, 0.1)
T_VEL = (-1.1, 0.7, 0.4)


def _fov_az(tier, seed):
    az = [0.0, 0.2, 90.0, 180.0, 359.8, 359.999, math.fmod(123.457 + 37.31 * seed, 360.0)]
    if tier == "thorough":
        az += [1e-7, 0.001, 0.5, 30.0, 60.0, 120.0, 150.0, 210.0, 240.0, 270.0, 300.0, 330.0, 359.5, 359.9999999,
               math.fmod(11.3 + 91.7 * seed, 360.0)]
    return az


def _fov_shapes(tier):
    return FOV_SHAPES_Q if tier == "quick" else FOV_SHAPES_T


MASKS_Q = [(0.0, 359.99), (350.0, 10.0), (10.0, 350.0), (90.0, 90.0), (359.99, 0.0), (180.0, 0.0), (0.0, 0.0), (270.0, 90.0),
           (359.0, 1.0), (45.0, 44.0)]
MASKS_T = MASKS_Q + [(0.0, 180.0), (1.0, 359.0), (200.0, 100.0), (100.0, 200.0)]
EL_MASKS = [(5.0, 85.0), (-89.9, 90.0)]
MASK_ELS = [-20.0, 4.9, 5.1, 45.0, 84.9, 85.1]

SUN_DISTANCES = [1.471e8, 1.496e8, 1.521e8]
LIMB_OFFSETS = [1e-9, 1e-7, 1e-5, 1e-3, 1e-1]


def _sun_radii(tier):
    radii = [R, R + 1e-6, 6600.0, 7000.0, 26560.0, 42164.0, 10 * R]
    if tier == "thorough":
        radii += [R + 1.0, 6400.0, 8000.0, 12000.0, 20000.0, 5 * R]
    return radii


def _limb_radii(tier):
    radii = [R + 100.0, R + 101.0, 6700.0, 7000.0, 26560.0, 42164.0, 10 * R]
    if tier == "thorough":
        radii += [6500.0, 8000.0, 12000.0, 20000.0, 5 * R]
    return radii


def _sun_vectors(seed):
    eps = math.radians(23.4393)
    out = []
    for k, dist in enumerate(SUN_DISTANCES):
        lam = math.radians(math.fmod(53.7 * seed + 120.0 * k + 10.0, 360.0))
        out.append([dist * math.cos(lam), dist * math.sin(lam) * math.cos(eps), dist * math.sin(lam) * math.sin(eps)])
    return out


def items(tier, seed):
    out = [("constants", tier, seed)]
    npos = len(_los_positions(tier, seed))
    blk = 6 if tier == "quick" else 8
    for i0 in range(0, npos, blk):
        out.append(("los_pairs", tier, seed, i0, min(i0 + blk, npos)))
    ndir = len(_los_dirs(tier, seed))
    for d0 in range(0, ndir, 2):
        out.append(("los_tangent", tier, seed, d0, min(d0 + 2, ndir)))
    naz = len(_fov_az(tier, seed))
    for si in range(len(_fov_shapes(tier))):
        for a0 in range(0, naz, 2 if tier == "quick" else 1):
            out.append(("fov", tier, seed, si, a0, min(a0 + (2 if tier == "quick" else 1), naz)))
        out.append(("fov_zenith", tier, seed, si))
        for mi in range(len(ZEN_MODES)):
            out.append(("fov_near_zenith", tier, seed, si, mi))
        if _fov_shapes(tier)[si][0] == "conic":
            out.append(("fov_radial", tier, seed, si))
    masks = MASKS_Q if tier == "quick" else MASKS_T
    for mi in range(len(masks)):
        for hi in range(2):
            out.append(("mask", tier, seed, mi, hi))
    for mi in range(len(MASKS_ZEN_Q if tier == "quick" else MASKS_ZEN_T)):
        for hi in range(2):
            out.append(("mask_zenith", tier, seed, mi, hi))
    out.append(("mask_range", tier, seed))
    for si in range(len(SUN_DISTANCES)):
        for ri in range(len(_sun_radii(tier))):
            out.append(("sun", tier, seed, si, ri))
    for ri in range(len(_limb_radii(tier))):
        out.append(("limb", tier, seed, ri))
    out.append(("limb_raises", tier, seed))
    for k in range(3):
        out.append(("ground_light", tier, seed, k))
    out.append(("space_light", tier, seed))
    out.append(("galactic", tier, seed))
    for ei in range(len(_azel_els(tier))):
        out.append(("azel", tier, seed, ei))
    out.append(("azel_zenith", tier, seed))
    out.append(("azel_near_pole", tier, seed))
    out.append(("wrap", tier, seed))
    out.append(("subtended", tier, seed))
    for si in range(len(_opt_sensor_radii(tier))):
        for ti in range(len(_opt_target_radii(tier))):
            out.append(("optical_limb", tier, seed, si, ti))
    for ai in range(len(CONE_AXES)):
        out.append(("optical_cones", tier, seed, ai))
    for k in range(3):
        out.append(("optical_ground", tier, seed, k))
    for ki in range(len(RADAR_KINDS)):
        out.append(("radar_callers", tier, seed, ki))
    for ki in range(len(ZEN_CALLER_KINDS)):
        out.append(("zenith_callers", tier, seed, ki))
    return out


def bounds(tier, seed):
    return {
        "los": {
            "radii_km": _los_radii(tier),
            "directions": len(_los_dirs(tier, seed)),
            "pairs": "all ordered pairs of radius x direction positions (incl. coincident)",
            "grazing_clearance_km": LOS_CLEARANCES,
            "grazing_spans_km": LOS_SPANS_Q if tier == "quick" else LOS_SPANS_T,
        },
        "fov": {
            "shapes_deg": [list(s) for s in _fov_shapes(tier)],
            "pointing_az_deg": _fov_az(tier, seed),
            "pointing_el_deg": (FOV_EL_Q if tier == "quick" else FOV_EL_T) + ["90 (exact zenith, azimuth from velocity)"],
            "offset_fractions_of_half_width": FOV_FRACTIONS_Q if tier == "quick" else FOV_FRACTIONS_T,
            "rotations_about_vertical_deg": FOV_ROT_Q if tier == "quick" else FOV_ROT_T,
        },
        "mask": {
            "az_masks_deg": [list(m) for m in (MASKS_Q if tier == "quick" else MASKS_T)],
            "el_masks_deg": [list(m) for m in EL_MASKS],
            "az": "every 5 deg (2.5 thorough) plus mask ends +/- {0,1e-9,1e-6} rad",
            "el_deg": MASK_ELS,
            "range_limits_km": [100.0, 50000.0],
        },
        "sun": {"radii_km": _sun_radii(tier), "sun_distance_km": SUN_DISTANCES,
                "arc": "angle from the anti-Sun axis 0..180 deg by 5 (2 thorough) plus shadow edge +/- k*a/4, |k|<=14 (a/8, |k|<=40 thorough)"},
        "limb": {"sensor_radii_km": _limb_radii(tier), "offsets_rad": LIMB_OFFSETS, "below_limb_raises": True},
        "callers": {
            "epoch": _opt_epoch(seed).isoformat(),
            "optical_space_limb": {
                "sensor": "Optical from sensorFactory(OpticalConfig) on a stub spacecraft host",
                "sensor_radii_km": _opt_sensor_radii(tier), "target_radii_km": _opt_target_radii(tier),
                "pairs": "all sensor x target radii (equal, sensor above, sensor below)",
                "sensor_sun_angles_deg": OPT_SUN_ANGLES_DEG, "position_angles_rad": OPT_PSI,
                "nadir_angles": "0..180 deg by 7.5 (2.5 thorough) plus {sensor limb cone, cone of a sensor at the target's "
                                "distance} +/- offsets_rad, Earth-disc edge -1e-3/+1e-5/+1e-3, middle of the atmosphere ring",
                "offsets_rad": LIMB_OFFSETS, "crossings": "near and far crossing of the target shell",
                "detectable_vismag": OPT_VISMAGS, "target": {"vcs_m2": OPT_VCS, "reflectivity": OPT_REFL},
                "slant_vector": "geometric (radial vertical) for all; library getSlantRangeVector for position angle 0",
                "library_frame_limb_band_rad": OPT_TILT_BAND,
            },
            "optical_space_cones": {"axes": CONE_AXES, "sensor_radii_km": CONE_SENSOR_RADII, "ranges_km": CONE_RANGES,
                                    "angles": "1e-3..pi-1e-3 by 5 deg (1 thorough) plus threshold +/- {1e-9,1e-6,1e-3,1e-1}",
                                    "planes": 2},
            "optical_ground": {"site_sun_angles": "as cones, threshold 105 deg", "planes": 3, "az_deg": GROUND_AZ_DEG,
                               "el_deg": GROUND_EL_DEG, "ranges_km": GROUND_RANGES},
            "radar": {"kinds": RADAR_KINDS, "hosts": ["ground", "space 7000 km", "geo 42164 km"], "vcs_m2": RADAR_VCS,
                      "range_factors_of_radar_equation_range": RADAR_RANGE_FACTORS, "az_deg": [10.0, 200.0, 359.995],
                      "el_deg": [-30.0, 20.0, 80.0]},
        },
        "next_to_vertical": {
            "zenith_distance_rad": _zen_zds(tier), "bearings_deg": _zen_bearings(tier, seed),
            "velocity_heading_rel_bearing_deg_speed_kms": ["at rest"] + [list(v) for v in ZEN_VEL[1:]],
            "partner_velocity": list(ZEN_OTHER_VEL), "pole_band_rad": vg.POLE_BAND,
            "fov": {"shapes": "all fov shapes", "modes": ZEN_MODES, "partner_az_fractions": ZEN_FA, "partner_el_fractions": ZEN_FE,
                    "both_near": [list(d) for d in ZEN_DTHETA], "rotation": "verdicts equal across the bearings"},
            "mask": {"az_masks_deg": [list(m) for m in (MASKS_ZEN_Q if tier == "quick" else MASKS_ZEN_T)],
                     "hosts": ["ground", "space 7000 km"], "zenith_ranges_km": ZEN_RANGES["ground"],
                     "nadir_ranges_km_space_host": NADIR_RANGES, "nadir_el_mask": "[-pi/2, pi/2] through the el_mask setter"},
            "callers": {"kinds": ZEN_CALLER_KINDS, "az_masks_deg": [list(m) for m in ZEN_CALLER_MASKS],
                        "optical_site": "150 deg from the sub-solar point", "radar_hosts": ["ground", "space 7000 km (+nadir)", "geo"]},
            "azel": "getAzimuth/getElevation: bearings + quadrant boundaries +/- 1e-7 deg, zenith and nadir, ranges 10 / 42000 km",
        },
        "angle_band_rad": ANG_BAND,
        "fov_band_rad": FOV_BAND,
        "sun_fraction_tol": SUN_TOL,
    }


# ================================================================================================ helpers
def _arr(v):
    return np.array(v, dtype=float)


class _Raised:
    """An exception escaping the implementation is an observation (a violation), not a harness error."""

    def __init__(self, exc):
        self.text = f"{type(exc).__name__}: {exc}"[:200]

    def __repr__(self):
        return f"raised {self.text}"

    def __float__(self):
        return float("nan")

    def __getitem__(self, idx):
        return self


def _raw(fn, *args, **kw):
    """Run the implementation; numpy warnings (invalid divide) are data, not noise."""
    with warnings.catch_warnings():
        warnings.simplefilter("ignore")
        return fn(*args, **kw)


def _call(fn, *args, **kw):
    try:
        return _raw(fn, *args, **kw)
    except Exception as exc:  # noqa: BLE001
        return _Raised(exc)


def _build(res, sub, factory, item, *args):
    """Construct a library object through its factory; a failure on a valid configuration is a violation."""
    try:
        obj = factory(*args)
    except Exception as exc:  # noqa: BLE001
        res.violate(sub, {"args": fw.jsonable(args)}, signature=f"C14/{sub}", observed=f"{type(exc).__name__}: {exc}"[:200],
                    expected="object constructed", item=item)
        return None
    res.case(sub, {"args": fw.jsonable(args)}, True, signature=f"C14/{sub}", item=item)
    return obj


def _boolish(x):
    return isinstance(x, (bool, np.bool_))


# ================================================================================================ constants
def _run_constants(res, item):
    for name, got, want in (
        ("Earth.radius", _f(Earth.radius), vg.R_EARTH),
        ("Earth.atmosphere", _f(Earth.atmosphere), vg.ATMOSPHERE),
        ("Sun.radius", _f(Sun.radius), vg.R_SUN),
        ("Sun.absolute_magnitude", _f(Sun.absolute_magnitude), vg.SUN_MAGNITUDE),
        ("DEG2RAD", _f(rconst.DEG2RAD), DEG),
        ("PI", _f(rconst.PI), math.pi),
        ("TWOPI", _f(rconst.TWOPI), 2 * math.pi),
    ):
        res.case("constants", {"name": name}, got == want, signature=f"C14/constants/{name}", observed=got, expected=want,
                 item=item)
        res.observe(got)
    gc = np.asarray(su.GALACTIC_CENTER_ECI, dtype=float)[:3]
    ang = vg.angle_between(list(gc), vg.GALACTIC_UNIT)
    res.case("constants", {"name": "GALACTIC_CENTER_ECI"}, ang < 1e-9, signature="C14/constants/galactic_center",
             observed=list(gc / np.linalg.norm(gc)), expected=vg.GALACTIC_UNIT, item=item)
    res.observe(ang < 1e-9)


# ================================================================================================ line of sight
def _los_case(res, sub, a, b, case, item, sig_prefix):
    """Evaluate lineOfSight(a, b) and (b, a) against the exact test; returns nothing."""
    vis, closest, t_line, line_closest = vg.los_exact(a, b)
    band = vg.los_band(a, b)
    in_band = abs(closest - R) < band
    coincident = a == b
    nontriv = (not coincident) and line_closest < R + 100.0 and not in_band
    got_ab = _call(su.lineOfSight, _arr(a), _arr(b))
    got_ba = _call(su.lineOfSight, _arr(b), _arr(a))
    region = "coincident_points" if coincident else ("inside" if 0.0 <= t_line <= 1.0 else ("before" if t_line < 0 else "after"))
    case = dict(case, coincident=coincident, closest_km=closest, t_line=t_line, expected=vis)
    for order, got in (("ab", got_ab), ("ba", got_ba)):
        ok = _boolish(got) and (in_band or bool(got) == vis)
        if in_band:
            res.either_way += 1
        # closest point seen from the first argument of this call: 'before'/'after' swap with the order
        reg = region if order == "ab" or region in ("inside", "coincident_points") else ("after" if region == "before" else "before")
        res.case(
            f"{sub}/exact", dict(case, order=order), ok, nontrivial=nontriv,
            signature=f"{sig_prefix}/{reg}/{'false_block' if vis else 'false_clear'}",
            observed=repr(got), expected=vis, outcome=f"{reg}:{'clear' if vis else 'blocked'}", item=item,
        )
    sym_ok = _boolish(got_ab) and _boolish(got_ba) and (in_band or bool(got_ab) == bool(got_ba))
    res.case(f"{sub}/symmetric", case, sym_ok, nontrivial=nontriv, signature=f"{sig_prefix}/asymmetric",
             observed=[repr(got_ab), repr(got_ba)], expected="equal", item=item)
    res.observe(bool(got_ab), bool(got_ba))


def _run_los_pairs(res, item):
    _, tier, seed, i0, i1 = item
    pos = _los_positions(tier, seed)
    nd = len(_los_dirs(tier, seed))
    radii = _los_radii(tier)
    for i in range(i0, i1):
        for j in range(i, len(pos)):
            case = {"kind": "pair", "i": i, "j": j, "r1_km": radii[i // nd], "r2_km": radii[j // nd], "a": pos[i], "b": pos[j]}
            _los_case(res, "los/pairs", pos[i], pos[j], case, item, "C14/los/pairs")


def _run_los_tangent(res, item):
    _, tier, seed, d0, d1 = item
    dirs = _los_dirs(tier, seed)
    spans = LOS_SPANS_Q if tier == "quick" else LOS_SPANS_T
    for di in range(d0, d1):
        u = dirs[di]
        e1, e2 = vg.perp_frame(u)
        sides = [e1, e2, vg.unit(vg.add(e1, vg.scale(e2, 0.5)))]
        for vi, v in enumerate(sides):
            for delta in LOS_CLEARANCES:
                c = vg.scale(u, R + delta)
                for p, q in spans:
                    a = vg.add(c, vg.scale(v, p))
                    b = vg.add(c, vg.scale(v, q))
                    if vg.norm(a) < R or vg.norm(b) < R:
                        continue  # endpoints on or outside the sphere only (quantifier: from the surface upwards)
                    case = {"kind": "grazing", "dir": di, "side": vi, "clearance_km": delta, "span_km": [p, q], "a": a, "b": b}
                    _los_case(res, "los/grazing", a, b, case, item, "C14/los/grazing")


# ================================================================================================ field of view
def _make_fov(shape):
    if shape[0] == "conic":
        return FieldOfView.fromConfig(ConicFieldOfViewConfig(cone_angle=shape[1]))
    return FieldOfView.fromConfig(RectangularFieldOfViewConfig(azimuth_angle=shape[1], elevation_angle=shape[2]))


def _fov_expect(shape, p, t):
    """(expected, either_way, straddles_seam, detail) from the reference geometry of the actual float vectors."""
    if shape[0] == "conic":
        half = shape[1] * DEG / 2
        ang = vg.conic_offset(p, t)
        return ang <= half, abs(ang - half) < FOV_BAND, False, {"offset_rad": ang, "half_rad": half}
    ha, he = shape[1] * DEG / 2, shape[2] * DEG / 2
    daz, dele, raw = vg.rect_offsets(p, t)
    # next to the zenith / nadir an arcsin-based elevation loses eps / cos(el) (<= 3e-8 rad): that much more either-way band
    # on the elevation edge for such vectors only (8 eps ~ 2e-15 rad elsewhere)
    either = abs(daz - ha) < FOV_BAND or abs(dele - he) < FOV_BAND + vg.elevation_band(p) + vg.elevation_band(t)
    # which azimuths a correct implementation may report (one, from the POSITION, for every direction that is not within
    # rounding of the zenith): the verdict is asserted unless it differs between the admissible ones
    (cand_p, free_p), (cand_t, free_t) = vg.azimuth_candidates(p), vg.azimuth_candidates(t)
    if free_p or free_t:
        either = either or dele <= he  # azimuth undefined: either-way unless the elevation alone excludes the target
    elif len(cand_p) * len(cand_t) > 1:
        verdicts = {vg.circ_dist(x, y) <= ha for x in cand_p for y in cand_t}
        edge = any(abs(vg.circ_dist(x, y) - ha) < FOV_BAND for x in cand_p for y in cand_t)
        either = either or ((len(verdicts) > 1 or edge) and dele <= he)
    # a direction within rounding of north has two representations (0+ and 2pi-): the pair straddles the seam if it
    # does so under either of them
    straddle = raw > math.pi
    if not straddle:
        reps = []
        for az in (vg.azimuth(p), vg.azimuth(t)):
            reps.append([az] + ([az + 2 * math.pi] if az < 1e-9 else []) + ([az - 2 * math.pi] if az > 2 * math.pi - 1e-9 else []))
        straddle = any(abs(x - y) > math.pi for x in reps[0] for y in reps[1])
    return (daz <= ha and dele <= he), either, straddle, {"daz_rad": daz, "del_rad": dele, "raw_daz_rad": raw}


def _fov_eval(res, fov, shape, p, t, case, item, nontriv_extra=False):
    """One exact-membership case; returns (observed, expected, either_way, seam_false_reject)."""
    exp, either, straddle, detail = _fov_expect(shape, p, t)
    got = _call(fov.inFieldOfView, _arr(p), _arr(t))
    ok = _boolish(got) and (either or bool(got) == exp)
    if either:
        res.either_way += 1
    kind = shape[0]
    seam_fr = kind == "rect" and straddle and exp and not bool(got)
    if "zenith_distance_rad" in case:  # next to the vertical: its own region (azimuth source), not the north seam
        pole = "near_nadir" if "nadir" in case.get("mode", "") else "near_zenith"
        sig = f"C14/fov/{kind}/{pole}/{'false_reject' if exp else 'false_accept'}"
    elif seam_fr:
        sig = "C14/fov/rect/seam/false_reject"
    else:
        sig = f"C14/fov/{kind}/{'false_reject' if exp else 'false_accept'}"
    edge = any(abs(abs(case.get(k, 0.0)) - 1.0) <= 0.021 for k in ("fa", "fe", "f"))
    nontriv = (edge or straddle or nontriv_extra) and not either
    res.case(
        f"fov/{kind}/exact", dict(case, straddles_seam=straddle, expected=exp, **detail), ok, nontrivial=nontriv,
        signature=sig, observed=repr(got), expected=exp,
        outcome=f"{'in' if exp else 'out'}{'/seam' if straddle else ''}", item=item,
    )
    res.observe(bool(got))
    return bool(got), exp, either, seam_fr


def _fov_rotations(res, fov, shape, p, t, base, case, item, rots, nontriv_extra=False):
    got0, _exp0, either0, seam0 = base
    for rot in rots:
        pr, tr = vg.rotz(p, rot * DEG), vg.rotz(t, rot * DEG)
        rcase = dict(case, rot_deg=rot)
        got1, _exp1, either1, seam1 = _fov_eval(res, fov, shape, pr, tr, rcase, item, nontriv_extra)
        same = got0 == got1
        straddle_any = _fov_expect(shape, p, t)[2] or _fov_expect(shape, pr, tr)[2]
        if not same and (seam0 or seam1):
            sig = "C14/fov/rect/seam/rotation_variant"
        else:
            sig = f"C14/fov/{shape[0]}/rotation_variant"
        res.case(
            f"fov/{shape[0]}/rotation", dict(rcase, straddles_seam=straddle_any), same or either0 or either1,
            nontrivial=straddle_any or nontriv_extra, signature=sig, observed=[got0, got1], expected="equal", item=item,
        )


def _run_fov(res, item):
    _, tier, seed, si, a0, a1 = item
    shape = tuple(_fov_shapes(tier)[si])
    fov = _build(res, "fov/construct", _make_fov, item, shape)
    if fov is None:
        return
    fracs = FOV_FRACTIONS_Q if tier == "quick" else FOV_FRACTIONS_T
    rots = FOV_ROT_Q if tier == "quick" else FOV_ROT_T
    els = FOV_EL_Q if tier == "quick" else FOV_EL_T
    ha = shape[1] / 2
    he = (shape[2] if shape[0] == "rect" else shape[1]) / 2
    for az_p in _fov_az(tier, seed)[a0:a1]:
        for el_p in els:
            p = vg.sez_from_azel(az_p * DEG, el_p * DEG, 1200.0, P_VEL)
            high = el_p >= 89.0
            got = _call(fov.inFieldOfView, _arr(p), _arr(p))
            res.case(f"fov/{shape[0]}/reflexive", {"shape": list(shape), "az_deg": az_p, "el_deg": el_p}, _boolish(got) and bool(got),
                     nontrivial=high or az_p < 1.0 or az_p > 359.0, signature=f"C14/fov/{shape[0]}/reflexive",
                     observed=repr(got), expected=True, item=item)
            k = 0
            for fa in fracs:
                for fe in fracs:
                    el_t = el_p + fe * he
                    if abs(el_t) > 90.0 - 1e-3:
                        continue  # target past the zenith/nadir is not an (az, el) lattice point; zenith has its own item
                    az_t = math.fmod(az_p + fa * ha + 720.0, 360.0)
                    k += 1
                    rho = 800.0 if k % 2 else 36000.0
                    t = vg.sez_from_azel(az_t * DEG, el_t * DEG, rho, T_VEL)
                    case = {"shape": list(shape), "az_deg": az_p, "el_deg": el_p, "fa": fa, "fe": fe, "az_t_deg": az_t,
                            "el_t_deg": el_t, "rot_deg": 0.0}
                    base = _fov_eval(res, fov, shape, p, t, case, item, high)
                    _fov_rotations(res, fov, shape, p, t, base, case, item, rots, high)


def _run_fov_radial(res, item):
    """Conic: targets at angular distance f*half along 8 position angles (incl. across the seam and over the pole)."""
    _, tier, seed, si = item
    shape = tuple(_fov_shapes(tier)[si])
    fov = _build(res, "fov/construct", _make_fov, item, shape)
    if fov is None:
        return
    half = shape[1] * DEG / 2
    rots = FOV_ROT_Q if tier == "quick" else FOV_ROT_T
    fr = [0.0, 0.5, 0.98, 1.02, 1.5] if tier == "quick" else [0.0, 0.25, 0.5, 0.98, 0.999, 1.001, 1.02, 1.5, 1.9]
    for az_p in _fov_az(tier, seed):
        for el_p in (FOV_EL_Q if tier == "quick" else FOV_EL_T):
            p = vg.sez_from_azel(az_p * DEG, el_p * DEG, 1200.0, P_VEL)
            pu = vg.unit(p)
            for f in fr:
                for th in range(8 if tier == "quick" else 16):
                    theta = th * (2 * math.pi / (8 if tier == "quick" else 16)) + 0.1
                    tu = vg.offset_target(pu, f * half, theta)
                    t = vg.scale(tu, 5000.0) + list(T_VEL)
                    if vg.near_zenith_ambiguous(t):
                        continue
                    case = {"shape": list(shape), "az_deg": az_p, "el_deg": el_p, "f": f, "theta": theta, "rot_deg": 0.0}
                    base = _fov_eval(res, fov, shape, p, t, case, item, el_p >= 89.0)
                    _fov_rotations(res, fov, shape, p, t, base, case, item, rots[:1], el_p >= 89.0)


def _run_fov_zenith(res, item):
    """Pointing (or target) exactly at the zenith: azimuth comes from the velocity."""
    _, tier, seed, si = item
    shape = tuple(_fov_shapes(tier)[si])
    fov = _build(res, "fov/construct", _make_fov, item, shape)
    if fov is None:
        return
    rots = FOV_ROT_Q if tier == "quick" else FOV_ROT_T
    ha = shape[1] / 2
    he = (shape[2] if shape[0] == "rect" else shape[1]) / 2
    for az_v in (0.0, 90.0, 359.9, math.fmod(200.3 + 13.7 * seed, 360.0)):
        vel = (-math.cos(az_v * DEG) * 0.5, math.sin(az_v * DEG) * 0.5, 0.05)
        z = vg.zenith_vector(900.0, vel)
        got = _call(fov.inFieldOfView, _arr(z), _arr(z))
        res.case(f"fov/{shape[0]}/reflexive", {"shape": list(shape), "az_deg": az_v, "el_deg": 90.0}, _boolish(got) and bool(got),
                 nontrivial=True, signature=f"C14/fov/{shape[0]}/reflexive", observed=repr(got), expected=True, item=item)
        for fa in (-1.02, -0.98, 0.0, 0.5, 0.98, 1.02):
            for fe in (0.5, 0.98, 1.02):
                el_o = 90.0 - fe * he
                az_o = math.fmod(az_v + fa * ha + 720.0, 360.0)
                other = vg.sez_from_azel(az_o * DEG, el_o * DEG, 20000.0, T_VEL)
                for mode, (p, t) in (("zenith_pointing", (z, other)), ("zenith_target", (other, z))):
                    case = {"shape": list(shape), "mode": mode, "az_deg": az_v, "el_deg": 90.0, "fa": fa, "fe": fe, "rot_deg": 0.0}
                    base = _fov_eval(res, fov, shape, p, t, case, item, True)
                    _fov_rotations(res, fov, shape, p, t, base, case, item, rots, True)


# ------------------------------------------------------------------------------------------------ next to the vertical
# Directions a few arc-seconds (down to 1e-9 rad) from the local vertical still have a perfectly well defined azimuth: the
# bearing of the horizontal part of the POSITION offset.  Only exactly at the zenith (within the rounding of the elevation,
# visgeom.POLE_BAND) is the velocity heading used (documented convention).  Every azimuth-consuming predicate is therefore
# run on zenith distance x bearing x relative velocity (zero, and headings that differ from the bearing).
ZEN_ZD_Q = [0.0, 1e-9, 1e-7, 1e-6, 5e-6, 1e-5, 2e-5, 1e-4, 1e-3]
ZEN_ZD_T = ZEN_ZD_Q + [1e-8, 3e-7, 3e-6, 1.5e-5, 1.6e-5, 5e-5, 1e-2]
# (heading of the horizontal velocity relative to the bearing of the position [deg], horizontal speed [km/s]); None = at rest
ZEN_VEL = [None, (100.0, 2.0), (180.0, 1e-3), (323.0, 0.5)]
ZEN_OTHER_VEL = (250.0, 1.3)  # velocity of the partner direction (the one that is not varied)
ZEN_MODES = ["near_zenith_pointing", "near_zenith_target", "both_near_zenith", "near_nadir_pointing", "both_near_nadir"]
ZEN_FA = [-1.02, -0.98, 0.0, 0.5, 0.98, 1.02]
ZEN_FE = [0.0, 0.5, 0.98, 1.02]
ZEN_DTHETA = [("same_bearing", 0.0, 0.0), ("inside_edge", 0.98, 0.0), ("outside_edge", 1.02, 0.0), ("opposite", 0.0, 180.0)]


def _zen_zds(tier):
    return ZEN_ZD_Q if tier == "quick" else ZEN_ZD_T


def _zen_bearings(tier, seed):
    b = [0.0, 40.0, 90.0, 135.0, 180.0, math.fmod(200.3 + 13.7 * seed, 360.0), 270.0, 359.9]
    if tier == "thorough":
        b += [1e-4, 22.5, 67.5, 112.5, 157.5, 225.0, 315.0, 359.9999]
    return b


def _zen_velocity(bearing_deg, spec):
    if spec is None:
        return (0.0, 0.0, 0.0)
    heading = (bearing_deg + spec[0]) * DEG
    return (-spec[1] * math.cos(heading), spec[1] * math.sin(heading), 0.05)


def _pole_vector(zd, bearing_deg, rho, vel, nadir=False):
    """6-vector at angle ``zd`` from the zenith (nadir), horizontal offset towards ``bearing_deg``; zd == 0: exactly on
    the vertical.  Built from sin/cos of the small angle itself (no cancellation)."""
    if zd == 0.0:
        pos = [0.0, 0.0, -rho if nadir else rho]
    else:
        b = bearing_deg * DEG
        pos = [-rho * math.sin(zd) * math.cos(b), rho * math.sin(zd) * math.sin(b), (-rho if nadir else rho) * math.cos(zd)]
    return pos + list(vel)


def _run_fov_near_zenith(res, item):
    """Boresight and/or target within {0 .. 1e-3} rad of the zenith, on 8 bearings, with relative velocities that do not
    point along the bearing: membership must follow the position offsets (reference: visgeom, atan2 on the components)."""
    _, tier, seed, si, mi = item
    shape = tuple(_fov_shapes(tier)[si])
    mode = ZEN_MODES[mi]
    fov = _build(res, "fov/construct", _make_fov, item, shape)
    if fov is None:
        return
    kind = shape[0]
    ha = shape[1] * DEG / 2
    he = (shape[2] if kind == "rect" else shape[1]) * DEG / 2
    zds = _zen_zds(tier)
    bearings = _zen_bearings(tier, seed)
    nadir = "nadir" in mode  # a space sensor looking down: no velocity convention there, the bearing is always the position's
    for zi, zd in enumerate(zds):
        for vi, spec in enumerate(ZEN_VEL):
            groups = {}  # same configuration relative to the bearing -> verdicts over the bearings (rotation about the vertical)
            for bi, b in enumerate(bearings):
                near = _pole_vector(zd, b, 1200.0 if bi % 2 else 36000.0, _zen_velocity(b, spec), nadir=nadir)
                pairs = []
                if mode.startswith("both"):
                    spec2 = ZEN_VEL[(vi + 1) % len(ZEN_VEL)]
                    for zd2 in zds:
                        for label, f, extra in ZEN_DTHETA:
                            b2 = math.fmod(b + f * ha / DEG + extra + 720.0, 360.0)
                            other = _pole_vector(zd2, b2, 800.0, _zen_velocity(b2, spec2), nadir=nadir)
                            pairs.append(((zd2, label), {"zd_other_rad": zd2, "other": label, "fa": f}, near, other))
                else:
                    for fa in ZEN_FA:
                        for fe in ZEN_FE:
                            az_o = math.fmod(b + fa * ha / DEG + 720.0, 360.0)
                            el_o = (-1.0 if nadir else 1.0) * (math.pi / 2 - zd - fe * he)
                            # (its velocity turns with the bearing too: the 8 bearings are rotations of one configuration)
                            other = vg.sez_from_azel(az_o * DEG, el_o, 800.0 if fe else 20000.0, _zen_velocity(b, ZEN_OTHER_VEL))
                            p, t = (other, near) if mode == "near_zenith_target" else (near, other)
                            pairs.append(((fa, fe), {"fa": fa, "fe": fe}, p, t))
                for gkey, extra, p, t in pairs:
                    case = dict({"shape": list(shape), "mode": mode, "zenith_distance_rad": zd, "bearing_deg": b,
                                 "velocity": "at_rest" if spec is None else list(spec), "rot_deg": 0.0}, **extra)
                    got, _exp, either, _seam = _fov_eval(res, fov, shape, p, t, case, item, True)
                    groups.setdefault(gkey, []).append((b, got, either))
            for gkey, rows in groups.items():
                verdicts = {g for _b, g, e in rows if not e}
                res.case(f"fov/{kind}/rotation", {"shape": list(shape), "mode": mode, "zenith_distance_rad": zd,
                                                   "velocity": "at_rest" if spec is None else list(spec), "group": list(gkey),
                                                   "bearings_deg": [r[0] for r in rows]},
                         len(verdicts) <= 1, nontrivial=len([1 for r in rows if not r[2]]) > 1,
                         signature=f"C14/fov/{kind}/rotation_variant/{'near_nadir' if nadir else 'near_zenith'}", observed=[r[1] for r in rows], expected="equal",
                         item=item)


# ================================================================================================ masks (Sensor.isVisible)
class _Host:
    """Stand-in for the SensingAgent: isVisible only reads the host ECI state."""

    def __init__(self, eci_state):
        self.eci_state = np.array(eci_state, dtype=float)
        self.time = 0.0


def _make_sensor(az_mask, el_mask, host_state, min_range=100.0, max_range=50000.0):
    cfg = RadarConfig(
        azimuth_range=list(az_mask), elevation_range=list(el_mask), covariance=scen.RADAR_COV, aperture_diameter=27.0,
        efficiency=0.9, slew_rate=3.0, tx_power=2.5e6, tx_frequency=1.5e9, min_detectable_power=1.4314085925969573e-14,
        minimum_range=min_range, maximum_range=max_range,
        field_of_view={"fov_shape": "conic", "cone_angle": 10.0},
    )
    sensor = sensorFactory(cfg)
    sensor.host = _Host(host_state)
    return sensor


def _hosts(seed):
    lat = math.radians(31.0 + math.fmod(7.3 * seed, 20.0))
    lon = math.radians(math.fmod(101.0 + 53.0 * seed, 360.0))
    u = [math.cos(lat) * math.cos(lon), math.cos(lat) * math.sin(lon), math.sin(lat)]
    return [
        ("ground", vg.scale(u, R + 0.1) + [0.0, 0.0, 0.0]),
        ("space", vg.scale(vg.unit([0.3, -0.5, 0.8]), 7000.0) + [5.0, 4.0, 3.5]),
    ]


def _visible_expect(host, tgt, sez, az_mask, el_mask, min_range, max_range):
    """(visible, explanation name, either_way, az, el, az_margin) in the documented order of the exits."""
    rho = vg.norm(sez)
    either = abs(rho - min_range) < 1e-9 or abs(rho - max_range) < 1e-9
    az, el = vg.azimuth(sez), vg.elevation(sez)
    admitted, margin = vg.mask_admits(az, az_mask[0] * DEG, az_mask[1] * DEG)
    if rho < min_range:
        return False, "MINIMUM_RANGE", either, az, el, margin
    if rho > max_range:
        return False, "MAXIMUM_RANGE", either, az, el, margin
    vis, closest, _t, _l = vg.los_exact(tgt, host)
    either = either or abs(closest - R) < vg.los_band(tgt, host)
    if not vis:
        return False, "LINE_OF_SIGHT", either, az, el, margin
    lo, hi = el_mask[0] * DEG, el_mask[1] * DEG
    el_band = ANG_BAND + vg.elevation_band(sez)  # arcsin-based elevation: eps / cos(el) more next to the zenith / nadir
    # (a mask end at the zenith / nadir itself has nothing beyond it: no band there)
    either = either or (lo > -math.pi / 2 and abs(el - lo) < el_band) or (hi < math.pi / 2 and abs(el - hi) < el_band)
    if el < lo or el > hi:
        return False, "ELEVATION_MASK", either, az, el, margin
    either = either or margin < ANG_BAND
    # within rounding of the zenith more than one azimuth is admissible (visgeom.azimuth_candidates); everywhere else the
    # azimuth is the bearing of the horizontal POSITION offset and the mask test is asserted
    cands, free = vg.azimuth_candidates(sez)
    if free:
        either = True
    elif len(cands) > 1:
        tests = [vg.mask_admits(c, az_mask[0] * DEG, az_mask[1] * DEG) for c in cands]
        either = either or len({adm for adm, _m in tests}) > 1 or any(m < ANG_BAND for _adm, m in tests)
    if admitted:
        return True, "VISIBLE", either, az, el, margin
    return False, "AZIMUTH_MASK", either, az, el, margin


def _mask_azimuths(tier, az_mask):
    step = 5.0 if tier == "quick" else 2.5
    az = [k * step * DEG for k in range(int(360 / step))]
    for end in az_mask:
        for off in (0.0, 1e-9, -1e-9, 1e-6, -1e-6):
            az.append(vg.wrap_0_2pi(end * DEG + off))
    for off in (1e-9, 1e-6, 1e-3):  # both sides of north
        az += [off, 2 * math.pi - off]
    return az


def _isvisible_case(res, sub, sensor, host, az_mask, el_mask, az, el_deg, rho, hname, item, lims=(100.0, 50000.0), sez=None,
                    extra=None):
    """``sez`` (with ``extra`` case fields) overrides the (az, el, rho) construction: directions next to the vertical."""
    pole = sez is not None
    if sez is None:
        sez = vg.sez_from_azel(az, el_deg * DEG, rho, T_VEL)
    tgt = vg.add(host[:3], vg.sez_to_eci_offset(host[:3], sez)) + [1.0, -2.0, 0.5]
    if vg.norm(tgt) < R + 1e-6:
        return  # a target below the surface is outside the quantifier (positions from the surface upwards)
    exp_vis, exp_why, either, oaz, _oel, margin = _visible_expect(host[:3], tgt, sez, az_mask, el_mask, *lims)
    got = _call(Sensor.isVisible, sensor, _arr(tgt), 10.0, 0.2, _arr(sez))
    got_vis, got_why = (bool(got[0]), getattr(got[1], "name", repr(got[1]))) if not isinstance(got, _Raised) else (None, repr(got))
    ok = either or (got_vis == exp_vis and got_why == exp_why and isinstance(got[1], Explanation))
    if either:
        res.either_way += 1
    wraps = az_mask[0] > az_mask[1]
    nontriv = exp_why in ("VISIBLE", "AZIMUTH_MASK") and (wraps or margin < 1e-5 or pole)
    if sub not in ("mask/azimuth", "mask/azimuth/near_zenith", "mask/azimuth/near_nadir"):
        nontriv = exp_why not in ("VISIBLE", "AZIMUTH_MASK")
    nontriv = nontriv and not either
    res.case(
        sub,
        {"host": hname, "az_mask_deg": list(az_mask), "el_mask_deg": list(el_mask), "az_rad": az, "az_deg": az / DEG,
         "el_deg": el_deg, "range_km": rho, "mask_wraps": wraps, "expected": exp_why, **(extra or {})},
        ok, nontrivial=nontriv,
        signature=f"C14/{sub}/{'wrapping' if wraps else 'plain'}/expected_{exp_why}/got_{got_why}",
        observed=[got_vis, got_why], expected=[exp_vis, exp_why], outcome=f"{'wrap' if wraps else 'plain'}:{exp_why}", item=item,
    )
    res.observe(got_vis, got_why, oaz)


def _run_mask(res, item):
    _, tier, seed, mi, hi = item
    az_mask = (MASKS_Q if tier == "quick" else MASKS_T)[mi]
    hname, host = _hosts(seed)[hi]
    for el_mask in EL_MASKS:
        sensor = _build(res, "mask/construct", _make_sensor, item, az_mask, el_mask, host)
        if sensor is None:
            continue
        got_masks = [list(np.asarray(sensor.az_mask, dtype=float)), list(np.asarray(sensor.el_mask, dtype=float))]
        want = [[az_mask[0] * DEG, az_mask[1] * DEG], [el_mask[0] * DEG, el_mask[1] * DEG]]
        res.case("mask/config_units", {"az_mask_deg": list(az_mask), "el_mask_deg": list(el_mask)},
                 fw.maxabs(got_masks[0], want[0]) < 1e-15 and fw.maxabs(got_masks[1], want[1]) < 1e-15,
                 signature="C14/mask/config_units", observed=got_masks, expected=want, item=item)
        for az in _mask_azimuths(tier, az_mask):
            for el in MASK_ELS:
                sub = "mask/azimuth" if el_mask[0] <= el <= el_mask[1] else "mask/elevation"
                _isvisible_case(res, sub, sensor, host, az_mask, el_mask, az, el, 1500.0, hname, item)


MASKS_ZEN_Q = [(0.0, 90.0), (350.0, 10.0), (10.0, 350.0), (180.0, 0.0), (270.0, 90.0), (45.0, 44.0)]
MASKS_ZEN_T = MASKS_ZEN_Q + [(0.0, 359.99), (90.0, 90.0), (200.0, 100.0)]
ZEN_RANGES = {"ground": [1500.0, 36000.0], "space": [1500.0, 36000.0]}
NADIR_RANGES = [300.0, 550.0]  # below the 7000 km host, above the surface


def _run_mask_zenith(res, item):
    """Azimuth mask of a real Radar for targets within {0 .. 1e-3} rad of the zenith (and, for the space host, of the
    nadir): every mask contains some of the 8 bearings and excludes others; relative velocity at rest / off the bearing."""
    _, tier, seed, mi, hi = item
    az_mask = (MASKS_ZEN_Q if tier == "quick" else MASKS_ZEN_T)[mi]
    hname, host = _hosts(seed)[hi]
    sides = [("near_zenith", False, (-89.9, 90.0), ZEN_RANGES[hname])]
    if hname == "space":
        sides.append(("near_nadir", True, (-90.0, 90.0), NADIR_RANGES))
    for side, nadir, el_mask, ranges in sides:
        # the configuration forbids an elevation mask that starts at -90 deg exactly: the sensor is built with -89.9 and
        # the mask is widened through the public setter
        sensor = _build(res, "mask/construct", _make_sensor, item, az_mask, (-89.9, 90.0), host)
        if sensor is None:
            continue
        if nadir:
            try:
                sensor.el_mask = np.array([-math.pi / 2, math.pi / 2])
            except Exception as exc:  # noqa: BLE001
                res.violate("mask/construct", {"el_mask": "[-pi/2, pi/2] through the setter"}, signature="C14/mask/construct",
                            observed=f"{type(exc).__name__}: {exc}"[:200], expected="accepted (documented range)", item=item)
                continue
        for zd in _zen_zds(tier):
            for b in _zen_bearings(tier, seed):
                for spec in ZEN_VEL:
                    for rho in ranges:
                        sez = _pole_vector(zd, b, rho, _zen_velocity(b, spec), nadir=nadir)
                        extra = {"side": side, "zenith_distance_rad": zd, "bearing_deg": b,
                                 "velocity": "at_rest" if spec is None else list(spec)}
                        _isvisible_case(res, f"mask/azimuth/{side}", sensor, host, az_mask, el_mask, b * DEG,
                                        -90.0 if nadir else 90.0, rho, hname, item, sez=sez, extra=extra)


def _run_mask_range(res, item):
    _, tier, seed = item
    for hname, host in _hosts(seed):
        for az_mask in ((350.0, 10.0), (10.0, 350.0)):
            sensor = _build(res, "mask/construct", _make_sensor, item, az_mask, (-89.9, 90.0), host)
            if sensor is None:
                continue
            for rho in (50.0, 99.999, 100.001, 1000.0, 5000.0, 49999.0, 50001.0, 1e6):
                for az_deg in (0.0, 5.0, 9.999, 10.001, 180.0, 349.999, 350.001, 359.9):
                    for el in (-80.0, -20.0, -10.0, 10.0, 89.0):
                        _isvisible_case(res, "mask/range_los_order", sensor, host, az_mask, (-89.9, 90.0), az_deg * DEG, el,
                                        rho, hname, item)


# ================================================================================================ Sun fraction
def _run_sun(res, item):
    _, tier, seed, si, ri = item
    sun = _sun_vectors(seed)[si]
    r = _sun_radii(tier)[ri]
    shat = vg.unit(sun)
    e1, e2 = vg.perp_frame(shat)
    a0 = math.asin(vg.R_SUN / vg.norm(sun))
    edge = math.asin(min(1.0, R / r))
    coarse = 5.0 if tier == "quick" else 2.0
    thetas = [k * coarse * DEG for k in range(int(180 / coarse) + 1)]
    kmax, div = (14, 4.0) if tier == "quick" else (40, 8.0)
    thetas += [edge + k * a0 / div for k in range(-kmax, kmax + 1)]
    thetas = sorted({th for th in thetas if 0.0 <= th <= math.pi})
    for pi_, perp in enumerate((e1, vg.unit(vg.add(e1, e2)))):
        prev = None
        for th in thetas:
            sat = vg.add(vg.scale(shat, -r * math.cos(th)), vg.scale(perp, r * math.sin(th)))
            frac_ref, kind, (a, b, c) = vg.sun_fraction(sat, sun)
            got = _call(su.calculateSunVizFraction, _arr(sat), _arr(sun))
            gotf = _f(got)
            case = {"r_km": r, "theta_rad": th, "sun_km": sun, "perp": pi_, "kind": kind, "a": a, "b": b, "c": c}
            near = abs(c - (b - a)) < 2 * a or abs(c - (a + b)) < 2 * a
            nontriv = (kind == "penumbra" or near) and r >= R + 1e-9
            res.case("sun/range", case, math.isfinite(gotf) and 0.0 <= gotf <= 1.0, nontrivial=nontriv,
                     signature="C14/sun/range", observed=gotf, expected="[0,1]", item=item)
            surface_day = r < R + 1.0 and vg.norm(sun) >= vg.norm([q - p for p, q in zip(sat, sun)])
            # the lattice radius R itself: a float position whose exact norm is below R is inside the Earth (outside
            # the quantifier); decided in rational arithmetic
            inside = r < R + 1e-9 and sum(Fraction(x) ** 2 for x in sat) < Fraction(R) ** 2
            surface_day = surface_day or inside
            if surface_day:
                res.either_way += 1  # docstring: only valid for orbiting satellites
            # b = arcsin(R/r) is ill-conditioned at the surface: db <= 4 eps / sqrt(1 - x^2), d(fraction)/db <= 2/(pi a)
            xx = min(1.0, R / r)
            tol = SUN_TOL + (2 / (math.pi * a)) * 4 * vg.EPS / math.sqrt(max(1.0 - xx * xx, 2 * vg.EPS))
            # exactly on the shadow axis the cosine of c rounds to 1 + ulp in some cases and arccos leaves its domain
            on_axis_lit = c < 1e-7 and gotf == 1.0 and frac_ref == 0.0
            axis = "on_axis_arccos_domain/" if on_axis_lit else ""
            ok = surface_day or (math.isfinite(gotf) and abs(gotf - frac_ref) <= tol)
            res.case("sun/fraction", case, ok, nontrivial=nontriv, signature=f"C14/sun/{axis}fraction/{kind}", observed=gotf,
                     expected=frac_ref, outcome=kind, item=item)
            if vg.dot(sat, shat) > 0 and c >= a + b + ANG_BAND and not inside:
                res.case("sun/sunward_is_one", case, gotf == 1.0, nontrivial=th < math.pi / 2 + 0.2,
                         signature="C14/sun/sunward_is_one", observed=gotf, expected=1.0, item=item)
            if c <= b - a - ANG_BAND and not inside:
                res.case("sun/umbra_is_zero", case, gotf == 0.0, nontrivial=near or th == 0.0,
                         signature=f"C14/sun/{axis}umbra_is_zero", observed=gotf, expected=0.0, item=item)
            if prev is not None and not surface_day:
                res.case("sun/monotone", case, math.isfinite(gotf) and gotf >= prev - 1e-9, nontrivial=kind == "penumbra",
                         signature="C14/sun/monotone", observed=[prev, gotf], expected="non-decreasing away from the axis", item=item)
            if not surface_day and not on_axis_lit:  # an on-axis NaN case is reported once, by its own signature
                prev = gotf
            res.observe(gotf)
    # the documented deep-umbra point: on the axis, 2 Earth radii behind the Earth
    if ri == 0:
        sat = vg.scale(shat, -2 * R)
        got = _f(_call(su.calculateSunVizFraction, _arr(sat), _arr(sun)))
        res.case("sun/umbra_is_zero", {"r_km": 2 * R, "theta_rad": 0.0, "sun_km": sun, "kind": "axis_2R", "c": 0.0}, got == 0.0,
                 nontrivial=True, signature=f"C14/sun/{'on_axis_arccos_domain/' if got == 1.0 else ''}umbra_is_zero", observed=got,
                 expected=0.0, item=item)
        flux = _f(_call(su.calculateIncidentSolarFlux, 2.0, _arr(sat), _arr(sun)))
        res.case("sun/flux_zero_in_umbra", {"r_km": 2 * R, "c": 0.0}, flux == 0.0, nontrivial=True,
                 signature=f"C14/sun/{'on_axis_arccos_domain/' if got == 1.0 else ''}flux", observed=flux, expected=0.0, item=item)


# ================================================================================================ Earth limb
def _run_limb(res, item):
    _, tier, seed, ri = item
    r = _limb_radii(tier)[ri]
    cone = vg.limb_cone(r)
    # arcsin close to 1 (sensor on the limb sphere) amplifies rounding by 1/sqrt(1-x^2)
    x = (R + vg.ATMOSPHERE) / r
    band = ANG_BAND + 4 * vg.EPS / math.sqrt(max(1.0 - x * x, 2 * vg.EPS))  # 4.2e-8 rad on the limb sphere itself
    etas = [k * 7.5 * DEG for k in range(25)] if tier == "quick" else [k * 2.5 * DEG for k in range(73)]
    for off in LIMB_OFFSETS:
        etas += [cone + off, cone - off]
    etas.append(cone)
    etas = sorted({e for e in etas if 0.0 <= e <= math.pi})
    for di, d in enumerate(_generic_dirs(seed, 3)):
        state = vg.scale(d, r) + [7.5 * c for c in vg.perp_frame(d)[0]]
        for az_deg in (0.0, 77.0, 180.0, 271.5):
            for eta in etas:
                for rho in (100.0, 5000.0):
                    el = eta - math.pi / 2
                    sez = vg.sez_from_azel(az_deg * DEG, el, rho, T_VEL)
                    oeta = vg.nadir_angle(sez)
                    exp = oeta < cone
                    either = abs(oeta - cone) < band
                    got = _call(su.checkSpaceSensorEarthLimbObscuration, _arr(state), _arr(sez))
                    if isinstance(got, _Raised) and abs(r - (R + vg.ATMOSPHERE)) < 1e-9:
                        either = True  # |state| rounds one ulp below the limb radius: the documented ValueError
                    if either:
                        res.either_way += 1
                    res.case(
                        "limb/tangent_cone",
                        {"r_km": r, "dir": di, "az_deg": az_deg, "nadir_angle_rad": oeta, "cone_rad": cone, "range_km": rho,
                         "expected": exp},
                        either or (_boolish(got) and bool(got) == exp), nontrivial=abs(oeta - cone) < 1e-2 and not either,
                        signature=f"C14/limb/{'false_clear' if exp else 'false_obscured'}", observed=repr(got), expected=exp,
                        outcome="obscured" if exp else "clear", item=item,
                    )
                    res.observe(bool(got))
    got = _f(_call(su.getBodyLimbConeAngle, R + vg.ATMOSPHERE, r))
    res.case("limb/cone_angle", {"r_km": r}, abs(got - cone) < band, nontrivial=True, signature="C14/limb/cone_angle",
             observed=got, expected=cone, item=item)


def _run_limb_raises(res, item):
    sez = vg.sez_from_azel(1.0, -0.5, 300.0, T_VEL)
    for r in (R, 6400.0, R + 99.999, R + 100.0 - 1e-9):
        state = [r, 0.0, 0.0, 0.0, 7.5, 0.0]
        try:
            got = repr(_raw(su.checkSpaceSensorEarthLimbObscuration, _arr(state), _arr(sez)))
            raised = False
        except ValueError:
            got, raised = "ValueError", True
        res.case("limb/below_limb_raises", {"r_km": r}, raised, nontrivial=True, signature="C14/limb/below_limb_raises",
                 observed=got, expected="ValueError (observer below the limb sphere)", item=item)
        res.observe(raised)


# ================================================================================================ lighting / exclusion cones
def _cone_thetas(tier, threshold):
    step = 5.0 if tier == "quick" else 1.0
    th = [k * step * DEG for k in range(int(180 / step) + 1)]
    for off in (1e-9, 1e-6, 1e-3, 1e-1):
        th += [threshold + off, threshold - off]
    th.append(threshold)
    return sorted({t for t in th if 1e-3 <= t <= math.pi - 1e-3})


def _cone_lattice(res, sub, fn_call, axis_unit, tier, threshold, case0, item, want_ge=True):
    """Predicate 'angle(axis, v) >= threshold' on vectors v at lattice angles from ``axis_unit`` in 3 planes."""
    e1, e2 = vg.perp_frame(axis_unit)
    for pi_, perp in enumerate((e1, e2, vg.unit(vg.add(e1, vg.scale(e2, -0.7))))):
        thetas = _cone_thetas(tier, threshold) + ([0.0, math.pi] if pi_ == 0 else [])
        for th in thetas:
            at_pole = th in (0.0, math.pi)
            if at_pole:  # exactly along / against the axis: the cosine is +-1 up to rounding
                v = vg.scale(axis_unit, 1.0 if th == 0.0 else -1.0)
            else:
                v = vg.add(vg.scale(axis_unit, math.cos(th)), vg.scale(perp, math.sin(th)))
            ang = vg.angle_between(axis_unit, v)
            exp = ang >= threshold
            either = abs(ang - threshold) < ANG_BAND
            got = fn_call(v)
            if either:
                res.either_way += 1
            kind = "pole_arccos_domain" if at_pole else ("false_reject" if exp else "false_accept")
            res.case(sub, dict(case0, plane=pi_, angle_rad=ang, threshold_rad=threshold, expected=exp, at_pole=at_pole),
                     _boolish(got) and (either or bool(got) == exp),
                     nontrivial=(abs(ang - threshold) < 1e-2 or at_pole) and not either,
                     signature=f"C14/{sub}/{kind}", observed=repr(got), expected=exp,
                     outcome=("pole:" if at_pole else "") + ("ok" if exp else "excluded"), item=item)
            res.observe(bool(got))


def _run_ground_light(res, item):
    _, tier, seed, k = item
    sun_u = vg.unit(_sun_vectors(seed)[k])
    for buf in (None, 0.0, math.pi / 6):
        for radius in (R, 7000.0):
            thr = math.pi / 2 + (math.pi / 12 if buf is None else buf)

            def call(v, buf=buf, radius=radius):
                pos = _arr(vg.scale(v, radius))
                if buf is None:
                    return _call(su.checkGroundSensorLightingConditions, pos, _arr(sun_u))
                return _call(su.checkGroundSensorLightingConditions, pos, _arr(sun_u), buf)

            _cone_lattice(res, "lighting/ground", call, sun_u, tier, thr, {"buffer": "default" if buf is None else buf, "r_km": radius, "sun": k}, item)


def _run_space_light(res, item):
    _, tier, seed = item
    for k in range(3):
        sun_u = vg.unit(_sun_vectors(seed)[k])
        for cone in (None, math.pi / 6):
            for length in (1.0, 35000.0):
                thr = math.pi / 12 if cone is None else cone

                def call(v, cone=cone, length=length, sun_u=sun_u):
                    bs = _arr(vg.scale(v, length))
                    if cone is None:
                        return _call(su.checkSpaceSensorLightingConditions, bs, _arr(sun_u))
                    return _call(su.checkSpaceSensorLightingConditions, bs, _arr(sun_u), cone)

                _cone_lattice(res, "lighting/space", call, sun_u, tier, thr, {"cone": "default" if cone is None else cone, "len_km": length, "sun": k}, item)


def _run_galactic(res, item):
    _, tier, seed = item
    for cone in (None, math.pi / 12):
        for length in (1.0, 35000.0):
            thr = math.pi / 30 if cone is None else cone

            def call(v, cone=cone, length=length):
                bs = _arr(vg.scale(v, length))
                if cone is None:
                    return _call(su.checkGalacticExclusionZone, bs)
                return _call(su.checkGalacticExclusionZone, bs, cone)

            _cone_lattice(res, "exclusion/galactic", call, vg.GALACTIC_UNIT, tier, thr, {"cone": "default" if cone is None else cone, "len_km": length}, item)


# ================================================================================================ azimuth / elevation helpers
def _azel_els(tier):
    els = [-90.0, -89.0, -45.0, 0.0, 30.0, 89.0, 89.999]
    if tier == "thorough":
        els += [-60.0, -10.0, 10.0, 45.0, 60.0, 80.0, 89.9]
    return els


def _azel_azimuths(tier, seed):
    step = 15.0 if tier == "quick" else 3.0
    az = [k * step * DEG for k in range(int(360 / step))]
    az += [math.fmod(0.123 + 0.917 * seed, step) * DEG + k * step * DEG for k in range(int(360 / step))]
    for q in (0.0, math.pi / 2, math.pi, 1.5 * math.pi):
        for off in (1e-12, 1e-9, 1e-6):
            az += [vg.wrap_0_2pi(q + off), vg.wrap_0_2pi(q - off)]
    return az


def _run_azel(res, item):
    _, tier, seed, ei = item
    el_deg = _azel_els(tier)[ei]
    for az in _azel_azimuths(tier, seed):
        for rho in (1.0, 1000.0, 4.0e5):
            if abs(el_deg) == 90.0:
                sez = [0.0, 0.0, math.copysign(rho, el_deg), 0.3, 0.4, 0.0]
            else:
                sez = vg.sez_from_azel(az, el_deg * DEG, rho, T_VEL)
            oaz, oel = vg.azimuth(sez), vg.elevation(sez)
            gaz, gel, grho = (_f(_call(f, _arr(sez))) for f in (getAzimuth, getElevation, getRange))
            case = {"az_rad": az, "el_deg": el_deg, "range_km": rho}
            seam = min(oaz, 2 * math.pi - oaz) < 1e-5
            quad = min(abs(vg.wrapped_diff(oaz, q)) for q in (0.0, math.pi / 2, math.pi, 1.5 * math.pi)) < 1e-5
            # arcsin(z/rho) near the poles: error <= sqrt(2 eps) ~ 2.1e-8 at |el| -> 90 deg, eps/cos(el) elsewhere
            el_tol = 1e-12 + 4 * vg.EPS / max(math.cos(oel), 1e-8) if abs(el_deg) < 90.0 else 1e-12
            res.case("azel/elevation", case, abs(gel - oel) <= min(el_tol, 3e-8) and -math.pi / 2 <= gel <= math.pi / 2,
                     nontrivial=abs(el_deg) >= 89.0 or el_deg < 0, signature="C14/azel/elevation", observed=gel, expected=oel, item=item)
            res.case("azel/range", case, abs(grho - rho) <= 1e-12 * rho, signature="C14/azel/range", observed=grho, expected=rho, item=item)
            if abs(el_deg) != 90.0:
                # atan2 of the horizontal components: relative rounding of the components only (cos(el) cancels)
                ok = vg.circ_dist(gaz, oaz) <= 1e-12
                res.case("azel/azimuth", case, ok, nontrivial=seam or quad or abs(el_deg) >= 89.0,
                         signature=f"C14/azel/azimuth/quadrant{int(oaz // (math.pi / 2)) % 4}", observed=gaz, expected=oaz,
                         outcome=f"q{int(oaz // (math.pi / 2)) % 4}", item=item)
                in_range = 0.0 <= gaz < 2 * math.pi
                at_top = gaz == 2 * math.pi and min(oaz, 2 * math.pi - oaz) < 1e-15
                if at_top:
                    res.either_way += 1  # -tiny + 2pi rounds to 2pi: within one ulp of the seam
                res.case("azel/azimuth_range", case, in_range or at_top, nontrivial=seam, signature="C14/azel/azimuth_range",
                         observed=gaz, expected="[0, 2pi)", item=item)
            res.observe(gaz, gel)


def _run_azel_zenith(res, item):
    _, tier, seed = item
    n = 24 if tier == "quick" else 120
    for k in range(n):
        azv = vg.wrap_0_2pi(k * 2 * math.pi / n + 0.01 * (seed % 7))
        for speed in (1e-3, 2.0):
            for rho in (10.0, 42000.0):
                vel = (-speed * math.cos(azv), speed * math.sin(azv), 0.7)
                sez = vg.zenith_vector(rho, vel)
                gaz, gel = _f(_call(getAzimuth, _arr(sez))), _f(_call(getElevation, _arr(sez)))
                case = {"az_velocity_rad": azv, "speed": speed, "range_km": rho}
                res.case("azel/zenith_azimuth_from_velocity", case, vg.circ_dist(gaz, vg.azimuth(sez)) <= 1e-12, nontrivial=True,
                         signature="C14/azel/zenith_azimuth", observed=gaz, expected=vg.azimuth(sez), item=item)
                res.case("azel/elevation", case, gel == math.pi / 2, nontrivial=True, signature="C14/azel/elevation", observed=gel,
                         expected=math.pi / 2, item=item)
                # a position 1e-3 rad off the zenith must use the position, not the velocity
                off = vg.sez_from_azel(vg.wrap_0_2pi(azv + 2.0), math.pi / 2 - 1e-3, rho, vel)
                gaz2 = _f(_call(getAzimuth, _arr(off)))
                res.case("azel/azimuth", dict(case, near_zenith=True), vg.circ_dist(gaz2, vg.azimuth(off)) <= 1e-9, nontrivial=True,
                         signature="C14/azel/azimuth/near_zenith", observed=gaz2, expected=vg.azimuth(off), item=item)
                res.observe(gaz, gaz2)


def _run_azel_near_pole(res, item):
    """getAzimuth / getElevation within {0 .. 1e-3} rad of the zenith and of the nadir: the azimuth is the bearing of the
    horizontal position offset for every zenith distance the elevation can resolve, whatever the velocity is."""
    _, tier, seed = item
    bearings = _zen_bearings(tier, seed)
    for q in (0.0, 90.0, 180.0, 270.0):  # both sides of the quadrant boundaries and of the seam
        bearings = bearings + [math.fmod(q + 1e-7 + 360.0, 360.0), math.fmod(q - 1e-7 + 360.0, 360.0)]
    for nadir in (False, True):
        side = "near_nadir" if nadir else "near_zenith"
        for zd in _zen_zds(tier):
            for b in bearings:
                for spec in ZEN_VEL:
                    for rho in (10.0, 42000.0):
                        sez = _pole_vector(zd, b, rho, _zen_velocity(b, spec), nadir=nadir)
                        gaz, gel = _f(_call(getAzimuth, _arr(sez))), _f(_call(getElevation, _arr(sez)))
                        cands, free = vg.azimuth_candidates(sez)
                        oel = vg.elevation(sez)
                        case = {"side": side, "zenith_distance_rad": zd, "bearing_deg": b, "range_km": rho,
                                "velocity": "at_rest" if spec is None else list(spec)}
                        if free or len(cands) > 1:
                            res.either_way += 1
                        # atan2 of the two horizontal components as they are: 1e-12 rad (as in azel/azimuth)
                        ok = 0.0 <= gaz <= 2 * math.pi and (free or any(vg.circ_dist(gaz, c) <= 1e-12 for c in cands))
                        res.case("azel/azimuth", case, ok, nontrivial=not free and len(cands) == 1,
                                 signature=f"C14/azel/azimuth/{side}", observed=gaz, expected=cands if not free else "undefined",
                                 outcome=side, item=item)
                        res.case("azel/elevation", case, abs(gel - oel) <= 1e-12 + vg.elevation_band(sez), nontrivial=True,
                                 signature="C14/azel/elevation", observed=gel, expected=oel, item=item)
                        res.observe(gaz, gel)


def _run_wrap(res, item):
    base = [0.0, 1e-12, -1e-12, math.pi / 2, -math.pi / 2, math.pi - 1e-12, math.pi, math.pi + 1e-12, -math.pi,
            2 * math.pi - 1e-12, 2 * math.pi, 2 * math.pi + 1e-12, -2 * math.pi, 0.3, -0.3, 3.0, -3.0, 6.0, -6.0]
    for x in base:
        for turns in (0, 1, -1, 7, -7, 1000, -1000):
            ang = x + turns * 2 * math.pi
            got = _f(_call(wrapAngle2Pi, ang))
            # congruent to the input (error: one rounding of the input magnitude) and inside [0, 2pi]
            tol = 1e-15 + 4 * vg.EPS * max(abs(ang), 2 * math.pi)
            ok = vg.circ_dist(got, ang) <= tol and 0.0 <= got <= 2 * math.pi
            top = got == 2 * math.pi
            if top:
                res.either_way += 1
            res.case("wrap/0_2pi", {"angle": ang, "turns": turns}, ok, nontrivial=turns != 0 or ang < 0 or ang >= 2 * math.pi,
                     signature=f"C14/wrap/0_2pi/{'negative' if ang < 0 else 'positive'}", observed=got,
                     expected=vg.wrap_0_2pi(ang), item=item)
            res.observe(got)


def _run_subtended(res, item):
    _, tier, seed = item
    dirs = _axes_and_diagonals() + _generic_dirs(seed, 6)
    angles = [0.0, 1e-6, 1e-3, 0.5 * DEG, 15 * DEG, 89.5 * DEG, math.pi / 2, 2.0, math.pi - 1e-3, math.pi - 1e-6, math.pi]
    for di, u in enumerate(dirs):
        e1, e2 = vg.perp_frame(u)
        for th in angles:
            for perp in (e1, e2):
                for l1, l2 in ((1.0, 1.0), (7000.0, 3.0), (1e-3, 4.2e4)):
                    v1 = vg.scale(u, l1)
                    v2 = vg.scale(vg.add(vg.scale(u, math.cos(th)), vg.scale(perp, math.sin(th))), l2)
                    ref = vg.angle_between(v1, v2)
                    # arccos error ~ eps / sin(angle); floor sqrt(2 eps) at the poles
                    tol = min(2.2e-8, 1e-14 + 16 * vg.EPS / max(math.sin(ref), 1e-12))
                    modes = (True,) if math.sin(ref) < 1e-5 else (True, False)  # unsafe arccos is documented to fail on |x|>1
                    for safe in modes:
                        got = _f(_call(subtendedAngle, _arr(v1), _arr(v2), safe=safe))
                        res.case("subtended_angle", {"dir": di, "angle_rad": th, "safe": safe, "lengths": [l1, l2]},
                                 math.isfinite(got) and abs(got - ref) <= tol, nontrivial=th > 0,
                                 signature=f"C14/subtended_angle/{'safe' if safe else 'plain'}", observed=got, expected=ref, item=item)
                        res.observe(got)


# ================================================================================================ callers (sensor level)
# Which state each geometric helper is handed by Optical / Radar / Sensor.isVisible: the whole decision chain is
# re-evaluated in ECI from the host and target positions and compared with the verdict AND the miss reason.
OPT_AZ_MASK = (0.0, 359.999)
OPT_EL_MASK = (-89.999, 89.999)
OPT_VISMAGS = [25.0, 12.0]  # library default; 12.0 splits the lattice (LEO<->GEO targets of 25 m^2 are magnitude 10..14)
OPT_VCS, OPT_REFL = 25.0, 0.21
OPT_TILT_BAND = 3.4e-3  # rad: geodetic vs radial vertical, <= e^2/2 = 3.35e-3 rad at the surface, less at altitude
OPT_PSI = [0.3, 1.9, 3.5, 5.1]
OPT_SUN_ANGLES_DEG = [35.0, 90.0, 140.0]  # sensor position angle from the Sun direction (day side, terminator, night side)
GROUND_AZ_DEG = [10.0, 100.0, 190.0, 280.0]
GROUND_EL_DEG = [5.0, 30.0, 80.0]
GROUND_RANGES = [800.0, 2000.0, 36000.0]
CONE_AXES = ["sun", "antisun", "galactic", "antigalactic"]
CONE_SENSOR_RADII = [7000.0, 42164.0]
CONE_RANGES = [3000.0, 30000.0]
RADAR_KINDS = ["radar", "adv_radar"]
RADAR_VCS = [0.01, 1.0, 10.0]
RADAR_RANGE_FACTORS = [0.5, 1.0 - 1e-6, 1.0 + 1e-6, 2.0]
RADAR_PARAMS = dict(tx_power=2.5e6, aperture_diameter=27.0, efficiency=0.9, tx_frequency=1.5e9,
                    min_detectable_power=1.4314085925969573e-14)


def _opt_sensor_radii(tier):
    radii = [R + 101.0, 7000.0, 26560.0, 42164.0, 10 * R]
    if tier == "thorough":
        radii += [6700.0, 8000.0, 12000.0, 20000.0]
    return radii


def _opt_target_radii(tier):
    radii = [6700.0, 7000.0, 26560.0, 42164.0, 10 * R]
    if tier == "thorough":
        radii += [R + 101.0, 8000.0, 12000.0, 20000.0]
    return radii


def _opt_epoch(seed):
    return datetime(2021, 3, 20, 12, 0, 0) + timedelta(days=(37 * seed) % 365, hours=(5 * seed) % 24)


class _OptHost:
    """Stand-in for the SensingAgent: the attributes Optical/Radar/Sensor.isVisible read from their host."""

    def __init__(self, eci_state, platform, epoch):
        self.eci_state = np.array(eci_state, dtype=float)
        self.time = 0.0
        self.agent_type = PlatformLabel.SPACECRAFT if platform == "space" else PlatformLabel.GROUND_FACILITY
        self.datetime_epoch = epoch
        self.julian_date_epoch = datetimeToJulianDate(epoch)
        self.simulation_id = 60001
        self.sensor_time_bias_event_queue = []


def _make_optical(vismag, az_mask=OPT_AZ_MASK, el_mask=OPT_EL_MASK):
    cfg = OpticalConfig(
        azimuth_range=list(az_mask), elevation_range=list(el_mask), covariance=scen.OPT_COV, aperture_diameter=1.0,
        efficiency=0.98, slew_rate=5.0, detectable_vismag=vismag, field_of_view={"fov_shape": "conic", "cone_angle": 5.0},
    )
    return sensorFactory(cfg)


def _make_radar(kind, az_mask=(0.0, 359.99)):
    cls = RadarConfig if kind == "radar" else AdvRadarConfig
    cfg = cls(
        azimuth_range=list(az_mask), elevation_range=[-89.9, 90.0], covariance=scen.RADAR_COV, slew_rate=3.0,
        minimum_range=100.0, maximum_range=5.0e5, field_of_view={"fov_shape": "conic", "cone_angle": 10.0}, **RADAR_PARAMS,
    )
    return sensorFactory(cfg)


def _sun_at(epoch):
    return [float(x) for x in Sun.getPosition(datetimeToJulianDate(epoch))]


def _sun_relative_dirs(sun, seed):
    """Unit vectors at OPT_SUN_ANGLES_DEG from the Sun direction, each in its own plane (phase shifted by the seed)."""
    shat = vg.unit(sun)
    e1, e2 = vg.perp_frame(shat)
    out = []
    for k, ang in enumerate(OPT_SUN_ANGLES_DEG):
        plane = 0.4 + 2.1 * k + 0.37 * seed
        perp = vg.add(vg.scale(e1, math.cos(plane)), vg.scale(e2, math.sin(plane)))
        a = (ang + math.fmod(1.3 * seed, 5.0)) * DEG
        out.append(vg.add(vg.scale(shat, math.cos(a)), vg.scale(perp, math.sin(a))))
    return out


def _optical_expect(platform, host, tgt, sez, sun, vcs, refl, vismag_limit, limb_extra_band=0.0, az_mask=OPT_AZ_MASK,
                    el_mask=OPT_EL_MASK):
    """(reason name, either_way, last stage evaluated, detail) in the documented order of the exits of Optical.isVisible."""
    vis, why, either, _az, _el, _margin = _visible_expect(host[:3], tgt, sez, az_mask, el_mask, 0.0, math.inf)
    detail = {}
    if not vis:
        return why, either, "base", detail
    # target lit at all: umbra <=> separation c <= b - a.  The fraction goes to 0 continuously at the umbra edge; 1e-7 rad
    # covers the 1e-11 rad angle rounding with 4 orders of margin and is 5 orders below the lattice spacing
    _frac, kind, (a, b, c) = vg.sun_fraction(tgt, sun)
    either = either or abs(c - (b - a)) < 1e-7
    detail["sun"] = kind
    if kind == "umbra":
        return "SOLAR_FLUX", either, "flux", detail
    phase = vg.lambert_phase(vg.angle_between([q - p for p, q in zip(tgt[:3], sun)], [q - p for p, q in zip(tgt[:3], host[:3])]))
    if phase <= 1e-14:  # looking straight into the Sun past the target: magnitude undefined within rounding
        return "VIZ_MAG", True, "vismag", detail
    mag, _phi = vg.apparent_vismag(vcs, refl, sun, tgt, host)
    # absolute rounding of the phase function <= 4 eps -> 2.5/ln(10) * 4 eps / F magnitudes; factor 10 of margin
    either = either or abs(mag - vismag_limit) < 1e-9 + 1e-14 / phase
    detail["mag"] = mag
    if mag > vismag_limit:
        return "VIZ_MAG", either, "vismag", detail
    bore = [q - p for p, q in zip(host[:3], tgt[:3])]
    gal = vg.angle_between(bore, vg.GALACTIC_UNIT)
    either = either or abs(gal - math.pi / 30) < ANG_BAND
    detail["galactic_rad"] = gal
    if gal < math.pi / 30:
        return "GALACTIC_EXCLUSION", either, "galactic", detail
    if platform == "space":
        from_tgt = vg.angle_between(bore, [q - p for p, q in zip(tgt[:3], sun)])
        from_host = vg.angle_between(bore, [q - p for p, q in zip(host[:3], sun)])
        thr = math.pi / 12
        either = either or abs(from_tgt - thr) < ANG_BAND or ((from_tgt >= thr) != (from_host >= thr))
        detail["sun_rad"] = from_tgt
        if from_tgt < thr:
            return "SPACE_ILLUMINATION", either, "sun_cone", detail
        inside, eta, cone = vg.in_limb_cone_eci(host, tgt)
        x = (R + vg.ATMOSPHERE) / vg.norm(host)
        band = ANG_BAND + 4 * vg.EPS / math.sqrt(max(1.0 - x * x, 2 * vg.EPS)) + limb_extra_band
        either = either or abs(eta - cone) < band
        detail.update(nadir_angle_rad=eta, cone_rad=cone)
        return ("LIMB_OF_EARTH" if inside else "VISIBLE"), either, "limb", detail
    site = vg.angle_between(host[:3], sun)
    thr = math.pi / 2 + math.pi / 12
    either = either or abs(site - thr) < ANG_BAND
    detail["site_sun_rad"] = site
    return ("VISIBLE" if site >= thr else "GROUND_ILLUMINATION"), either, "site_darkness", detail


def _chain_case(res, sub, sensor, args, exp_why, either, nontriv, case, item, sig_extra=""):
    """Run sensor.isVisible(*args) (the subclass method) and compare verdict and reason with the expected exit."""
    got = _call(sensor.isVisible, *args)
    if isinstance(got, _Raised):
        got_vis, got_why, typed = None, repr(got), False
    else:
        got_vis, got_why, typed = bool(got[0]), getattr(got[1], "name", repr(got[1])), isinstance(got[1], Explanation)
    ok = either or (typed and got_vis == (exp_why == "VISIBLE") and got_why == exp_why)
    if either:
        res.either_way += 1
    res.case(sub, dict(case, expected=exp_why), ok, nontrivial=nontriv and not either,
             signature=f"C14/{sub}/{sig_extra}expected_{exp_why}/got_{got_why}", observed=[got_vis, got_why],
             expected=[exp_why == "VISIBLE", exp_why], outcome=f"{sig_extra}{exp_why}", item=item)
    res.observe(got_vis, got_why)


def _optical_pair(res, item):
    sensors = []
    for vm in OPT_VISMAGS:
        sensor = _build(res, "optical/construct", _make_optical, item, vm)
        if sensor is not None:
            sensors.append((vm, sensor))
    return sensors


def _altitude_relation(r_s, r_t):
    return "equal" if r_s == r_t else ("sensor_above" if r_s > r_t else "sensor_below")


def _run_optical_limb(res, item):
    _, tier, seed, si, ti = item
    r_s, r_t = _opt_sensor_radii(tier)[si], _opt_target_radii(tier)[ti]
    epoch = _opt_epoch(seed)
    sun = _sun_at(epoch)
    sensors = _optical_pair(res, item)
    rel = _altitude_relation(r_s, r_t)
    cone_s, cone_t, disc = vg.limb_cone(r_s), vg.limb_cone(r_t), math.asin(R / r_s)
    etas = [k * 7.5 * DEG for k in range(25)] if tier == "quick" else [k * 2.5 * DEG for k in range(73)]
    for off in LIMB_OFFSETS:
        etas += [cone_s + off, cone_s - off, cone_t + off, cone_t - off]
    etas += [cone_s, cone_t, disc - 1e-3, disc + 1e-5, disc + 1e-3, 0.5 * (disc + cone_s)]
    etas = sorted({e for e in etas if 0.0 <= e <= math.pi})
    for di, d in enumerate(_sun_relative_dirs(sun, seed)):
        host = vg.scale(d, r_s) + [math.sqrt(398600.4418 / r_s) * c for c in vg.perp_frame(d)[0]]
        for sensor_pair in sensors:
            sensor_pair[1].host = _OptHost(host, "space", epoch)
        for pi_, psi0 in enumerate(OPT_PSI):
            psi = psi0 + 0.11 * (seed % 13)
            for eta in etas:
                u = vg.direction_from_nadir(host, eta, psi)
                for which, rho in enumerate(vg.ray_sphere_ranges(r_s, eta, r_t)):
                    if rho < 1.0:
                        continue  # the target shell is the sensor's own: the crossing at the sensor itself is no target
                    tgt = vg.add(host[:3], vg.scale(u, rho)) + [1.0, -2.0, 0.5]
                    offset = [q - p for p, q in zip(host[:3], tgt[:3])]
                    frames = [("geometric", vg.eci_offset_to_sez(host[:3], offset) + list(T_VEL), 0.0)]
                    if pi_ == 0:
                        lib = _call(getSlantRangeVector, _arr(host), _arr(tgt), epoch)
                        if not isinstance(lib, _Raised):
                            frames.append(("library", [float(x) for x in lib], OPT_TILT_BAND))
                    for frame, sez, extra in frames:
                        for vm, sensor in sensors:
                            if frame == "library" and vm != OPT_VISMAGS[0]:
                                continue
                            why, either, stage, detail = _optical_expect("space", host, tgt, sez, sun, OPT_VCS, OPT_REFL, vm, extra)
                            case = {"r_sensor_km": r_s, "r_target_km": r_t, "altitudes": rel, "dir": di, "psi": psi,
                                    "eta_rad": eta, "crossing": which, "range_km": rho, "frame": frame, "vismag_limit": vm,
                                    "host": host, "tgt": tgt, "sez": sez, "epoch": epoch.isoformat(), **detail}
                            _chain_case(res, f"optical/space/limb/{frame}", sensor, (_arr(tgt), OPT_VCS, OPT_REFL, _arr(sez)),
                                        why, either, stage == "limb", case, item, sig_extra=f"{rel}/")


def _cone_axis(kind, sun):
    axis = vg.unit(sun) if kind.endswith("sun") else list(vg.GALACTIC_UNIT)
    return vg.scale(axis, -1.0) if kind.startswith("anti") else axis


def _run_optical_cones(res, item):
    _, tier, seed, ai = item
    kind = CONE_AXES[ai]
    epoch = _opt_epoch(seed)
    sun = _sun_at(epoch)
    sensors = _optical_pair(res, item)
    axis = _cone_axis(kind, sun)
    thr = math.pi / 12 if kind.endswith("sun") else math.pi / 30
    e1, e2 = vg.perp_frame(axis)
    for pi_, perp in enumerate((e1, vg.unit(vg.add(e1, vg.scale(e2, -0.7))))):
        for th in _cone_thetas(tier, thr):
            v = vg.add(vg.scale(axis, math.cos(th)), vg.scale(perp, math.sin(th)))
            side = vg.perp_frame(v)[0]
            for r_s in CONE_SENSOR_RADII:
                # the sensor looks outwards, 17 deg off its zenith: the Earth is behind it
                host_dir = vg.unit(vg.add(v, vg.scale(side, 0.3)))
                host = vg.scale(host_dir, r_s) + [math.sqrt(398600.4418 / r_s) * c for c in vg.perp_frame(host_dir)[0]]
                for _vm, sensor in sensors:
                    sensor.host = _OptHost(host, "space", epoch)
                for rho in CONE_RANGES:
                    tgt = vg.add(host[:3], vg.scale(v, rho)) + [1.0, -2.0, 0.5]
                    offset = [q - p for p, q in zip(host[:3], tgt[:3])]
                    sez = vg.eci_offset_to_sez(host[:3], offset) + list(T_VEL)
                    for vm, sensor in sensors:
                        why, either, stage, detail = _optical_expect("space", host, tgt, sez, sun, OPT_VCS, OPT_REFL, vm)
                        case = {"axis": kind, "plane": pi_, "angle_rad": th, "threshold_rad": thr, "r_sensor_km": r_s,
                                "range_km": rho, "vismag_limit": vm, "host": host, "tgt": tgt, "sez": sez,
                                "epoch": epoch.isoformat(), **detail}
                        _chain_case(res, "optical/space/cones", sensor, (_arr(tgt), OPT_VCS, OPT_REFL, _arr(sez)), why, either,
                                    stage in ("galactic", "sun_cone", "limb"), case, item, sig_extra=f"{kind}/")


def _run_optical_ground(res, item):
    _, tier, seed, k = item
    epoch = _opt_epoch(seed)
    sun = _sun_at(epoch)
    sensors = _optical_pair(res, item)
    shat = vg.unit(sun)
    e1, e2 = vg.perp_frame(shat)
    plane = 0.9 + 2.1 * k + 0.41 * seed
    perp = vg.add(vg.scale(e1, math.cos(plane)), vg.scale(e2, math.sin(plane)))
    for th in _cone_thetas(tier, math.pi / 2 + math.pi / 12):
        site_dir = vg.add(vg.scale(shat, math.cos(th)), vg.scale(perp, math.sin(th)))
        if abs(site_dir[2]) > 0.999:
            continue  # the geometric S/E axes are undefined at the pole
        host = vg.scale(site_dir, R + 0.1) + [0.0, 0.0, 0.0]
        for _vm, sensor in sensors:
            sensor.host = _OptHost(host, "ground", epoch)
        for az_deg in GROUND_AZ_DEG:
            for el_deg in GROUND_EL_DEG:
                for rho in GROUND_RANGES:
                    sez = vg.sez_from_azel(az_deg * DEG, el_deg * DEG, rho, T_VEL)
                    tgt = vg.add(host[:3], vg.sez_to_eci_offset(host[:3], sez)) + [1.0, -2.0, 0.5]
                    for vm, sensor in sensors:
                        why, either, stage, detail = _optical_expect("ground", host, tgt, sez, sun, OPT_VCS, OPT_REFL, vm)
                        case = {"plane": k, "site_sun_angle_rad": th, "az_deg": az_deg, "el_deg": el_deg, "range_km": rho,
                                "vismag_limit": vm, "host": host, "tgt": tgt, "sez": sez, "epoch": epoch.isoformat(), **detail}
                        _chain_case(res, "optical/ground", sensor, (_arr(tgt), OPT_VCS, OPT_REFL, _arr(sez)), why, either,
                                    stage == "site_darkness", case, item)


def _run_radar_callers(res, item):
    _, tier, seed, ki = item
    kind = RADAR_KINDS[ki]
    sensor = _build(res, "radar/construct", _make_radar, item, kind)
    if sensor is None:
        return
    epoch = _opt_epoch(seed)
    az_mask, el_mask = (0.0, 359.99), (-89.9, 90.0)
    hosts = _hosts(seed) + [("geo", vg.scale(vg.unit([-0.6, 0.7, 0.1]), 42164.0) + [2.0, 1.5, 1.0])]
    for hname, host in hosts:
        sensor.host = _OptHost(host, "ground" if hname == "ground" else "space", epoch)
        for vcs in RADAR_VCS:
            rmax = vg.radar_max_range_km(RADAR_PARAMS["tx_power"], RADAR_PARAMS["aperture_diameter"], RADAR_PARAMS["efficiency"],
                                         RADAR_PARAMS["tx_frequency"], RADAR_PARAMS["min_detectable_power"], vcs)
            for factor in RADAR_RANGE_FACTORS:
                rho = rmax * factor
                for az_deg in (10.0, 200.0, 359.995):
                    for el_deg in (-30.0, 20.0, 80.0):
                        sez = vg.sez_from_azel(az_deg * DEG, el_deg * DEG, rho, T_VEL)
                        tgt = vg.add(host[:3], vg.sez_to_eci_offset(host[:3], sez)) + [1.0, -2.0, 0.5]
                        if vg.norm(tgt) < R + 1e-6:
                            continue  # below the surface: outside the quantifier
                        vis, why, either, _az, _el, _m = _visible_expect(host[:3], tgt, sez, az_mask, el_mask, 100.0, 5.0e5)
                        base_passed = vis
                        if vis:
                            # fourth root of a product of O(10) factors: relative rounding <= 1e-14; 1e-9 keeps 3 orders
                            # below the lattice offset 1e-6
                            either = either or abs(vg.norm(sez) - rmax) < 1e-9 * rmax
                            if vg.norm(sez) > rmax:
                                why = "RADAR_SENSITIVITY"
                        case = {"kind": kind, "host": hname, "vcs_m2": vcs, "max_range_km": rmax, "factor": factor,
                                "az_deg": az_deg, "el_deg": el_deg, "range_km": rho, "tgt": tgt, "sez": sez}
                        _chain_case(res, "radar/callers", sensor, (_arr(tgt), vcs, 0.2, _arr(sez)), why, either, base_passed,
                                    case, item, sig_extra=f"{kind}/{hname}/")


ZEN_CALLER_MASKS = [(300.0, 60.0), (60.0, 300.0)]  # each contains 4 of the 8 bearings
ZEN_CALLER_KINDS = ["optical_ground", "radar", "adv_radar"]


def _run_zenith_callers(res, item):
    """Optical / Radar / AdvRadar isVisible (the subclass methods) for targets next to the vertical of the host, azimuth
    masks that contain / exclude the true bearing: the whole documented chain is evaluated in ECI + pure geometry."""
    _, tier, seed, ki = item
    kind = ZEN_CALLER_KINDS[ki]
    epoch = _opt_epoch(seed)
    sun = _sun_at(epoch)
    el_mask = (-89.9, 90.0)
    if kind == "optical_ground":
        # a site 150 deg from the sub-solar point (dark), not at a pole of the geometric S/E axes
        shat = vg.unit(sun)
        e1, e2 = vg.perp_frame(shat)
        site = None
        for plane in (0.9 + 0.41 * seed, 2.4 + 0.41 * seed, 4.1 + 0.41 * seed):
            perp = vg.add(vg.scale(e1, math.cos(plane)), vg.scale(e2, math.sin(plane)))
            cand = vg.add(vg.scale(shat, math.cos(150.0 * DEG)), vg.scale(perp, math.sin(150.0 * DEG)))
            if abs(cand[2]) < 0.9:
                site = cand
                break
        hosts = [("ground", vg.scale(site, R + 0.1) + [0.0, 0.0, 0.0], "ground", False, [800.0, 36000.0])]
    else:
        hosts = []
        for hname, host in _hosts(seed) + [("geo", vg.scale(vg.unit([-0.6, 0.7, 0.1]), 42164.0) + [2.0, 1.5, 1.0])]:
            hosts.append((hname, host, "ground" if hname == "ground" else "space", False, [1500.0]))
            if hname == "space":
                hosts.append((hname, host, "space", True, [300.0]))
    for az_mask in ZEN_CALLER_MASKS:
        if kind == "optical_ground":
            sensor = _build(res, "optical/construct", _make_optical, item, OPT_VISMAGS[0], az_mask, el_mask)
        else:
            sensor = _build(res, "radar/construct", _make_radar, item, kind, az_mask)
        if sensor is None:
            continue
        for hname, host, platform, nadir, ranges in hosts:
            sensor.host = _OptHost(host, platform, epoch)
            mask_el = el_mask
            if nadir:
                sensor.el_mask = np.array([-math.pi / 2, math.pi / 2])
                mask_el = (-90.0, 90.0)
            else:
                sensor.el_mask = np.array([el_mask[0] * DEG, el_mask[1] * DEG])
            side = "near_nadir" if nadir else "near_zenith"
            for zd in _zen_zds(tier):
                for b in _zen_bearings(tier, seed):
                    for spec in ZEN_VEL:
                        for rho in ranges:
                            sez = _pole_vector(zd, b, rho, _zen_velocity(b, spec), nadir=nadir)
                            tgt = vg.add(host[:3], vg.sez_to_eci_offset(host[:3], sez)) + [1.0, -2.0, 0.5]
                            case = {"kind": kind, "host": hname, "side": side, "az_mask_deg": list(az_mask),
                                    "zenith_distance_rad": zd, "bearing_deg": b, "range_km": rho,
                                    "velocity": "at_rest" if spec is None else list(spec), "tgt": tgt, "sez": sez}
                            if kind == "optical_ground":
                                why, either, _stage, detail = _optical_expect("ground", host, tgt, sez, sun, OPT_VCS, OPT_REFL,
                                                                              OPT_VISMAGS[0], 0.0, az_mask, mask_el)
                                case.update(detail, epoch=epoch.isoformat())
                                args = (_arr(tgt), OPT_VCS, OPT_REFL, _arr(sez))
                                base_passed = why not in ("ELEVATION_MASK", "LINE_OF_SIGHT", "MINIMUM_RANGE", "MAXIMUM_RANGE")
                            else:
                                vcs = 10.0
                                rmax = vg.radar_max_range_km(RADAR_PARAMS["tx_power"], RADAR_PARAMS["aperture_diameter"],
                                                             RADAR_PARAMS["efficiency"], RADAR_PARAMS["tx_frequency"],
                                                             RADAR_PARAMS["min_detectable_power"], vcs)
                                vis, why, either, _az, _el, _m = _visible_expect(host[:3], tgt, sez, az_mask, mask_el, 100.0, 5.0e5)
                                if vis:
                                    either = either or abs(vg.norm(sez) - rmax) < 1e-9 * rmax
                                    if vg.norm(sez) > rmax:
                                        why = "RADAR_SENSITIVITY"
                                args = (_arr(tgt), vcs, 0.2, _arr(sez))
                                base_passed = why in ("VISIBLE", "AZIMUTH_MASK", "RADAR_SENSITIVITY")
                            _chain_case(res, f"callers/{side}", sensor, args, why, either, base_passed, case, item,
                                        sig_extra=f"{kind}/{hname}/")


_RUNNERS = {
    "constants": _run_constants,
    "los_pairs": _run_los_pairs,
    "los_tangent": _run_los_tangent,
    "fov": _run_fov,
    "fov_radial": _run_fov_radial,
    "fov_zenith": _run_fov_zenith,
    "fov_near_zenith": _run_fov_near_zenith,
    "mask": _run_mask,
    "mask_zenith": _run_mask_zenith,
    "mask_range": _run_mask_range,
    "sun": _run_sun,
    "limb": _run_limb,
    "limb_raises": _run_limb_raises,
    "ground_light": _run_ground_light,
    "space_light": _run_space_light,
    "galactic": _run_galactic,
    "azel": _run_azel,
    "azel_zenith": _run_azel_zenith,
    "azel_near_pole": _run_azel_near_pole,
    "wrap": _run_wrap,
    "subtended": _run_subtended,
    "optical_limb": _run_optical_limb,
    "optical_cones": _run_optical_cones,
    "optical_ground": _run_optical_ground,
    "radar_callers": _run_radar_callers,
    "zenith_callers": _run_zenith_callers,
}


def run_item(item):
    item = tuple(item)
    res = fw.Result()
    _RUNNERS[item[0]](res, item)
    return res
