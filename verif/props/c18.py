"""C18 - multiple-model adaptive estimation keeps valid probabilities and a moment-matched output.

History explorer.  The real ``StaticMultipleModel`` / ``GeneralizedPseudoBayesian1`` objects (built by the real
``adaptiveEstimationFactory`` -> ``fromConfig`` and the real ``initialize``; only the three helpers that query the
database / solve Lambert problems for the hypothesis states are replaced by the harness) carry real
``UnscentedKalmanFilter`` models on a linear dynamics stub with linear observation stubs.  Every observation history of
the announced alphabet and depth is explored as a tree (snapshots by pickle); after every predict and every update the
whole state of the real filter is compared with an independent reference (``verif/oracles/c18_mmae.py``: per-model
linear Kalman filter, Bayes rule in log space, moment matching, pruning / closure as the property words them).
A second lattice family enumerates the observation SET of each step (1, 2, 3 radar observations from different
sensors, radar + optical in both orders, radar / optical / radar, optical only) at the step that opens MMAE and at the
later steps, for both estimators, with the documented SMM range-rate pre-weighting as the prior of the first update.
A second family of items drives the same histories through the real ``EstimateAgent`` (serial ``update`` and the
``EstPredictRegistration`` / ``EstUpdateRegistration`` job path over the in-process fake ray) to check what the agent
is handed back on closure.
A magnitude family repeats the exploration at the scales of real orbit estimation (state vectors of LEO / MEO / GEO
radius in km, model covariances of 10 cm .. 1 km position sigma): after predict, forecast and update the combined
moments of the real filter are compared with the EXACT (rational arithmetic) moment-matched mixture of its own models,
with an element-wise allowance derived from eps * (|P| + spread^2) * (number of models) - the combined PREDICTED
covariance that ``EstPredictRegistration`` publishes as the agent's covariance included.  Every node of the other
families carries the same rounding-level comparison against the centred float64 mixture.
A database family (dbinit) runs the library's initialize() END TO END - real in-memory RESONAATE database (previous
observation, stored estimates), real queries, real Lambert hypotheses on two-body dynamics, real initial pruning of the
infeasible hypotheses - on a lattice of position jumps / model intervals chosen so that the initial pruning removes
none, one, several and all but one hypothesis, for both estimators and optical-only, radar-only and mixed detecting
observations: one probability per surviving hypothesis, probabilities summing to one, Bayes' rule, moment-matched
output, closure; a library exception on these legal inputs is a violation.
"""
from __future__ import annotations

import contextlib
import math
import pickle
from datetime import datetime

import numpy as np

from verif import framework as fw
from verif import scen  # installs the in-process fake ray before resonaate is imported
from verif.oracles import c18_mmae as orc

import resonaate.estimation.adaptive.adaptive_filter as afm
from resonaate.agents.estimate_agent import EstimateAgent
from resonaate.common.labels import SensorLabel
from resonaate.data.agent import AgentModel
from resonaate.data.ephemeris import EstimateEphemeris
from resonaate.data.epoch import Epoch
from resonaate.data.observation import Observation
from resonaate.dynamics.dynamics_base import Dynamics
from resonaate.dynamics.two_body import TwoBody
from resonaate.estimation import adaptiveEstimationFactory
from resonaate.estimation.adaptive.adaptive_filter import AdaptiveFilter
from resonaate.estimation.adaptive.gpb1 import GeneralizedPseudoBayesian1
from resonaate.estimation.adaptive.initialization import lambertInitializationFactory
from resonaate.estimation.adaptive.mmae_stacking_utils import eciStack, stackingFactory
from resonaate.estimation.adaptive.smm import StaticMultipleModel
from resonaate.estimation.kalman.unscented_kalman_filter import UnscentedKalmanFilter
from resonaate.estimation.maneuver_detection import StandardNis
from resonaate.estimation.sequential_filter import EstimateSource, FilterFlag
from resonaate.parallel.estimate_prediction import EstPredictRegistration, asyncPredict
from resonaate.parallel.estimate_update import EstUpdateRegistration, asyncUpdateEstimate
from resonaate.physics.measurements import IsAngle, Measurement
from resonaate.physics.time.conversions import julianDateToDatetime
from resonaate.physics.time.stardate import JulianDate, ScenarioTime
from resonaate.scenario.clock import ScenarioClock
from resonaate.scenario.config.estimation_config import GPB1AdaptiveEstimationConfig, SMMAdaptiveEstimationConfig

PROPERTY = "C18"
LEVEL = "model_checking"
RULE = (
    "one work item = one configuration (estimator SMM|GPB1, number of models, model layout on a line in units of the "
    "innovation sigma, prune threshold, convergence percentage, per-model covariance variant, mix ratio, driver "
    "direct|agent_serial|agent_parallel); inside it EVERY observation history over the alphabet {at model 0, at "
    "model 1, midway, 6 sigma beyond the last model, 1000 sigma beyond it, no observation} (first step always "
    "observed - MMAE only starts on an observation; symbols with equal truth offsets merged; the measurement shape "
    "M in {1,2,3(two-sensor stack),4(radar-like, drives SMM pre-weighting)} rotates with the step) is executed as a "
    "tree up to the announced depth or until closure, from pickled snapshots of the real filter/agent; after each "
    "predict and each update every clause is compared with the reference model started from the state the real "
    "object held before the operation (one forecast probe on a copy at step 2). A second family of configurations "
    "(obs_seq) spells out the observation SET of every step instead of rotating the shape: {r1, r2, r3 = one, two, "
    "three observations carrying a range rate, from three different radars; ro, or = radar + optical in both "
    "orders; ror = radar, optical, radar; o = optical only}; each of the 7 sets is the set of the step that OPENS "
    "MMAE (real initialize(): SMM pre-weights from the range rates) for SMM and GPB1, 2/3/5 models, layouts 1s/30s, "
    "directly and through the EstimateAgent (serial and job path), and the set index advances by 3 mod 7 per step "
    "so that every set also occurs at every later step; on the opened SMM filter StaticMultipleModel._preWeight is "
    "additionally probed on a pickled copy (one weight per model, documented values; these two probe cases count "
    "as non-trivial iff the set holds >= 1 range-rate observation). A third family (mag) is the complete lattice "
    "estimator SMM|GPB1 x orbit regime {LEO 7000, MEO 26560, GEO 42164 km; circular speed; seed-phased direction "
    "with three non-zero components} x model position sigma {10 cm, 1 m, 10 m, 1 km} (velocity sigma 1e-3/s of it, "
    "process / measurement noise scaled along) x {2, 3, 5} models; inside each, the hypothesis layouts {same, 1s, "
    "30s, vel1s = 1 sigma apart through a delta-v} with the prior probabilities {uniform, graded, one model 0.9}, "
    "the covariance variant {same, scaled} and the predict path {in place, prediction result object} rotating over "
    "the lattice; the real filter (assembled by hand as initialize() does, real UKF models) runs EVERY history over "
    "{A, M, G, no observation} (first step observed) to depth 2 (quick) / 3 (thorough) or closure, and AFTER predict, "
    "after forecast on a copy (step 2) and after update (and on the filter handed back at closure) pred_x / pred_p / "
    "est_x / est_p are compared with the exact rational-arithmetic mixture of the filter's own models and "
    "probabilities, element by element, allowance 4 (n+2) eps sum_k w_k (|P_k| + |d_k d_k'|) + 4 ((n+1) eps)^2 "
    "S S' (S = sum_k |w_k x_k|), symmetric and lambda_min >= min(0, lambda_min of the exact mixture) - ||allowance||_F "
    "- 32 eps ||P||_F; probabilities against Bayes' rule from the models' own innovations. A magnitude case is "
    "non-trivial iff eps x_i^2 of the largest state component is >= 100 x the allowance of P_ii (a one-pass "
    "E[xx'] - E[x]E[x]' evaluation would be exposed). In the other families every predict / update / forecast node "
    "additionally compares the combined moments with the centred float64 mixture within twice that allowance "
    "(subchecks */mixture_rounding, mixture/rounding). A tree node is non-trivial iff in "
    "that update a model likelihood underflowed to zero or the total mass fell below 1e-15 (documented reset), or a "
    "model was pruned, or estimation closed; every elemental check at such a node counts; distinct by construction "
    "(different history or configuration). states = distinct (model ids, probabilities to 11 digits, time, flags) "
    "reached, transitions = executed predict+update steps, traces = maximal histories. Where the real "
    "EstimateAgent raises while estimation is still open (recorded finding F-C18-2) the harness repeats the step "
    "with the filter's ADAPTIVE_ESTIMATION_START flag cleared so that the remaining clauses are still explored. "
    "A fourth family (dbinit) is the complete lattice estimator SMM|GPB1 x (model interval, scenario step, gap since "
    "the previous observation) {(30,60,300), (60,60,600), (60,60,180), (120,120,720)} s [thorough: + (60,60,1200), "
    "(20,60,240), (120,60,360)] x intended effect of the INITIAL pruning {none, one, several (2 of 4 / 3 of 7 or 11), "
    "all but one hypothesis removed} (position jump of the detected target = 0.981 km/s x (k + 0.5) x model step, "
    "resp. 1.3 x 0.981 x gap, in a seed-phased direction; LEO target, ground sites) x detecting observation set "
    "{o, oo optical only; r radar only; ro, or mixed} [thorough: + rr, oro], SMM prune threshold 1e-20 | 0.05 "
    "alternating (thorough: both): the real factory + the REAL initialize() with NO seam - real in-memory database "
    "(agents, epochs, one stored estimate per scenario step, the previous observation), the library's own queries, "
    "nominal states, Lambert delta-v hypotheses on TwoBody dynamics, hypothesis propagation and _initialPruning (run "
    "through a pass-through probe that copies its inputs), real UKF models, real az/el(/range/range-rate) "
    "observations. Checked: initialize() starts and does not raise; number of hypotheses = ceil(gap/step)+1; the "
    "models created are exactly the hypotheses whose recorded delta-v is <= 0.981 km/s (own norm) and that did not "
    "hit the Earth; ONE probability / likelihood / mode probability per surviving model = num_models; probabilities "
    "finite, >= 0, summing to one (1e-12); Bayes' rule from the models' own NIS and innovation covariances with the "
    "uniform prior over the SURVIVORS (SMM with a range rate: the documented pre-weights); survivors of the first "
    "update; est_x / est_p / pred_x / pred_p against the exact rational mixture (allowance as in the magnitude "
    "family); closure decision and the filter handed back; then one more predict + update with the same observation "
    "set of the propagated truth, same clauses. A dbinit case is non-trivial iff the initial pruning removed >= 1 "
    "hypothesis (by the oracle's own count) or the library raised."
)
ASSUMPTIONS = [
    "numpy dense linear algebra and scipy.stats.chi2 are the reference arithmetic",
    "on a linear system the unscented filter without sigma-point redraw (repository default) equals the Kalman "
    "filter whose measurement spread is P- - Q (documented no-redraw variant, subject of C06); re-checked here per "
    "model with the tuning alpha=1, beta=2, kappa=3-n. resample=True is not used: its gain is the open C06 finding",
    "julianDateToDatetime (C05) is only required not to raise; the observation stubs ignore the datetime",
    "the hypothesis states come from the harness: AdaptiveFilter._calculateNominalStates / "
    "_generateHypothesisManeuvers / _generateHypothesisStates and the module-level fetchObservationsByJDInterval are "
    "replaced (database + Lambert targeting are outside this property; the fake query returns one earlier "
    "observation, as the database of a running scenario would); _createModels is wrapped to number the models; "
    "everything else of initialize() / fromConfig / the factory is real. The scaled-covariance variant assembles the "
    "filter by hand exactly as initialize() does and then rescales the models' covariances",
    "the documented uniform reset (total mass < numpy.finfo(float).resolution = 1e-15) is accepted as designed "
    "behaviour although it also fires for representable masses (all models > ~8 sigma from the observation); it is "
    "counted separately in the outcomes (reset_representable_mass)",
    "for GPB1 (which merges all models every step by construction) 'the surviving model' on closure is the merged "
    "estimate (moment-matched mixture)",
    "magnitude family: the per-model Kalman conformance is NOT re-derived there (the unscented filter's own "
    "rounding, eps |x| / sigma, is the subject of C06): the reference takes the real models' moments, innovations "
    "and innovation covariances as given and checks only how the adaptive filter combines them; Python's "
    "fractions.Fraction is the exact arithmetic",
    "dbinit family: nothing of initialize() is replaced. The Lambert targeter, the two-body propagator, the database "
    "layer and the az/el/range/range-rate measurement functions are the subjects of other properties: the oracle "
    "takes the delta-v hypotheses handed to _initialPruning (copied by a pass-through probe) and the models' own "
    "predictions / NIS / innovation covariances as given and checks which hypotheses become models and how the "
    "adaptive filter weights and combines them; the models' predicted range rates of the SMM pre-weighting come from "
    "the observation's own measurement function. Earth-impact hypotheses are not enumerated (none of the lattice's "
    "hypotheses reaches the surface within the gap); the feasibility limit 0.981 km/s is a constant of the library, "
    "so the required delta-v is varied around it instead (jump / time-to-go)",
    "SMM pre-weighting |1 - e_i/sum(e)| (left unnormalised) is taken as the documented prior of the first update; "
    "with several observations that carry a range rate the LAST one of the list decides (source comment: 'only the "
    "last obs is included'), observations without a range rate are skipped; a measured range rate of exactly zero "
    "(which the implementation reads as 'no range rate') is not enumerated",
]
EXPECT_MIN_NONTRIVIAL = 20000

# ------------------------------------------------------------------------------------------------ constants
DT = 60.0
T_ANTE = 0.0  # models are created at the MMAE antecedent time
T_START = 60.0  # time of the detection step (adaptive filter time after initialize)
START_DT = datetime(2021, 3, 30, 16, 0, 0)
JD_START = 2459304.1666666665
TGT = 10001
SENSOR = 20001
START = FilterFlag.ADAPTIVE_ESTIMATION_START
CLOSE = FilterFlag.ADAPTIVE_ESTIMATION_CLOSE

KINDS = ["smm", "gpb1"]
LAYOUTS = ["same", "1s", "30s", "far0"]
SYMBOLS = ["A", "B", "M", "G", "F", "0"]
SHAPES_DIRECT = ["h2", "s21", "h4", "h1"]
SHAPES_AGENT = ["h2", "s21", "h4"]  # the agent's filter-step recorder needs >= 2 measurement components
# observation SETS of one step (second lattice family, "obs_seq" configurations): r = an observation that carries a
# range rate (three different radars: own sensor id, own H / R / bias), o = one without (optical-like)
OBS_SETS = ["r1", "r2", "r3", "ro", "or", "ror", "o"]
OBS_STRIDE = 3  # step s of a configuration that opens on set i0 sees OBS_SETS[(i0 + 3 (s - 1)) mod 7]: 3 and 7 are
#                 coprime, so over the 7 opening sets every set also occurs at every later step
THRESHOLDS = [1e-20, 1e-3, 0.05, 0.6]
PERCENTAGES = [0.6, 0.997]
PERCENTAGES_T = [0.6, 0.997, 0.4]
NMODELS = [2, 3, 5, 30]
MIX_RATIOS = [1.5]
MIX_RATIOS_T = [1.5, 20.0]

# third lattice family ("mag" configurations): the same machinery at the magnitudes of real orbit estimation.  State
# vectors of orbital radius (km, km/s) and model covariances of the stated 1-sigma position accuracy (the velocity
# sigma is 1e-3 / s of it, process and measurement noise scale along), so that |x|^2 / |P| runs from 5e7 to 2e17
MAG_RADII_KM = {"leo": 7000.0, "meo": 26560.0, "geo": 42164.0}
MAG_SIGMAS_KM = [1e-4, 1e-3, 1e-2, 1.0]  # 10 cm, 1 m, 10 m, 1 km
MAG_NMODELS = [2, 3, 5]
MAG_LAYOUTS = ["same", "1s", "30s", "vel1s"]  # vel1s: hypotheses 1 sigma apart through their VELOCITY (a delta-v)
MAG_WEIGHTS = ["uniform", "graded", "dominant"]  # probabilities the filter holds before its first predict
MAG_SYMBOLS = ["A", "M", "G", "0"]
MU_EARTH = 398600.4418

HARNESS = {"hyp": None, "n": None, "created": None}


# ------------------------------------------------------------------------------------------------ harness seams
class _Row:
    def __init__(self, jd):
        self.julian_date = jd


def _fake_fetch(database, sat_nums, jd_lb=None, jd_ub=None):  # noqa: ARG001
    """Stand-in for the observation query of initialize(): the observation that precedes the manoeuvre lies
    (n - 1) model intervals before the detection time, so that the real _calculateTimestep asks for n models."""
    n = HARNESS["n"]
    return [_Row(float(jd_ub) - (n - 1) * DT / 86400.0)]


def _hyp_nominal(self, *_a, **_k):
    return np.zeros((self.num_models, self.x_dim))


def _hyp_maneuvers(self, *_a, **_k):
    return np.zeros((self.num_models, 3))


def _hyp_states(self, nominal_states, maneuvers, maneuver_times):  # noqa: ARG001
    hyp = HARNESS["hyp"]
    if hyp is None or len(hyp) != self.num_models:
        raise RuntimeError(f"harness: {self.num_models} models requested, {None if hyp is None else len(hyp)} prepared")
    return np.array(hyp, copy=True)


_REAL_CREATE = AdaptiveFilter._createModels  # noqa: SLF001
# the real hypothesis machinery (database queries, Lambert targeting, initial pruning): switched back in by the
# "dbinit" family only (see _real_hypotheses)
_REAL_FETCH = afm.fetchObservationsByJDInterval
_REAL_HYP = {name: getattr(AdaptiveFilter, name) for name in
             ("_calculateNominalStates", "_generateHypothesisManeuvers", "_generateHypothesisStates", "_initialPruning")}


def _create_and_tag(self, hypothesis_states):
    models = _REAL_CREATE(self, hypothesis_states)
    for i, m in enumerate(models):
        m.verif_tag = i
    # pass-through record for the dbinit family: the states the models were created from and the model objects
    # themselves (they are updated in place; models pruned later stay reachable here)
    HARNESS["created"] = (np.array(hypothesis_states, dtype=float, copy=True), list(models))
    return models


def _install_seams():
    afm.fetchObservationsByJDInterval = _fake_fetch
    AdaptiveFilter._calculateNominalStates = _hyp_nominal  # noqa: SLF001
    AdaptiveFilter._generateHypothesisManeuvers = _hyp_maneuvers  # noqa: SLF001
    AdaptiveFilter._generateHypothesisStates = _hyp_states  # noqa: SLF001
    AdaptiveFilter._createModels = _create_and_tag  # noqa: SLF001


_install_seams()


@contextlib.contextmanager
def _real_hypotheses(record):
    """Inside this block initialize() is the library's own, end to end: the real observation / estimate queries, the
    real nominal states, Lambert manoeuvres, hypothesis propagation and initial pruning.  _initialPruning runs through
    a pass-through probe that copies its inputs and its output into ``record``.  The seams are re-installed on exit
    (the worker goes on to run items of the other families)."""
    real_pruning = _REAL_HYP["_initialPruning"]

    def _pruning_probe(self, maneuvers, crashed_indices, hypothesis_states):
        before = {"maneuvers": np.array(maneuvers, dtype=float, copy=True),
                  "crashed": [int(i) for i in np.asarray(crashed_indices).ravel()],
                  "states_in": np.array(hypothesis_states, dtype=float, copy=True),
                  "num_models_in": int(self.num_models)}
        out = real_pruning(self, maneuvers, crashed_indices, hypothesis_states)
        before["states_out"] = np.array(out, dtype=float, copy=True)
        before["num_models_out"] = int(self.num_models)
        record["pruning"] = before
        return out

    afm.fetchObservationsByJDInterval = _REAL_FETCH
    for name, fn in _REAL_HYP.items():
        setattr(AdaptiveFilter, name, fn)
    AdaptiveFilter._initialPruning = _pruning_probe  # noqa: SLF001
    try:
        yield
    finally:
        AdaptiveFilter._initialPruning = real_pruning  # noqa: SLF001
        _install_seams()


def worker_init():
    from resonaate.data import setDBPath  # noqa: PLC0415

    scen.fresh()
    setDBPath("sqlite://")


# ------------------------------------------------------------------------------------------------ stubs
class LinDyn(Dynamics):
    """Linear dynamics stub: propagate(t0, t1, X) = F^k X with k = (t1 - t0) / DT whole steps."""

    def __init__(self, f):
        self.f = f

    def propagate(self, initial_time, final_time, initial_state, station_keeping=None, scheduled_events=None,
                  error_flags=None, **_kw):  # noqa: ARG002
        k = (float(final_time) - float(initial_time)) / DT
        kk = int(round(k))
        if kk < 0 or abs(k - kk) > 1e-9:
            raise RuntimeError(f"stub dynamics asked for a window of {k} steps")
        return np.linalg.matrix_power(self.f, kk) @ initial_state


RADAR_LABELS = ["azimuth_rad", "elevation_rad", "range_km", "range_rate_km_p_sec"]


class LinMeas(Measurement):
    """Linear measurement stub (a ``Measurement`` so that ``Observation.fromMeasurement`` of ``_preWeight`` accepts it)."""

    def __init__(self, h, labels=None):  # noqa: super().__init__ needs MeasurementType objects; the stub replaces them
        self.h = h
        m = h.shape[0]
        self._labels = list(labels) if labels else [f"m{i}" for i in range(m)]
        self._measurements = []
        self._angular_values = [IsAngle.NOT_ANGLE] * m
        self._r_matrix = np.zeros((m, m))
        self._sqrt_noise_covar = np.zeros((m, m))

    def calculateMeasurement(self, sensor_eci, tgt_eci, utc_datetime, noisy=False):  # noqa: N802, ARG002
        v = self.h @ tgt_eci
        return dict(zip(self._labels, v))  # numpy scalars, as the real measurement functions return


class LinObs:
    def __init__(self, h, r, y, jd, sensor_id=SENSOR, radar=False):
        self.measurement = LinMeas(h, RADAR_LABELS if radar else None)
        self.r_matrix = r
        self.measurement_states = y
        self.sensor_eci = np.zeros(6)
        self.julian_date = jd
        self.sensor_id = sensor_id
        self.target_id = TGT
        if radar:  # what SMM._preWeight looks for
            self.sensor_type = "adv_radar"
            self.range_km = y[2]
            self.range_rate_km_p_sec = y[3]


# ------------------------------------------------------------------------------------------------ the linear system
_H = {
    "h2": np.array([[1.0, 0.2, 0.0, 0.0, 0.0, 0.0], [0.0, 1.0, -0.3, 0.0, 0.0, 0.0]]),
    "hz": np.array([[0.0, 0.0, 1.0, 0.0, 20.0, 0.0]]),
    "h4": np.array([[1.0, 0.0, 0.0, 0.0, 0.0, 0.0], [0.0, 1.0, 0.0, 0.0, 0.0, 0.0], [0.0, 0.0, 1.0, 0.0, 0.0, 0.0],
                    [0.01, 0.0, 0.0, 40.0, 0.0, 0.0]]),
    "h1": np.array([[0.5, 0.5, 0.5, 0.0, 0.0, 0.0]]),
    # two more radars (different sensors): other position rows, other range-rate rows
    "h4b": np.array([[0.0, 1.0, 0.0, 0.0, 0.0, 0.0], [0.0, 0.0, 1.0, 0.0, 0.0, 0.0], [1.0, 0.0, 0.1, 0.0, 0.0, 0.0],
                     [0.0, 0.02, 0.0, 0.0, 25.0, 0.0]]),
    "h4c": np.array([[0.5, 0.5, 0.0, 0.0, 0.0, 0.0], [0.0, 0.0, 1.0, 0.0, 0.0, 0.0], [0.0, 1.0, -0.2, 0.0, 0.0, 0.0],
                     [0.0, 0.0, -0.015, 10.0, 0.0, 30.0]]),
}
_R = {
    "h2": np.array([[0.25, 0.05], [0.05, 0.16]]),
    "hz": np.array([[0.2]]),
    "h4": np.diag([0.25, 0.25, 0.25, 0.04]),
    "h1": np.array([[0.3]]),
    "h4b": np.diag([0.3, 0.2, 0.36, 0.09]),
    "h4c": np.array([[0.2, 0.03, 0.0, 0.0], [0.03, 0.25, 0.0, 0.0], [0.0, 0.0, 0.3, 0.0], [0.0, 0.0, 0.0, 0.0625]]),
}
_BIAS = {  # fixed, small "noise" so that no innovation is exactly zero
    "h2": np.array([0.11, -0.07]),
    "hz": np.array([0.05]),
    "h4": np.array([0.09, -0.04, 0.06, 0.03]),
    "h1": np.array([-0.08]),
    "h4b": np.array([-0.06, 0.1, 0.05, -0.05]),
    "h4c": np.array([0.04, 0.07, -0.09, 0.02]),
}
_PARTS = {"h2": ["h2"], "s21": ["h2", "hz"], "h4": ["h4"], "h1": ["h1"],
          # observation sets of the second family (sensor ids SENSOR + position in the list)
          "r1": ["h4"], "r2": ["h4", "h4b"], "r3": ["h4", "h4b", "h4c"], "ro": ["h4", "h2"], "or": ["h2", "h4b"],
          "ror": ["h4", "hz", "h4c"], "o": ["h2"]}
_RADAR_PARTS = ("h4", "h4b", "h4c")  # parts whose observation stub carries range_km / range_rate_km_p_sec


class System:
    """Geometry of one configuration: dynamics, covariances, model centres, truth trajectories of the symbols."""

    def __init__(self, cfg):
        self.cfg = cfg
        seed = cfg["seed"]
        a = 0.35 + 0.11 * (seed % 17)
        b = 0.2 + 0.07 * (seed % 13)
        self.d = np.array([math.cos(a) * math.cos(b), math.sin(a) * math.cos(b), math.sin(b)])
        self.f = np.eye(6)
        self.f[:3, 3:] = DT * np.eye(3)
        mag = cfg.get("mag")
        self.s = 1.0  # length unit of the covariances / noises / biases (km); 1 for the unit-magnitude families
        if not mag:
            p0 = np.diag([1.0, 1.5, 0.8, 1e-4, 2e-4, 1.5e-4])
            p0[0, 1] = p0[1, 0] = 0.2
            p0[1, 2] = p0[2, 1] = -0.15
            for i in range(3):
                p0[i, 3 + i] = p0[3 + i, i] = 2e-3
            self.p0 = p0
            self.q = np.diag([0.02, 0.02, 0.02, 1e-6, 1e-6, 1e-6])
            self.x0 = np.array([120.0, -80.0, 60.0, 0.01, 0.02, -0.015]) + 0.01 * (seed % 101) * np.array(
                [1.0, -1.0, 0.5, 0.0, 0.0, 0.0])
        else:
            # an orbiting object: position of the stated radius in a seed-phased direction (all three components
            # non-zero), circular speed roughly along-track; covariance of the stated position sigma, velocity
            # sigma 1e-3 /s of it, correlation 0.2 between a position and its rate
            self.s = float(mag["sigma_km"])
            radius = MAG_RADII_KM[mag["regime"]]
            a2 = 0.9 + 0.13 * (seed % 19)
            b2 = -0.3 + 0.05 * (seed % 11)
            u = np.array([math.cos(a2) * math.cos(b2), math.sin(a2) * math.cos(b2), math.sin(b2)])
            along = np.cross(np.array([0.0, 0.0, 1.0]), u)
            along = along / np.linalg.norm(along)
            speed = math.sqrt(MU_EARTH / radius)
            vel = speed * (math.cos(0.1) * along + math.sin(0.1) * np.cross(u, along))
            self.x0 = np.concatenate([radius * u, vel])
            p0 = np.diag([1.0, 1.5, 0.8, 1e-6, 2e-6, 1.5e-6])
            p0[0, 1] = p0[1, 0] = 0.2
            p0[1, 2] = p0[2, 1] = -0.15
            for i in range(3):
                p0[i, 3 + i] = p0[3 + i, i] = 2e-4
            self.p0 = p0 * self.s ** 2
            self.q = np.diag([0.02, 0.02, 0.02, 2e-8, 2e-8, 2e-8]) * self.s ** 2
        p0 = self.p0
        # sigma: position offset along d whose h2-innovation has Mahalanobis length 1 at the first update
        pm = self.f @ p0 @ self.f.T + self.q
        s2 = _H["h2"] @ pm @ _H["h2"].T + _R["h2"] * self.s ** 2
        hd = _H["h2"][:, :3] @ self.d
        self.sigma = 1.0 / math.sqrt(float(hd @ np.linalg.solve(s2, hd)))
        if cfg["layout"] == "vel1s":  # the hypotheses differ by a delta-v that moves them 1 sigma apart in one step
            self.dvec = np.concatenate([np.zeros(3), self.d]) * (self.sigma / DT)
        else:
            self.dvec = np.concatenate([self.d, np.zeros(3)]) * self.sigma
        n = cfg["n"]
        self.offsets = self.layout_offsets(cfg["layout"], n)
        self.centres = np.array([self.x0 + o * self.dvec for o in self.offsets])
        top = max(self.offsets)
        sym = {"A": self.offsets[0], "B": self.offsets[1], "M": 0.5 * (self.offsets[0] + self.offsets[1]),
               "G": top + 6.0, "F": top + 1000.0}
        self.sym_offset = sym
        self.x_nom = self.x0 - 300.0 * self.dvec  # the nominal (pre-manoeuvre) filter is far from every hypothesis

    @staticmethod
    def layout_offsets(layout, n):
        if layout == "same":
            return [0.0] * n
        if layout in ("1s", "vel1s"):
            return [float(i) for i in range(n)]
        if layout == "30s":
            return [30.0 * i for i in range(n)]
        if layout == "far0":
            return [-50.0] + [0.01 * (i - 1) for i in range(1, n)]
        raise ValueError(layout)

    def symbols(self, first):
        """Symbols of one step, merged when their truth offsets coincide; the first step is always observed."""
        out, seen = [], set()
        for s in (MAG_SYMBOLS if self.cfg.get("mag") else SYMBOLS):
            if s == "0":
                if not first:
                    out.append(s)
                continue
            o = round(self.sym_offset[s], 9)
            if o in seen:
                continue
            seen.add(o)
            out.append(s)
        return out

    def shape(self, step):
        seq = self.cfg.get("obs_seq")
        if seq:  # second family: the observation set of every step is spelled out by the configuration
            return seq[(step - 1) % len(seq)]
        shapes = SHAPES_DIRECT if self.cfg["mode"] in ("direct", "mag") else SHAPES_AGENT
        return shapes[(step + self.cfg["shape_shift"]) % len(shapes)]

    def truth(self, sym, t):
        k = int(round((t - T_ANTE) / DT))
        return np.linalg.matrix_power(self.f, k) @ (self.x0 + self.sym_offset[sym] * self.dvec)

    def observations(self, sym, step, t):
        """(list of observation stubs, stacked H, stacked R, stacked y) or ([], None, None, None)."""
        if sym == "0":
            return [], None, None, None
        s = self.truth(sym, t)
        obs, hs, rs, ys = [], [], [], []
        jd = JD_START + t / 86400.0
        for j, part in enumerate(_PARTS[self.shape(step)]):
            h, r = _H[part], _R[part] * self.s ** 2  # (s = 1.0 outside the magnitude family: bit-identical)
            y = h @ s + _BIAS[part] * self.s
            obs.append(LinObs(h.copy(), r.copy(), y.copy(), jd, SENSOR + j, radar=(part in _RADAR_PARTS)))
            hs.append(h)
            rs.append(r)
            ys.append(y)
        m = sum(len(y) for y in ys)
        rr = np.zeros((m, m))
        k = 0
        for r in rs:
            rr[k:k + len(r), k:k + len(r)] = r
            k += len(r)
        return obs, np.vstack(hs), rr, np.concatenate(ys)

    # ---------------------------------------------------------------------------------- real objects
    def nominal(self, time):
        return UnscentedKalmanFilter(
            TGT, ScenarioTime(time), self.x_nom.copy(), self.p0.copy(), LinDyn(self.f), self.q.copy(),
            StandardNis(0.01), False, True, resample=self.cfg["resample"], alpha=1.0, beta=2.0, kappa=None,
        )

    def mmae_config(self):
        c = self.cfg
        if c["kind"] == "smm":
            return SMMAdaptiveEstimationConfig(name="smm", model_interval=int(DT), observation_window=1,
                                               prune_threshold=c["thr"], prune_percentage=c["pp"])
        return GPB1AdaptiveEstimationConfig(name="gpb1", model_interval=int(DT), observation_window=1,
                                            prune_threshold=c["thr"], prune_percentage=c["pp"], mix_ratio=c["mix"])

    def arm(self):
        HARNESS["hyp"] = self.centres
        HARNESS["n"] = self.cfg["n"]

    def model_cov(self, i, base):
        if self.cfg["cov"] == "scaled":
            return base * (1.0 + 0.5 * (i % 3))
        return base


# ------------------------------------------------------------------------------------------------ configurations
def _cfg(kind, n, layout, thr, pp, cov, mode, mix, seed, depth, shape_shift, via_results=False, obs_seq=None,
         mag=None):
    # resample is fixed to the repository default (False): with sigma-point redraw the per-model gain is the subject
    # of the open C06 finding F-C06-1 (stale sigma_x_res), which this check must not re-report
    return {"kind": kind, "n": n, "layout": layout, "thr": thr, "pp": pp, "cov": cov, "resample": False,
            "mode": mode, "mix": mix, "seed": seed, "depth": depth, "shape_shift": shape_shift, "via_results": via_results,
            "obs_seq": obs_seq, "mag": mag}


def _obs_seq(i0, depth):
    return [OBS_SETS[(i0 + OBS_STRIDE * s) % len(OBS_SETS)] for s in range(depth)]


def _depth(tier, n, mode, deep=False):
    if tier == "quick":
        if mode != "direct":
            return 3
        return 2 if n >= 30 else 3
    if mode != "direct":
        return 4 if n <= 3 else 3
    if deep:
        return 5
    return 3 if n >= 30 else 4


def configs(tier, seed):
    out = []
    quick = tier == "quick"
    k = 0
    for kind in KINDS:
        thrs = THRESHOLDS if kind == "smm" else [1e-20]
        for n in NMODELS:
            pps = PERCENTAGES if quick or n > 3 else PERCENTAGES_T
            mixes = [1.5] if kind == "smm" or quick else [1.5, 20.0]
            for layout in LAYOUTS:
                for thr in thrs:
                    for pp in pps:
                        for mix in mixes:
                            k += 1
                            # quick: the two covariance variants alternate over the lattice (GPB1: both); thorough: both
                            if quick and kind == "smm":
                                covs = ["same"] if k % 2 else ["scaled"]
                            else:
                                covs = ["same", "scaled"]
                            for j, cov in enumerate(covs):
                                deep = (not quick) and n == 2 and cov == "same" and layout in ("1s", "30s")
                                out.append(_cfg(kind, n, layout, thr, pp, cov, "direct", mix, seed,
                                                _depth(tier, n, "direct", deep), (k + seed) % 4,
                                                via_results=bool((k // 2 + j) % 2)))
    # the agent-level lattice (closure hand-back through EstimateAgent)
    k = 0
    for kind in KINDS:
        thrs = [1e-20, 0.05, 0.6] if kind == "smm" else [1e-20]
        for n in ([2, 3, 5] if quick else [2, 3, 5, 30]):
            layouts = ["1s", "30s", "far0"] if quick else LAYOUTS if n < 30 else ["1s", "far0"]
            for layout in layouts:
                for thr in thrs:
                    for pp in PERCENTAGES:
                        k += 1
                        modes = ["agent_serial", "agent_parallel"]
                        if quick:
                            modes = [modes[k % 2]]
                        for mode in modes:
                            out.append(_cfg(kind, n, layout, thr, pp, "same", mode, 1.5, seed,
                                            _depth(tier, n, mode), (k + seed) % 3))
    # the observation-set lattice: which observations the target has on the step that opens MMAE (real initialize():
    # SMM pre-weights from the range rates) and on the later steps - 1, 2, 3 radars, radar + optical in both orders,
    # radar / optical / radar, optical only.  Always the real initialize() (cov "same"): the hand-assembled "scaled"
    # variant never pre-weights.
    k = 0
    for kind in KINDS:
        for n in ([2, 3, 5] if quick else [2, 3, 5, 30]):
            for layout in (["1s", "30s"] if quick else ["1s", "30s", "far0"] if n < 30 else ["1s", "far0"]):
                for i0 in range(len(OBS_SETS)):
                    k += 1
                    thrs = [1e-20] if kind == "gpb1" else [[1e-20, 0.05][(k + seed) % 2]] if quick else [1e-20, 0.05]
                    pps = [PERCENTAGES[(k // 2) % 2]] if quick or n > 3 else PERCENTAGES
                    for thr in thrs:
                        for pp in pps:
                            depth = _depth(tier, n, "direct")
                            out.append(_cfg(kind, n, layout, thr, pp, "same", "direct", 1.5, seed, depth, 0,
                                            via_results=bool(k % 2), obs_seq=_obs_seq(i0, depth)))
    for ki, kind in enumerate(KINDS):
        for n in ([2, 3] if quick else [2, 3, 5]):
            for li, layout in enumerate(["1s", "30s"]):
                for i0 in range(len(OBS_SETS)):
                    if quick and (i0 + n + li) % 2:
                        continue  # quick: per n every opening set once, the two layouts alternating (swapped for n + 1)
                    thr = 1e-20 if kind == "gpb1" else [1e-20, 0.05][(i0 // 2 + seed) % 2]
                    modes = ["agent_serial", "agent_parallel"]
                    if quick:
                        modes = [modes[((i0 + 1) // 2 + n + ki) % 2]]
                    for mode in modes:
                        depth = _depth(tier, n, mode)
                        out.append(_cfg(kind, n, layout, thr, 0.997, "same", mode, 1.5, seed, depth, 0,
                                        obs_seq=_obs_seq(i0, depth)))
    return out


def mag_configs(tier, seed):
    """The magnitude lattice: estimator x orbit regime x position sigma x number of models, COMPLETE in both tiers;
    inside one configuration (one work item) every hypothesis layout of MAG_LAYOUTS is explored, with the prior
    probabilities, the per-model covariance variant and the predict path (in place | through the prediction result
    object) rotating over the lattice so that each value meets each regime, sigma and estimator."""
    out = []
    k = 0
    for kind in KINDS:
        for regime in MAG_RADII_KM:
            for sigma_km in MAG_SIGMAS_KM:
                for n in MAG_NMODELS:
                    k += 1
                    out.append(_cfg(kind, n, "*", 1e-20, 0.997, "*", "mag", 1.5, seed, 2 if tier == "quick" else 3,
                                    (k + seed) % 4, via_results=bool(k % 2),
                                    mag={"regime": regime, "sigma_km": sigma_km, "rot": k + seed}))
    return out


def mag_variants(cfg):
    """(layout, prior weights, covariance variant) combinations explored inside one magnitude configuration."""
    rot = cfg["mag"]["rot"]
    out = []
    for li, layout in enumerate(MAG_LAYOUTS):
        out.append((layout, MAG_WEIGHTS[(li + rot) % 3], ["same", "scaled"][(li + rot // 3) % 2]))
    return out


def mag_prior(name, n, rot):
    if name == "uniform":
        return np.ones(n) / n
    if name == "graded":
        w = np.arange(1, n + 1, dtype=float)
        return w / w.sum()
    w = np.full(n, 0.1 / (n - 1))
    w[rot % n] = 0.9
    return w


def items(tier, seed):
    out = [("tree", c) for c in configs(tier, seed)]
    out += [("tree", c) for c in mag_configs(tier, seed)]
    out += [("dbinit", c) for c in dbinit_configs(tier, seed)]
    out.append(("stacking", seed))
    out.append(("mixmatrix", seed))
    return out


def bounds(tier, seed):
    cs = configs(tier, seed)
    return {
        "estimators": KINDS,
        "numbers_of_models": NMODELS,
        "layouts_sigma_offsets": {k: System.layout_offsets(k, 5) for k in LAYOUTS},
        "observation_alphabet": SYMBOLS,
        "observation_shapes_direct": SHAPES_DIRECT,
        "observation_shapes_agent": SHAPES_AGENT,
        "observation_sets_family": {
            "sets": {k: _PARTS[k] for k in OBS_SETS},
            "radar_parts_carry_range_rate": list(_RADAR_PARTS),
            "opening_step": "every set, SMM and GPB1, direct and through the EstimateAgent",
            "later_steps": f"set index advances by {OBS_STRIDE} mod {len(OBS_SETS)} per step: every set at every step",
            "configurations": sum(1 for c in cs if c["obs_seq"]),
        },
        "prune_thresholds": THRESHOLDS,
        "convergence_percentages": PERCENTAGES if tier == "quick" else {"n<=3": PERCENTAGES_T, "n>3": PERCENTAGES},
        "mix_ratios": MIX_RATIOS if tier == "quick" else MIX_RATIOS_T,
        "covariance_variants": ["same (real initialize)", "scaled (1, 1.5, 2 x P by model index mod 3)"],
        "sigma_point_redraw": False,
        "depths": sorted({(c["mode"], c["n"], c["depth"]) for c in cs}),
        "magnitude_family": {
            "regime_radius_km": MAG_RADII_KM,
            "model_position_sigma_km": MAG_SIGMAS_KM,
            "velocity_sigma": "1e-3 / s of the position sigma",
            "numbers_of_models": MAG_NMODELS,
            "layouts": MAG_LAYOUTS,
            "prior_probabilities": MAG_WEIGHTS,
            "covariance_variants": ["same", "scaled"],
            "observation_alphabet": MAG_SYMBOLS,
            "depth": 2 if tier == "quick" else 3,
            "checked_after": ["predict", "forecast (copy, step 2)", "update", "closure hand-back"],
            "oracle": "exact rational mixture; allowance 4(n+2) eps sum w(|P|+|dd'|) + 4((n+1) eps)^2 SS'",
            "x2_over_P_range": [float(min(MAG_RADII_KM.values())) ** 2 / max(MAG_SIGMAS_KM) ** 2,
                                float(max(MAG_RADII_KM.values())) ** 2 / min(MAG_SIGMAS_KM) ** 2],
            "configurations": len(mag_configs(tier, seed)),
        },
        "database_initialize_family": {
            "what": "real initialize() over a real in-memory database, no seam; initial pruning by the library",
            "model_interval_scenario_step_gap_s": DB_TIMINGS if tier == "quick" else DB_TIMINGS_T,
            "hypotheses_before_pruning": sorted({_db_counts(c)[1] for c in dbinit_configs(tier, seed)}),
            "intended_initial_pruning": {c: "removes " + {"none": "0", "one": "1", "several": "2 (of 4) / 3 (of 7, 11)",
                                                          "all_but_one": "all manoeuvre hypotheses"}[c] for c in DB_CLASSES},
            "position_jump_km": sorted({round(_db_counts(c)[3], 2) for c in dbinit_configs(tier, seed)}),
            "delta_v_cap_km_s": DB_DV_CAP,
            "detecting_observation_sets": sorted(DB_OBS_SETS if tier == "quick" else DB_OBS_SETS_T),
            "observation_noise": {"optical_rad2": DB_R_OPTICAL, "radar_rad2_rad2_km2_km2s2": DB_R_RADAR},
            "smm_prune_thresholds": [1e-20, 0.05],
            "steps": "initialize (predict + first update inside), then one predict + update",
            "configurations": len(dbinit_configs(tier, seed)),
            "initialize_cases": sum(len(c["sets"]) for c in dbinit_configs(tier, seed)),
        },
        "configurations": len(cs) + len(mag_configs(tier, seed)) + len(dbinit_configs(tier, seed)),
        "phase_seed": seed,
    }


# ------------------------------------------------------------------------------------------------ tolerances
# One-step conformance: the real filter and the reference start every operation from the same numbers, so only the
# rounding of one operation separates them.  Sigma-point sums with |weights| <= 1 and gamma = sqrt(3) on a 6-state
# linear system lose < 1e-12 relative to the largest magnitude involved (inputs up to 1e3 sigma); 1e-8 keeps four
# orders of margin and is four orders below the smallest seeded defect of interest (a wrong index / sign / factor is
# an O(1e-2..1) relative change).
REL = 1e-8
W_ABS = 1e-12  # absolute floor for probabilities (sum-to-one is required to 1e-12)
W_REL = 1e-8


def _close(a, b, scale=None, rel=REL):
    a = np.asarray(a, dtype=float)
    b = np.asarray(b, dtype=float)
    if a.shape != b.shape:
        return False, float("inf")
    if a.size == 0:
        return True, 0.0
    if not (np.all(np.isfinite(a)) and np.all(np.isfinite(b))):
        return bool(np.array_equal(a, b)), float("nan")
    sc = max(1.0, float(np.max(np.abs(b))), float(scale or 0.0))
    err = float(np.max(np.abs(a - b)))
    return err <= rel * sc, err / sc


def _wclose(a, b):
    a = np.asarray(a, dtype=float)
    b = np.asarray(b, dtype=float)
    if a.shape != b.shape or not np.all(np.isfinite(a)):
        return False
    return bool(np.all(np.abs(a - b) <= W_ABS + W_REL * np.abs(b)))


def _rounding_close(got_x, got_p, w, xs, ps, mx, mp):
    """Combined moments against the reference's centred float64 mixture (mx, mp) at ROUNDING level: both are float64
    evaluations of the same centred formulae, each within orc.mixture_tolerance of the exact mixture, so they differ
    by at most twice that element-wise allowance (eps * (n + 2) * (|P| + spread^2), no floor at 1 and nothing that
    grows like eps |x|^2).  Returns (ok, worst error / allowance)."""
    tol_x, tol_p, _ = orc.mixture_tolerance(w, xs, ps, mx)
    worst = 0.0
    for got, ref, tol in ((got_x, mx, tol_x), (got_p, mp, tol_p)):
        if got is None:
            continue
        got = np.asarray(got, dtype=float)
        if got.shape != np.shape(ref) or not np.all(np.isfinite(got)) or not np.all(np.isfinite(tol)):
            return False, float("inf")
        worst = max(worst, float(np.max(np.abs(got - ref) / (2.0 * tol + 1e-300))))
    return worst <= 1.0, worst


def _brief(v):
    v = np.asarray(v, dtype=float)
    if v.size <= 8:
        return v.tolist()
    return {"shape": list(v.shape), "head": v.ravel()[:6].tolist(), "absmax": float(np.nanmax(np.abs(v))) if np.any(np.isfinite(v)) else "nan"}


# ------------------------------------------------------------------------------------------------ context
class Ctx:
    def __init__(self, res, cfg, item):
        self.res = res
        self.cfg = cfg
        self.item = item
        self.hist = []
        self.obs_set = None  # name of the observation set (shape) of the current step, None = no observation
        self.nontrivial = False
        self.base = {k: cfg[k] for k in ("kind", "n", "layout", "thr", "pp", "cov", "resample", "mode", "mix")}

    def case(self, sub, ok, sig=None, observed=None, expected=None, outcome=None, extra=None, nontrivial=None):
        case = dict(self.base)
        case["history"] = ".".join(self.hist)
        case["step"] = len(self.hist)
        case["obs_set"] = self.obs_set
        if extra:
            case.update(extra)
        self.res.case(
            sub, case, bool(ok),
            nontrivial=self.nontrivial if nontrivial is None else nontrivial,
            signature=f"C18/{sig or sub}",
            observed=observed, expected=expected, outcome=outcome, item=self.item,
        )
        return bool(ok)


def _models_of(af):
    return list(af.models)


def snapshot(af):
    """Everything the reference needs from the real adaptive filter before an operation."""
    models = _models_of(af)
    nis = af.nis
    try:
        nis = float(nis) if np.size(nis) == 1 else None
    except (TypeError, ValueError):
        nis = None
    return {
        "tags": [m.verif_tag for m in models],
        "models": models,
        "w": np.array(af.model_weights, dtype=float, copy=True),
        "mu": np.array(af.mode_probabilities, dtype=float, copy=True),
        "x": [np.array(m.est_x, copy=True) for m in models],
        "P": [np.array(m.est_p, copy=True) for m in models],
        "px": [np.array(m.pred_x, copy=True) for m in models],
        "pP": [np.array(m.pred_p, copy=True) for m in models],
        "time": float(af.time),
        "nis": nis,
        "ydim": int(np.asarray(af.true_y).shape[0]) if np.ndim(af.true_y) else 0,
        "flags": af.flags,
    }


# ------------------------------------------------------------------------------------------------ predict checks
def check_predict(ctx, sysm, pre, af, t):
    models = _models_of(af)
    ok_book = (len(models) == len(pre["tags"]) and [m.verif_tag for m in models] == pre["tags"]
               and af.num_models == len(models) and float(af.time) == t
               and np.array_equal(af.model_weights, pre["w"]) and np.array_equal(af.mode_probabilities, pre["mu"]))
    ctx.case("predict/bookkeeping", ok_book, observed={"n": len(models), "time": float(af.time), "w": _brief(af.model_weights)},
             expected={"n": len(pre["tags"]), "time": t, "w": _brief(pre["w"])})
    if len(models) != len(pre["tags"]):
        return
    worst, bad = 0.0, None
    for i, m in enumerate(models):
        ex, ep = orc.kf_predict(pre["x"][i], pre["P"][i], sysm.f, sysm.q)
        o1, e1 = _close(m.pred_x, ex)
        o2, e2 = _close(m.pred_p, ep)
        o3 = float(m.time) == t
        worst = max(worst, e1, e2)
        if not (o1 and o2 and o3) and bad is None:
            bad = {"model": i, "tag": pre["tags"][i], "pred_x": _brief(m.pred_x), "want_x": _brief(ex), "time": float(m.time)}
    ctx.case("predict/models_kf", bad is None, observed=bad, expected="x- = F x, P- = F P F' + Q for every model, model time = target time")
    w = af.model_weights
    mx, mp = orc.mixture(w, [m.pred_x for m in models], [m.pred_p for m in models])
    o1, _ = _close(af.pred_x, mx)
    o2, _ = _close(af.pred_p, mp)
    ctx.case("predict/mixture", o1 and o2, observed={"pred_x": _brief(af.pred_x)}, expected={"pred_x": _brief(mx)})
    o3, e3 = _rounding_close(af.pred_x, af.pred_p, w, [m.pred_x for m in models], [m.pred_p for m in models], mx, mp)
    ctx.case("predict/mixture_rounding", o3, observed={"error_over_allowance": e3, "pred_p": _brief(af.pred_p)},
             expected={"pred_p": _brief(mp)})


# ------------------------------------------------------------------------------------------------ update checks
def reference_update(cfg, sysm, mid, hstack, rstack, ystack):
    """Per-model Kalman updates and the expected probabilities / survivors / closure."""
    n = len(mid["tags"])
    per = []
    if hstack is None:
        for i in range(n):
            per.append({"x": mid["px"][i], "P": mid["pP"][i], "nis": None})
        loglik, nis, ydim = None, None, mid["ydim"]
    else:
        for i in range(n):
            per.append(orc.kf_update(mid["px"][i], mid["pP"][i], hstack, rstack, ystack, q=sysm.q, resample=cfg["resample"]))
        loglik = [orc.log_gauss(e["nu"], e["S"]) for e in per]
        nis = [e["nis"] for e in per]
        ydim = len(ystack)
    if cfg["kind"] == "smm":
        exp = orc.smm_step(mid["w"], loglik, nis, ydim, cfg["thr"], cfg["pp"], stale_nis=mid["nis"])
    else:
        exp = orc.gpb1_step(mid["mu"], loglik, nis, ydim, cfg["pp"], cfg["mix"])
    exp["per"] = per
    exp["loglik"] = loglik
    exp["ydim"] = ydim
    if loglik is not None and exp["log_mass"] is not None and np.isfinite(exp["log_mass"]):
        # the implementation scales every likelihood by (2 pi)^((M - M_previous)/2) (recorded finding): where that
        # common factor moves the total mass across the 1e-15 reset limit either decision is accepted
        shifted = exp["log_mass"] + 0.5 * (ydim - mid["ydim"]) * math.log(2.0 * math.pi)
        if (shifted < math.log(orc.ZERO_MASS)) != exp["reset"]:
            exp["boundary"] = True
    exp["underflow"] = bool(loglik is not None and any(l < -745.0 for l in loglik))
    return exp


def _valid_prob(v):
    v = np.asarray(v, dtype=float)
    return bool(v.ndim == 1 and v.size >= 1 and np.all(np.isfinite(v)) and np.all(v >= 0.0) and abs(float(np.sum(v)) - 1.0) <= 1e-12)


def _psd(p):
    p = np.asarray(p, dtype=float)
    if p.ndim != 2 or not np.all(np.isfinite(p)):
        return False, None
    scale = max(1.0, float(np.max(np.abs(p))))
    asym = float(np.max(np.abs(p - p.T)))
    lam = float(np.min(np.linalg.eigvalsh(0.5 * (p + p.T))))
    # sums of (rounded) symmetric positive matrices: asymmetry and negative eigenvalues only at rounding level
    return asym <= 1e-10 * scale and lam >= -1e-10 * scale, {"asym": asym, "lambda_min": lam}


def check_update(ctx, sysm, mid, exp, af, obs, ystack, rstack, flag_check=True):
    """Compare the real adaptive filter after update() (and prune / closure) with the reference.

    Returns True when the state is usable for continuing the history."""
    cfg = ctx.cfg
    kind = cfg["kind"]
    observed = bool(obs)
    models = _models_of(af)
    tags = [getattr(m, "verif_tag", None) for m in models]
    w = np.asarray(af.model_weights, dtype=float)
    mu = np.asarray(af.mode_probabilities, dtype=float)
    lik = np.asarray(af.model_likelihoods, dtype=float)
    ctx.nontrivial = bool(exp["reset"] or exp["underflow"] or exp["pruned"] or exp["closed"])
    label = ("reset_underflow" if exp["reset"] and exp["log_mass"] < -700 else "reset_representable_mass" if exp["reset"]
             else "underflow" if exp["underflow"] else "regular")
    label += "+pruned" if exp["pruned"] else ""
    label += "+" + exp["reason"]

    # ---- clause: at least one model, consistent bookkeeping
    ok_len = len(models) >= 1 and len(w) == len(models) == len(lik) == len(mu) == af.num_models
    ctx.case("models/at_least_one_and_lengths", ok_len,
             observed={"models": len(models), "weights": len(w), "likelihoods": len(lik), "mode_probabilities": len(mu), "num_models": af.num_models},
             expected=">= 1 model, all per-model arrays of the same length", outcome=label)

    # ---- the recorded prune-everything defect: every model below the threshold -> model 0 is kept whatever its weight
    if exp["prune_all"] and not exp["boundary"]:
        adm = [mid["tags"][i] for i in exp["admissible"]]
        if len(tags) == 1 and tags[0] not in adm and tags[0] == mid["tags"][0]:
            nan = not np.all(np.isfinite(w)) or not np.all(np.isfinite(af.est_x))
            ctx.case("prune/keeps_most_probable", False,
                     sig="prune_all/keeps_first_model/" + ("nan_estimate" if nan else "not_most_probable"),
                     observed={"kept_tag": tags[0], "weights": _brief(w), "est_x": _brief(af.est_x)},
                     expected={"kept_tag_in": adm, "posterior": _brief(exp["w_post"])},
                     extra={"all_below_threshold": True, "kept_first": True}, outcome="prune_all_kept_first")
            return False
    # ---- clause: probabilities finite, non-negative, sum to one
    okw = _valid_prob(w)
    ctx.case("weights/valid", okw, observed=_brief(w), expected="finite, >= 0, sum = 1 (1e-12)")
    if kind == "gpb1":
        ctx.case("weights/mode_probabilities_valid", _valid_prob(mu), observed=_brief(mu), expected="finite, >= 0, sum = 1 (1e-12)")
    if not ok_len:
        return False

    decided = not exp["boundary"]
    if not decided:
        ctx.res.either_way += 1
    want_tags = [mid["tags"][i] for i in exp["survivors"]]
    # ---- clause: pruning keeps exactly the models at/above the threshold (>= 1)
    if decided:
        if exp["prune_all"]:
            adm = [mid["tags"][i] for i in exp["admissible"]]
            ok_s = len(tags) == 1 and tags[0] in adm
            want_tags = tags if ok_s else want_tags
        else:
            ok_s = tags == want_tags
        ctx.case("prune/survivors", ok_s, observed=tags, expected=want_tags, outcome=f"{len(mid['tags'])}->{len(want_tags)}")
        if not ok_s:
            return False
        # ---- clause: Bayes rule
        ok_b = _wclose(w, exp["w_final"] if exp["w_final"] is not None else mid["w"])
        ctx.case("weights/bayes", ok_b, observed=_brief(w),
                 expected=_brief(exp["w_final"] if exp["w_final"] is not None else mid["w"]),
                 extra={"log_mass": exp["log_mass"]}, outcome=label)
        if kind == "gpb1":
            ctx.case("weights/gpb1_mixing", _wclose(mu, exp["mu_next"]), observed=_brief(mu), expected=_brief(exp["mu_next"]))
        if observed:
            check_likelihood_values(ctx, mid, exp, tags, lik)

    # ---- per-model conformance (every model that is still visible, by tag)
    bad = None
    for m, tag in zip(models, tags):
        if tag not in mid["tags"]:
            bad = {"tag": tag, "why": "unknown model"}
            break
        e = exp["per"][mid["tags"].index(tag)]
        o1, _ = _close(m.est_x, e["x"], scale=float(np.max(np.abs(ystack))) if observed else None)
        o2, _ = _close(m.est_p, e["P"])
        o3 = True
        if observed:
            o3 = (_close(m.innovation, e["nu"])[0] and _close(m.innov_cvr, e["S"])[0]
                  and abs(float(m.nis) - e["nis"]) <= REL * max(1.0, e["nis"]))
        if not (o1 and o2 and o3):
            bad = {"tag": tag, "est_x": _brief(m.est_x), "want_x": _brief(e["x"]), "nis": float(m.nis) if observed else None,
                   "want_nis": e["nis"]}
            break
    ctx.case("models/kalman_update", bad is None, observed=bad, expected="every surviving model = Kalman update of its own prediction")

    # ---- clause: probability-weighted mean, moment-matched covariance, symmetric PSD (from the real models/weights)
    if okw:
        mx, mp = orc.mixture(w, [m.est_x for m in models], [m.est_p for m in models])
        px, pp = orc.mixture(w, [m.pred_x for m in models], [m.pred_p for m in models])
        o1, e1 = _close(af.est_x, mx)
        ctx.case("mixture/mean", o1, observed=_brief(af.est_x), expected=_brief(mx))
        o2, e2 = _close(af.est_p, mp)
        ctx.case("mixture/covariance", o2, observed=_brief(af.est_p), expected=_brief(mp))
        o3 = _close(af.pred_x, px)[0] and _close(af.pred_p, pp)[0]
        ctx.case("mixture/prediction", o3, observed=_brief(af.pred_x), expected=_brief(px))
        o4, e4 = _rounding_close(af.est_x, af.est_p, w, [m.est_x for m in models], [m.est_p for m in models], mx, mp)
        o5, e5 = _rounding_close(af.pred_x, af.pred_p, w, [m.pred_x for m in models], [m.pred_p for m in models], px, pp)
        ctx.case("mixture/rounding", o4 and o5, observed={"estimate_error_over_allowance": e4, "prediction_error_over_allowance": e5},
                 expected="combined estimate / prediction within the rounding allowance of the centred mixture")
        okp, info = _psd(af.est_p)
        ctx.case("mixture/symmetric_psd", okp, observed=info, expected="asymmetry and lambda_min at rounding level")
        if observed:
            aux = {
                "innovation": (af.innovation, sum(wi * m.innovation for wi, m in zip(w, models))),
                "nis": (af.nis, sum(wi * float(m.nis) for wi, m in zip(w, models))),
                "mean_pred_y": (af.mean_pred_y, sum(wi * m.mean_pred_y for wi, m in zip(w, models))),
                "innov_cvr": (af.innov_cvr, sum(wi * m.innov_cvr for wi, m in zip(w, models))),
                "cross_cvr": (af.cross_cvr, sum(wi * m.cross_cvr for wi, m in zip(w, models))),
                "kalman_gain": (af.kalman_gain, sum(wi * m.kalman_gain for wi, m in zip(w, models))),
                "true_y": (af.true_y, ystack),
                "r_matrix": (af.r_matrix, rstack),
            }
            badf = [k for k, (a, b) in aux.items() if not _close(a, b)[0]]
            ok_src = af.source == EstimateSource.INTERNAL_OBSERVATION and float(af.time) == float(models[0].time)
            ctx.case("mixture/combined_products", not badf and ok_src, observed={"fields": badf, "source": str(af.source)},
                     expected="probability-weighted innovation, NIS, predicted measurement, S, C, K; y and R of the step")
        else:
            ctx.case("mixture/combined_products", af.source == EstimateSource.INTERNAL_PROPAGATION, observed=str(af.source),
                     expected="Propagation")

    # ---- clause: closure and the filter handed back
    closed = CLOSE in af.flags or af.converged_filter is not None
    if decided:
        ok_c = closed == exp["closed"] and (af.converged_filter is not None) == exp["closed"] and not (closed and START in af.flags)
        if flag_check:  # (the agent consumes the CLOSE flag itself)
            ok_c = ok_c and (CLOSE in af.flags) == exp["closed"]
        ctx.case("closure/decision", ok_c, sig=f"closure/decision/{'unexpected_close' if closed and not exp['closed'] else 'missed_close' if exp['closed'] and not closed else 'flags'}",
                 observed={"closed": closed, "converged_filter": af.converged_filter is not None, "flags": str(af.flags)},
                 expected={"closed": exp["closed"], "reason": exp["reason"], "gate": exp["gate"]}, outcome=exp["reason"])
        if not ok_c:
            return False
    if closed and af.converged_filter is not None:
        check_handback(ctx, sysm, mid, exp, af, af.converged_filter, models, w, decided)
    return True


def check_handback(ctx, sysm, mid, exp, af, cf, models, w, decided):
    cfg = ctx.cfg
    if cfg["kind"] == "smm":
        # the surviving model
        ok_one = len(models) == 1
        want_x, want_p = (models[0].est_x, models[0].est_p) if ok_one else (None, None)
        what = "the single surviving model"
    else:
        want_x, want_p = orc.mixture(w, [m.est_x for m in models], [m.est_p for m in models])
        ok_one = True
        what = "the merged (moment-matched) estimate"
    ok_t = type(cf) is UnscentedKalmanFilter  # noqa: E721
    ok_x = ok_one and _close(cf.est_x, want_x, rel=1e-12)[0] and _close(cf.est_p, want_p, rel=1e-12)[0]
    ok_meta = (ok_t and float(cf.time) == float(af.time) and cf.target_id == TGT and cf.adaptive_estimation is True
               and np.array_equal(cf.q_matrix, sysm.q) and cf.extra_parameters == af._original_filter.extra_parameters  # noqa: SLF001
               and cf.dynamics is af.dynamics)
    ctx.case("closure/handed_back_state", ok_t and ok_x, observed={"type": type(cf).__name__, "est_x": _brief(cf.est_x)},
             expected={"what": what, "est_x": _brief(want_x) if want_x is not None else None})
    ctx.case("closure/handed_back_configuration", ok_meta,
             observed={"type": type(cf).__name__, "time": float(cf.time), "adaptive_estimation": cf.adaptive_estimation,
                       "extra": cf.extra_parameters},
             expected={"type": "UnscentedKalmanFilter", "time": float(af.time), "adaptive_estimation": True,
                       "extra": af._original_filter.extra_parameters})  # noqa: SLF001
    # the step products the agent records from the handed-back filter are those of the survivor (SMM: the single
    # model, weight one) / of the merged estimate (GPB1: the probability-weighted products checked above)
    src = models[0] if cfg["kind"] == "smm" and ok_one else af
    badf = []
    for name in ("pred_x", "pred_p", "innovation", "nis", "mean_pred_y", "r_matrix", "cross_cvr", "innov_cvr", "kalman_gain", "true_y"):
        a, b = getattr(cf, name, None), getattr(src, name, None)
        if a is None or b is None or not _close(a, b, rel=1e-12)[0]:
            badf.append(name)
    if cf.source != af.source or not np.array_equal(np.asarray(cf.is_angular), np.asarray(src.is_angular)):
        badf.append("source/is_angular")
    ctx.case("closure/handed_back_step_products", not badf, observed=badf, expected="prediction, innovation, NIS, S, C, K, y, R of the survivor")
    if decided and cfg["kind"] == "smm" and ok_one:
        # ... and it is the model the reference expects to survive, with the reference's own posterior
        e = exp["per"][exp["survivors"][0]] if not exp["prune_all"] else exp["per"][mid["tags"].index(models[0].verif_tag)]
        ok_ref = _close(cf.est_x, e["x"], scale=1e3)[0] and _close(cf.est_p, e["P"])[0]
        ctx.case("closure/handed_back_is_expected_survivor", ok_ref, observed=_brief(cf.est_x), expected=_brief(e["x"]))
    okp, info = _psd(cf.est_p)
    ctx.case("closure/handed_back_psd", okp, observed=info, expected="symmetric PSD")


def check_likelihood_values(ctx, mid, exp, tags, lik):
    """The stored per-model likelihoods are the Gaussian densities of the innovations (not an observable of the
    property's weights, which are invariant to a common factor, but they decide the documented zero-mass reset)."""
    cfg = ctx.cfg
    if cfg["kind"] == "gpb1" and exp["reset"]:
        ctx.case("weights/likelihood_values", bool(np.all(lik == 1.0)), observed=_brief(lik), expected="ones after the reset")
        return
    want = np.exp(np.array([exp["loglik"][mid["tags"].index(t)] for t in tags]))
    ok = bool(np.all(np.abs(lik - want) <= 1e-300 + 1e-7 * want))
    sig = "weights/likelihood_values"
    extra = {"ydim": exp["ydim"], "previous_ydim": mid["ydim"]}
    if not ok:
        # recorded finding: the (2 pi)^M factor is taken from the measurement dimension of the PREVIOUS update
        stale = want * (2.0 * math.pi) ** (0.5 * (exp["ydim"] - mid["ydim"]))
        if exp["ydim"] != mid["ydim"] and bool(np.all(np.abs(lik - stale) <= 1e-300 + 1e-7 * stale)):
            sig = "likelihood/normalisation_uses_previous_measurement_dimension"
            extra["stale_dimension"] = True
    ctx.case("weights/likelihood_values", ok, sig=sig, observed=_brief(lik), expected=_brief(want), extra=extra)


# ------------------------------------------------------------------------------------------------ forecast probe
def probe_forecast(ctx, sysm, af, obs, hstack, rstack):
    """forecast() on a pickled copy: probabilities/models untouched, covariance forecast = moment-matched mixture of
    the per-model Kalman covariance updates (the real pipeline forecasts on copies for the reward metrics)."""
    cp = pickle.loads(pickle.dumps(af))
    pre = snapshot(cp)
    est_x_before = np.array(cp.est_x, copy=True)
    cp.forecast(obs)
    models = _models_of(cp)
    ok_same = (np.array_equal(cp.model_weights, pre["w"]) and [m.verif_tag for m in models] == pre["tags"]
               and np.array_equal(cp.est_x, est_x_before) and CLOSE not in cp.flags)
    ctx.case("forecast/leaves_probabilities", ok_same, observed=_brief(cp.model_weights), expected=_brief(pre["w"]))
    bad = None
    for i, m in enumerate(models):
        e = orc.kf_update(pre["px"][i], pre["pP"][i], hstack, rstack, np.zeros(hstack.shape[0]), q=sysm.q, resample=ctx.cfg["resample"])
        if not (_close(m.est_p, e["P"])[0] and _close(m.innov_cvr, e["S"])[0]):
            bad = {"model": i}
            break
    ctx.case("forecast/models_kalman_covariance", bad is None, observed=bad, expected="P+ = P- - K S K' per model")
    w = cp.model_weights
    ex, mp = orc.mixture(w, [m.est_x for m in models], [m.est_p for m in models])
    o1 = _close(cp.est_p, mp)[0]
    okp, info = _psd(cp.est_p)
    o2 = _close(cp.innov_cvr, sum(wi * m.innov_cvr for wi, m in zip(w, models)))[0]
    ctx.case("forecast/mixture_covariance", o1 and okp and o2, observed={"psd": info, "est_p": _brief(cp.est_p)}, expected=_brief(mp))
    fx, fp = orc.mixture(w, [m.pred_x for m in models], [m.pred_p for m in models])
    o3, e3 = _rounding_close(None, cp.est_p, w, [m.est_x for m in models], [m.est_p for m in models], ex, mp)
    o4, e4 = _rounding_close(cp.pred_x, cp.pred_p, w, [m.pred_x for m in models], [m.pred_p for m in models], fx, fp)
    ctx.case("forecast/mixture_rounding", o3 and o4, observed={"estimate_error_over_allowance": e3, "prediction_error_over_allowance": e4},
             expected="forecast covariance / re-combined prediction within the rounding allowance of the centred mixture")
    fr = cp.getForecastResult()
    tgt = pickle.loads(pickle.dumps(af))
    fr.apply(tgt)
    ok_r = np.array_equal(tgt.est_p, cp.est_p) and np.array_equal(tgt.model_weights, cp.model_weights) and len(tgt.models) == len(models)
    ctx.case("forecast/result_object", ok_r, observed=None, expected="applying the forecast result reproduces the forecast filter")


# ------------------------------------------------------------------------------------------------ drivers
class DirectDriver:
    """Calls predict / update on the adaptive filter itself (predict through the result object when asked)."""

    def __init__(self, sysm, via_results):
        self.sysm = sysm
        self.via_results = via_results
        self.af = None
        self.handed = None

    # -- start: real factory + real initialize (first predict/update happen inside), or manual assembly
    def start(self, obs, prior=None):
        sysm, cfg = self.sysm, self.sysm.cfg
        nominal = sysm.nominal(T_START)
        sysm.arm()
        if cfg["cov"] == "same" and not cfg.get("mag"):
            af = adaptiveEstimationFactory(sysm.mmae_config(), nominal, ScenarioTime(DT))
            started = af.initialize(obs, JulianDate(JD_START))
            if not started or af is None:
                raise RuntimeError("harness: initialize() refused to start")
            self.af = af
            return "initialize"
        cls = StaticMultipleModel if cfg["kind"] == "smm" else GeneralizedPseudoBayesian1
        kw = {"mix_ratio": cfg["mix"]} if cfg["kind"] == "gpb1" else {}
        af = cls(nominal, ScenarioTime(DT), lambertInitializationFactory("lambert_universal"), stackingFactory("eci_stack"),
                 1, int(DT), cfg["thr"], cfg["pp"], **kw)
        n = cfg["n"]
        af.num_models = n
        af.flags |= START
        af.mmae_antecedent_time = af.time - DT
        af.models = af._createModels(sysm.centres)  # noqa: SLF001
        for i, m in enumerate(af.models):
            m.est_p = sysm.model_cov(i, m.est_p)
        af.model_likelihoods = np.ones(n)
        af.model_weights = np.ones(n) / n if prior is None else np.array(prior, dtype=float)
        af.mode_probabilities = np.ones(n) / n if prior is None else np.array(prior, dtype=float)
        self.af = af
        return "manual"

    def filter(self):
        return self.af

    def predict(self, t):
        if self.via_results:
            cp = pickle.loads(pickle.dumps(self.af))
            cp.predict(ScenarioTime(t))
            cp.getPredictionResult().apply(self.af)
        else:
            self.af.predict(ScenarioTime(t))

    def update(self, obs):
        self.af.update(obs)
        return self.af

    def dump(self):
        return pickle.dumps(self.af)

    def load(self, blob):
        self.af = pickle.loads(blob)


class AgentDriver:
    """Drives the real EstimateAgent: prediction through EstPredictRegistration + asyncPredict, update through
    EstimateAgent.update (serial) or EstUpdateRegistration + asyncUpdateEstimate (parallel job path)."""

    def __init__(self, sysm, parallel):
        import ray  # noqa: PLC0415  (the in-process fake)

        self.ray = ray
        self.sysm = sysm
        self.parallel = parallel
        self.agent = None

    def make_agent(self):
        sysm = self.sysm
        clock = ScenarioClock(START_DT, 20 * DT, DT)
        nominal = sysm.nominal(0.0)
        return EstimateAgent(
            TGT, "rso", "Spacecraft", clock, sysm.x_nom.copy(), sysm.p0.copy(), nominal, sysm.mmae_config(), None,
            10.0, 100.0, 0.21, seed=1,
        )

    def filter(self):
        return self.agent.nominal_filter

    def predict(self, t):
        reg = EstPredictRegistration(self.agent)
        sub = reg.generateSubmission()
        if float(sub.time) != t:
            raise RuntimeError(f"harness: agent predicts to {float(sub.time)}, history expects {t}")
        result = self.ray.get(asyncPredict.remote(sub))
        reg.processResults(result)

    def update(self, obs):
        """Returns the adaptive filter object that executed update() (None when it is not observable)."""
        if not self.parallel:
            before = self.agent.nominal_filter
            self.agent.update(obs)
            return before
        handle = self.ray.put(self.agent)
        reg = EstUpdateRegistration(self.agent, handle, obs)
        result = self.ray.get(asyncUpdateEstimate.remote(reg.generateSubmission()))
        reg.processResults(result)
        flt = result.updated_filter
        return flt if isinstance(flt, AdaptiveFilter) else None

    def dump(self):
        return pickle.dumps(self.agent)

    def load(self, blob):
        self.agent = pickle.loads(blob)
        self.sysm.arm()


# ------------------------------------------------------------------------------------------------ the explorer
def preweight_reference(shape, ystack, px):
    """Documented SMM pre-weighting for the observation set ``shape`` with the stacked measurement ``ystack``:
    w_i = |1 - e_i / sum(e)|, e_i = |measured - predicted range rate of model i| (left unnormalised), taken from ONE
    observation - "only the last obs is included" (source comment): the last observation of the list that carries a
    range rate; observations without one are skipped.  None when no observation of the set carries a range rate
    (the uniform prior stays).  ``px`` = the models' predicted states."""
    off, src = 0, None
    for part in _PARTS[shape]:
        if part in _RADAR_PARTS:
            src = (part, off)
        off += _H[part].shape[0]
    if src is None:
        return None
    part, off = src
    measured = float(ystack[off + 3])
    if measured == 0.0:
        raise RuntimeError("harness: a measured range rate of exactly zero reads as 'no range rate'")
    errs = np.array([abs(measured - float(_H[part][3] @ x)) for x in px])
    return np.abs(1.0 - errs / np.sum(errs))


def _initial_mid(sysm, cfg, base_p, kind_n, shape=None, ystack=None):
    """State before the first update, known to the harness: hypothesis centres, common covariance, uniform priors,
    one Kalman prediction from the antecedent time (computed by the reference).  SMM.initialize pre-weights the
    models by their agreement with a measured range rate when an observation of the opening step carries one
    (see ``preweight_reference``)."""
    n = kind_n
    px, pp = [], []
    for i in range(n):
        x, p = orc.kf_predict(sysm.centres[i], sysm.model_cov(i, base_p), sysm.f, sysm.q)
        px.append(x)
        pp.append(p)
    w = np.ones(n) / n
    preweighted = False
    if cfg["kind"] == "smm" and shape is not None:
        pw = preweight_reference(shape, ystack, px)
        if pw is not None:
            w = pw
            preweighted = True
    return {"tags": list(range(n)), "w": w, "mu": np.ones(n) / n, "px": px, "pP": pp, "nis": None,
            "ydim": 0, "time": T_START, "preweighted": preweighted}


def probe_preweight(ctx, sysm, mid, af, obs, shape, ystack):
    """StaticMultipleModel._preWeight itself, on a pickled copy of the filter that the real initialize() just opened
    (the models still hold the predictions of the opening step): one weight per model, finite, equal to the
    documented formula over the models present; untouched when no observation carries a range rate."""
    cp = pickle.loads(pickle.dumps(af))
    tags = [m.verif_tag for m in cp.models]
    before = np.array(cp.model_weights, dtype=float, copy=True)
    n_r = sum(1 for part in _PARTS[shape] if part in _RADAR_PARTS)
    extra = {"range_rate_observations": n_r, "observations": len(obs), "models": len(tags)}
    try:
        cp._preWeight(obs)  # noqa: SLF001
    except Exception as exc:  # noqa: BLE001
        ctx.case("preweight/raises", False, sig="preweight/raises/" + type(exc).__name__, extra=extra,
                 observed=f"{type(exc).__name__}: {exc}"[:300], expected="_preWeight does not raise", nontrivial=n_r >= 1)
        return
    got = np.asarray(cp.model_weights, dtype=float)
    want = preweight_reference(shape, ystack, [mid["px"][mid["tags"].index(t)] for t in tags])
    if want is None:
        want = before
    ok_len = got.ndim == 1 and len(got) == len(tags) == cp.num_models
    ctx.case("preweight/one_weight_per_model", ok_len, extra=extra, observed={"weights": len(got), "models": len(tags)},
             expected="one pre-weight per model", nontrivial=n_r >= 1, outcome=f"{shape}:{n_r}_range_rates")
    # |1 - e/sum(e)| of O(1) numbers: rounding only (REL keeps > 6 orders to any mixing of two observations' errors)
    ok_v = ok_len and bool(np.all(np.isfinite(got))) and bool(np.all(got >= 0.0)) and _close(got, want)[0]
    ctx.case("preweight/values", ok_v, extra=extra, observed=_brief(got), expected=_brief(want), nontrivial=n_r >= 1)
    ctx.res.observe(got)


def _state_key(af):
    return fw.stable_hash([[getattr(m, "verif_tag", -1) for m in af.models],
                           [float(f"{v:.10e}") if np.isfinite(v) else str(v) for v in np.asarray(af.model_weights, dtype=float)],
                           float(af.time), str(af.flags)])


def explore_direct(res, cfg, item):
    sysm = System(cfg)
    ctx = Ctx(res, cfg, item)
    seen = set()
    depth = cfg["depth"]
    via = bool(cfg["via_results"])

    def visit(drv):
        key = _state_key(drv.af)
        if key not in seen:
            seen.add(key)
            res.states += 1

    def recurse(blob, hist, t):
        for sym in sysm.symbols(first=False):
            drv = DirectDriver(sysm, via)
            drv.load(blob)
            ctx.hist = hist + [sym]
            ctx.nontrivial = False
            step = len(hist) + 1
            ctx.obs_set = None if sym == "0" else sysm.shape(step)
            closed = one_step(ctx, sysm, drv, sym, step, t + DT, probe=(step == 2))
            res.transitions += 1
            visit(drv)
            if closed or step >= depth:
                res.traces += 1
            else:
                recurse(drv.dump(), hist + [sym], t + DT)

    for sym in sysm.symbols(first=True):
        drv = DirectDriver(sysm, via)
        ctx.hist = [sym]
        ctx.obs_set = sysm.shape(1)
        ctx.nontrivial = False
        obs, hstack, rstack, ystack = sysm.observations(sym, 1, T_START)
        try:
            how = drv.start(obs)
        except Exception as exc:  # noqa: BLE001
            if isinstance(exc, RuntimeError) and str(exc).startswith("harness:"):
                raise
            ctx.case("initialize/raises", False, sig="initialize/raises/" + type(exc).__name__,
                     observed=f"{type(exc).__name__}: {exc}"[:300], expected="initialize (predict + first update) does not raise")
            res.transitions += 1
            res.traces += 1
            continue
        if how == "initialize":
            af = drv.af
            ok_n = af.num_models + 0 >= 1 and float(af.time) == T_START and float(af.mmae_antecedent_time) == T_ANTE
            ctx.case("initialize/bookkeeping", ok_n, observed={"time": float(af.time), "antecedent": float(af.mmae_antecedent_time)},
                     expected={"time": T_START, "antecedent": T_ANTE}, nontrivial=False)
            mid = _initial_mid(sysm, cfg, af._original_filter.est_p, cfg["n"], sysm.shape(1), ystack)  # noqa: SLF001
            exp = reference_update(cfg, sysm, mid, hstack, rstack, ystack)
            usable = check_update(ctx, sysm, mid, exp, af, obs, ystack, rstack)
            if usable and cfg["kind"] == "smm" and len(af.models) >= 2:
                probe_preweight(ctx, sysm, mid, af, obs, sysm.shape(1), ystack)
            closed = (CLOSE in af.flags) or not usable
        else:
            closed = one_step(ctx, sysm, drv, sym, 1, T_START, probe=False)
        res.transitions += 1
        visit(drv)
        if closed or depth <= 1:
            res.traces += 1
        else:
            recurse(drv.dump(), [sym], T_START)


def one_step(ctx, sysm, drv, sym, step, t, probe):
    """predict to t, update with the symbol's observations, all checks. Returns True when the history ends here."""
    cfg = ctx.cfg
    af = drv.filter()
    pre = snapshot(af)
    try:
        drv.predict(t)
    except Exception as exc:  # noqa: BLE001
        ctx.case("predict/raises", False, sig="predict/raises/" + type(exc).__name__, observed=f"{type(exc).__name__}: {exc}"[:300],
                 expected="predict does not raise")
        return True
    af = drv.filter()
    check_predict(ctx, sysm, pre, af, t)
    mid = snapshot(af)
    obs, hstack, rstack, ystack = sysm.observations(sym, step, t)
    if probe and obs:
        probe_forecast(ctx, sysm, af, obs, hstack, rstack)
    exp = reference_update(cfg, sysm, mid, hstack, rstack, ystack)
    try:
        post = drv.update(obs)
    except Exception as exc:  # noqa: BLE001
        ctx.case("update/raises", False, sig="update/raises/" + type(exc).__name__, observed=f"{type(exc).__name__}: {exc}"[:300],
                 expected="update does not raise", nontrivial=True)
        return True
    usable = check_update(ctx, sysm, mid, exp, post, obs, ystack, rstack)
    if obs and usable:
        ur = post.getUpdateResult()
        ctx.case("update/result_object", np.array_equal(ur.model_weights, post.model_weights) and np.array_equal(ur.est_x, post.est_x)
                 and len(ur.models) == len(post.models) and np.array_equal(ur.true_y, post.true_y), observed=None,
                 expected="update result carries the filter's models, probabilities and estimate")
    return (CLOSE in post.flags) or not usable


def expected_handback(cfg, exp):
    """Estimate/covariance of the filter that must be handed back, from the reference alone."""
    per = exp["per"]
    if cfg["kind"] == "smm":
        i = exp["survivors"][0]
        return per[i]["x"], per[i]["P"]
    return orc.mixture(exp["w_final"], [e["x"] for e in per], [e["P"] for e in per])


def explore_agent(res, cfg, item):
    worker_init()  # fresh in-memory database and fake cluster for this agent
    sysm = System(cfg)
    ctx = Ctx(res, cfg, item)
    depth = cfg["depth"]
    parallel = cfg["mode"] == "agent_parallel"
    seen = set()

    def visit(agent):
        flt = agent.nominal_filter
        if isinstance(flt, AdaptiveFilter):
            key = _state_key(flt)
        else:
            key = fw.stable_hash(["ukf", [float(f"{v:.10e}") if np.isfinite(v) else str(v) for v in flt.est_x]])
        if key not in seen:
            seen.add(key)
            res.states += 1

    def agent_step(drv, sym, step, t):
        """One predict + update through the agent. Returns 'open' | 'handed_back' | 'broken'."""
        agent = drv.agent
        flt0 = agent.nominal_filter
        was_adaptive = isinstance(flt0, AdaptiveFilter)
        if was_adaptive:
            pre = snapshot(flt0)
        else:
            nom_x, nom_p = np.array(flt0.est_x, copy=True), np.array(flt0.est_p, copy=True)
        try:
            drv.predict(t)
        except Exception as exc:  # noqa: BLE001
            ctx.case("agent/predict_raises", False, sig="agent/predict_raises/" + type(exc).__name__,
                     observed=f"{type(exc).__name__}: {exc}"[:300], expected="predict does not raise")
            return "broken"
        agent = drv.agent
        obs, hstack, rstack, ystack = sysm.observations(sym, step, t)
        if was_adaptive:
            check_predict(ctx, sysm, pre, agent.nominal_filter, t)
            ok_a = (float(agent.time) == t and np.array_equal(agent.state_estimate, agent.nominal_filter.pred_x)
                    and np.array_equal(agent.error_covariance, agent.nominal_filter.pred_p))
            ctx.case("agent/predict_applied", ok_a, observed={"time": float(agent.time)}, expected={"time": t})
            mid = snapshot(agent.nominal_filter)
            open_with_start = START in mid["flags"] and CLOSE not in mid["flags"]
        else:
            # the detection step: MMAE starts inside update() (real _beginAdaptiveEstimation + initialize) from the
            # nominal filter's own posterior covariance, which the reference computes with its Kalman filter
            xm, pm = orc.kf_predict(nom_x, nom_p, sysm.f, sysm.q)
            e0 = orc.kf_update(xm, pm, hstack, rstack, ystack, q=sysm.q, resample=cfg["resample"])
            mid = _initial_mid(sysm, cfg, e0["P"], cfg["n"], sysm.shape(step), ystack)
            mid["flags"] = FilterFlag.NONE
            open_with_start = False
        exp = reference_update(cfg, sysm, mid, hstack, rstack, ystack)
        blob = drv.dump()
        retried = False
        while True:
            try:
                post = drv.update(obs)
                break
            except Exception as exc:  # noqa: BLE001
                known = open_with_start and isinstance(exc, TypeError) and not retried
                ctx.case("agent/update_raises", False,
                         sig=("agent/reinitialise_while_open/" if known else "agent/update_raises/") + type(exc).__name__,
                         observed=f"{type(exc).__name__}: {exc}"[:300],
                         expected="an update while estimation is open does not raise",
                         extra={"open_with_start_flag": bool(open_with_start), "observed_step": bool(obs)},
                         nontrivial=True, outcome="raises")
                if not known:
                    return "broken"
                # continue the exploration from the same state with the START flag cleared (see RULE)
                retried = True
                drv.load(blob)
                drv.agent.nominal_filter.flags = drv.agent.nominal_filter.flags & ~START
        agent = drv.agent
        now = agent.nominal_filter
        handed = not isinstance(now, AdaptiveFilter)
        if not was_adaptive:
            post = now if isinstance(now, AdaptiveFilter) else None
            if post is not None:
                o, _ = _close(post._original_filter.est_p, e0["P"])  # noqa: SLF001
                ctx.case("agent/mmae_starts_from_nominal_posterior", o and float(post.time) == t,
                         observed=_brief(post._original_filter.est_p), expected=_brief(e0["P"]), nontrivial=False)  # noqa: SLF001
        usable = True
        if post is not None:
            usable = check_update(ctx, sysm, mid, exp, post, obs, ystack, rstack, flag_check=False)
        if not usable:
            return "broken"
        if exp["prune_all"] and not exp["boundary"] and post is None and handed:
            # prune-everything inside a step whose adaptive filter is not visible: recognise the recorded defect
            x0k = exp["per"][0]["x"]
            adm = exp["admissible"]
            if 0 not in adm and (not np.all(np.isfinite(now.est_x)) or _close(now.est_x, x0k, scale=1e3)[0]):
                nan = not np.all(np.isfinite(now.est_x))
                ctx.case("prune/keeps_most_probable", False,
                         sig="prune_all/keeps_first_model/" + ("nan_estimate" if nan else "not_most_probable"),
                         observed={"handed_back_est_x": _brief(now.est_x)}, expected={"kept_tag_in": adm},
                         extra={"all_below_threshold": True, "kept_first": True}, outcome="prune_all_kept_first")
                return "broken"
        want_handed = bool(obs) and (exp["closed"] or CLOSE in mid["flags"])
        if not exp["boundary"]:
            ok_h = handed == want_handed
            ctx.case("agent/hand_back_decision", ok_h,
                     sig="agent/hand_back_decision/" + ("unexpected" if handed else "missing"),
                     observed={"handed_back": handed, "filter": type(now).__name__},
                     expected={"handed_back": want_handed, "reason": exp["reason"], "gate": exp["gate"]},
                     outcome=f"handed={want_handed}")
            if not ok_h:
                return "broken"
        ok_sync = np.array_equal(agent.state_estimate, now.est_x) and np.array_equal(agent.error_covariance, now.est_p)
        ctx.case("agent/state_follows_filter", ok_sync, observed=_brief(agent.state_estimate), expected=_brief(now.est_x))
        if not handed:
            return "open"
        ok_t = type(now) is UnscentedKalmanFilter and now.adaptive_estimation is True  # noqa: E721
        ctx.case("agent/handed_back_type", ok_t, observed=type(now).__name__, expected="UnscentedKalmanFilter with adaptive_estimation=True")
        okp, info = _psd(now.est_p)
        ctx.case("agent/handed_back_psd", okp and bool(np.all(np.isfinite(now.est_x))), observed=info,
                 expected="finite estimate, symmetric PSD covariance")
        if post is not None:
            cf = post.converged_filter
            same = cf is not None and np.array_equal(cf.est_x, now.est_x) and np.array_equal(cf.est_p, now.est_p)
            ctx.case("agent/handed_back_is_converged_filter", same, observed=_brief(now.est_x),
                     expected=_brief(cf.est_x) if cf is not None else None)
            ctx.case("agent/close_flag_consumed", CLOSE not in post.flags or parallel, observed=str(post.flags), expected="CLOSE cleared")
        if not exp["boundary"] and not (exp["prune_all"] and len(exp["admissible"]) > 1):
            wx, wp = expected_handback(cfg, exp)
            ok_ref = _close(now.est_x, wx, scale=1e3)[0] and _close(now.est_p, wp)[0]
            ctx.case("agent/handed_back_is_expected_survivor", ok_ref, observed=_brief(now.est_x), expected=_brief(wx))
        return "handed_back"

    def after_handback(drv, t):
        """The handed-back filter must keep working as an ordinary sequential filter from the survivor's state."""
        flt = drv.agent.nominal_filter
        x, p = np.array(flt.est_x, copy=True), np.array(flt.est_p, copy=True)
        hist = list(ctx.hist)
        ctx.hist = hist + ["post"]
        ctx.obs_set = "h2"
        try:
            drv.predict(t)
            # an observation of the handed-back estimate's own trajectory (no new manoeuvre detection)
            hstack, rstack = _H["h2"], _R["h2"]
            ystack = hstack @ (sysm.f @ x) + _BIAS["h2"]
            obs = [LinObs(hstack.copy(), rstack.copy(), ystack.copy(), JD_START + t / 86400.0)]
            drv.update(obs)
            flt = drv.agent.nominal_filter
            xm, pm = orc.kf_predict(x, p, sysm.f, sysm.q)
            e = orc.kf_update(xm, pm, hstack, rstack, ystack, q=sysm.q, resample=cfg["resample"])
            ok = type(flt) is UnscentedKalmanFilter and _close(flt.est_x, e["x"], scale=1e3)[0] and _close(flt.est_p, e["P"])[0]  # noqa: E721
            ctx.case("agent/handed_back_filter_continues", ok, observed={"type": type(flt).__name__, "est_x": _brief(flt.est_x)},
                     expected=_brief(e["x"]))
        except Exception as exc:  # noqa: BLE001
            ctx.case("agent/handed_back_filter_continues", False, sig="agent/handed_back_filter_continues/raises",
                     observed=f"{type(exc).__name__}: {exc}"[:300], expected="predict + update work")
        ctx.hist = hist

    def recurse(blob, hist, t, first):
        for sym in sysm.symbols(first=first):
            drv = AgentDriver(sysm, parallel)
            drv.load(blob)
            ctx.hist = hist + [sym]
            ctx.nontrivial = False
            step = len(hist) + 1
            ctx.obs_set = None if sym == "0" else sysm.shape(step)
            status = agent_step(drv, sym, step, t + DT)
            res.transitions += 1
            if status != "broken":
                visit(drv.agent)
            if status == "handed_back":
                after_handback(drv, t + 2 * DT)
            if status != "open" or step >= depth:
                res.traces += 1
            else:
                recurse(drv.dump(), hist + [sym], t + DT, False)

    drv0 = AgentDriver(sysm, parallel)
    sysm.arm()
    drv0.agent = drv0.make_agent()
    recurse(drv0.dump(), [], 0.0, True)


# ------------------------------------------------------------------------------------------------ magnitude family
def _moments_case(ctx, sub, got_x, got_p, w, xs, ps, nontrivial_ref, prefix="magnitude", nt_fixed=None):
    """Combined mean / covariance against the EXACT moment-matched mixture of the real models (rational arithmetic),
    with the element-wise rounding allowance of a centred float64 evaluation (orc.mixture_tolerance: eps * B * (n + 2)
    with B ~ |P| + spread^2 - never eps |x|^2), plus symmetry and positive semi-definiteness at that level."""
    mx, mp = orc.mixture_exact(w, xs, ps)
    tol_x, tol_p, _ = orc.mixture_tolerance(w, xs, ps, mx)
    tiny = 1e-300
    extra = {"moment": sub}
    # non-trivial iff the case can tell a centred evaluation from a one-pass one: the cancellation loss eps |x|^2 of
    # the largest state component is >= 100 x the allowance of the matching diagonal element
    i_top = int(np.argmax(np.abs(mx)))
    nt = bool(float(np.finfo(float).eps) * mx[i_top] ** 2 >= 100.0 * tol_p[i_top, i_top]) and nontrivial_ref
    if nt_fixed is not None:  # (dbinit family: non-trivial iff the initial pruning removed a hypothesis)
        nt = bool(nt_fixed)
    if got_x is not None:
        gx = np.asarray(got_x, dtype=float)
        ok = gx.shape == mx.shape and bool(np.all(np.isfinite(gx))) and bool(np.all(np.abs(gx - mx) <= tol_x + tiny))
        ctx.case(f"{prefix}/{sub}/mean", ok, sig=f"{prefix}/{sub}/mean", extra=extra, nontrivial=nt,
                 observed=_brief(gx), expected={"mean": _brief(mx), "allowance": _brief(tol_x)})
    gp = np.asarray(got_p, dtype=float)
    if gp.shape != mp.shape or not np.all(np.isfinite(gp)):
        ctx.case(f"{prefix}/{sub}/covariance", False, sig=f"{prefix}/{sub}/covariance", extra=extra, nontrivial=nt,
                 observed=_brief(gp), expected=_brief(mp))
        return
    excess = np.abs(gp - mp) / (tol_p + tiny)
    i, j = np.unravel_index(int(np.argmax(excess)), excess.shape)
    ok = bool(excess[i, j] <= 1.0)
    ctx.case(f"{prefix}/{sub}/covariance", ok, sig=f"{prefix}/{sub}/covariance", extra=extra, nontrivial=nt,
             observed={"element": [int(i), int(j)], "value": float(gp[i, j]), "error_over_allowance": float(excess[i, j]),
                       "relative_deviation": float(np.max(np.abs(gp - mp)) / max(float(np.max(np.abs(mp))), tiny))},
             expected={"value": float(mp[i, j]), "allowance": float(tol_p[i, j])},
             outcome="moments_ok" if ok else "moments_off")
    # symmetric PSD: the exact mixture of the models' covariances is as symmetric / as definite as they are; the
    # float result may fall short by the element allowances (||E||_2 <= ||tol||_F) and by the eigen-solver's own
    # backward error (32 eps ||P||_F covers both eigvalsh calls)
    eps = float(np.finfo(float).eps)
    asym = np.abs(gp - gp.T) - np.abs(mp - mp.T) - tol_p - tol_p.T
    lam = float(np.min(np.linalg.eigvalsh(0.5 * (gp + gp.T))))
    lam_ref = float(np.min(np.linalg.eigvalsh(0.5 * (mp + mp.T))))
    slack = float(np.linalg.norm(tol_p)) + 32.0 * eps * float(np.linalg.norm(mp))
    ok_s = bool(np.all(asym <= tiny)) and lam >= min(0.0, lam_ref) - slack
    ctx.case(f"{prefix}/{sub}/symmetric_psd", ok_s, sig=f"{prefix}/{sub}/symmetric_psd", extra=extra, nontrivial=nt,
             observed={"lambda_min": lam, "asymmetry": float(np.max(np.abs(gp - gp.T)))},
             expected={"lambda_min_of_mixture": lam_ref, "slack": slack})
    ctx.res.observe(gp)


def mag_step(ctx, sysm, drv, sym, step, t, probe):
    """predict to t, (forecast probe on a copy,) update: after EACH operation the combined moments of the real filter
    against the exact mixture of its own models and probabilities; probabilities against Bayes' rule evaluated from
    the models' own innovations.  Returns True when the history ends here."""
    cfg = ctx.cfg
    af = drv.filter()
    pre = snapshot(af)
    try:
        drv.predict(t)
    except Exception as exc:  # noqa: BLE001
        ctx.case("magnitude/predict/raises", False, sig="magnitude/predict/raises/" + type(exc).__name__,
                 observed=f"{type(exc).__name__}: {exc}"[:300], expected="predict does not raise", nontrivial=True)
        return True
    af = drv.filter()
    models = _models_of(af)
    ok_book = ([m.verif_tag for m in models] == pre["tags"] and float(af.time) == t
               and np.array_equal(af.model_weights, pre["w"]) and all(float(m.time) == t for m in models))
    ctx.case("magnitude/predict/bookkeeping", ok_book, observed={"n": len(models), "time": float(af.time)},
             expected={"n": len(pre["tags"]), "time": t}, nontrivial=True)
    if not ok_book:
        return True
    w = np.asarray(af.model_weights, dtype=float)
    _moments_case(ctx, "predict", af.pred_x, af.pred_p, w, [m.pred_x for m in models], [m.pred_p for m in models], True)
    mid = snapshot(af)
    obs, hstack, rstack, ystack = sysm.observations(sym, step, t)
    if probe and obs:
        cp = pickle.loads(pickle.dumps(af))
        cp.forecast(obs)
        cm = _models_of(cp)
        cw = np.asarray(cp.model_weights, dtype=float)
        _moments_case(ctx, "forecast_prediction", cp.pred_x, cp.pred_p, cw, [m.pred_x for m in cm], [m.pred_p for m in cm], True)
        _moments_case(ctx, "forecast", None, cp.est_p, cw, [m.est_x for m in cm], [m.est_p for m in cm], True)
    held = list(models)  # the model objects are updated in place; pruned ones stay reachable here
    try:
        post = drv.update(obs)
    except Exception as exc:  # noqa: BLE001
        ctx.case("magnitude/update/raises", False, sig="magnitude/update/raises/" + type(exc).__name__,
                 observed=f"{type(exc).__name__}: {exc}"[:300], expected="update does not raise", nontrivial=True)
        return True
    if obs:
        loglik = [orc.log_gauss(np.asarray(m.innovation, dtype=float), np.asarray(m.innov_cvr, dtype=float)) for m in held]
        nis = [float(m.nis) for m in held]
        ydim = len(ystack)
    else:
        loglik, nis, ydim = None, None, mid["ydim"]
    if cfg["kind"] == "smm":
        exp = orc.smm_step(mid["w"], loglik, nis, ydim, cfg["thr"], cfg["pp"], stale_nis=mid["nis"])
    else:
        exp = orc.gpb1_step(mid["mu"], loglik, nis, ydim, cfg["pp"], cfg["mix"])
    models = _models_of(post)
    tags = [getattr(m, "verif_tag", None) for m in models]
    w = np.asarray(post.model_weights, dtype=float)
    okw = _valid_prob(w) and len(w) == len(models) >= 1
    ctx.case("magnitude/update/weights_valid", okw, observed=_brief(w), expected="finite, >= 0, sum = 1 (1e-12), one per model",
             nontrivial=True)
    if not okw:
        return True
    decided = not exp["boundary"] and not exp["prune_all"]
    if not decided:
        ctx.res.either_way += 1
    else:
        want_tags = [mid["tags"][i] for i in exp["survivors"]]
        want_w = exp["w_final"] if exp["w_final"] is not None else mid["w"]
        ok_b = tags == want_tags and _wclose(w, want_w)
        ctx.case("magnitude/update/weights_bayes", ok_b, observed={"tags": tags, "w": _brief(w)},
                 expected={"tags": want_tags, "w": _brief(want_w)}, nontrivial=True,
                 outcome=("reset" if exp["reset"] else "regular") + "+" + exp["reason"])
        if not ok_b:
            return True
    _moments_case(ctx, "update_estimate", post.est_x, post.est_p, w, [m.est_x for m in models], [m.est_p for m in models], True)
    _moments_case(ctx, "update_prediction", post.pred_x, post.pred_p, w, [m.pred_x for m in models], [m.pred_p for m in models], True)
    closed = CLOSE in post.flags or post.converged_filter is not None
    if decided:
        ok_c = closed == exp["closed"] and (post.converged_filter is not None) == exp["closed"]
        ctx.case("magnitude/closure/decision", ok_c, observed={"closed": closed}, nontrivial=True,
                 expected={"closed": exp["closed"], "reason": exp["reason"], "gate": exp["gate"]}, outcome=exp["reason"])
    if closed and post.converged_filter is not None:
        cf = post.converged_filter
        # the filter handed back carries the surviving model (SMM: one model of weight one) / the merged estimate
        # (GPB1): the same exact mixture, the same allowance
        if cfg["kind"] == "smm":
            ctx.case("magnitude/closure/one_survivor", len(models) == 1, observed=len(models), expected=1, nontrivial=True)
        _moments_case(ctx, "handed_back_estimate", cf.est_x, cf.est_p, w, [m.est_x for m in models], [m.est_p for m in models], True)
        _moments_case(ctx, "handed_back_prediction", cf.pred_x, cf.pred_p, w, [m.pred_x for m in models], [m.pred_p for m in models], True)
    return closed


def explore_mag(res, cfg, item):
    """All histories over MAG_SYMBOLS (first step observed) up to the depth, for every (layout, prior, covariance)
    variant of the configuration, on the hand-assembled real filter (assembled as initialize() does)."""
    via = bool(cfg["via_results"])
    seen = set()
    for layout, prior, cov in mag_variants(cfg):
        vcfg = dict(cfg, layout=layout, cov=cov)
        sysm = System(vcfg)
        ctx = Ctx(res, vcfg, item)
        ctx.base.update({"regime": cfg["mag"]["regime"], "sigma_km": cfg["mag"]["sigma_km"], "prior": prior,
                         "radius_km": MAG_RADII_KM[cfg["mag"]["regime"]]})
        depth = cfg["depth"]
        w0 = mag_prior(prior, cfg["n"], cfg["mag"]["rot"])

        def visit(drv):
            key = (layout, _state_key(drv.af))
            if key not in seen:
                seen.add(key)
                res.states += 1

        def recurse(blob, hist, t):
            first = not hist
            for sym in sysm.symbols(first=first):
                drv = DirectDriver(sysm, via)
                drv.load(blob)
                ctx.hist = hist + [sym]
                step = len(hist) + 1
                ctx.obs_set = None if sym == "0" else sysm.shape(step)
                closed = mag_step(ctx, sysm, drv, sym, step, t, probe=(step == 2))
                res.transitions += 1
                visit(drv)
                if closed or step >= depth:
                    res.traces += 1
                else:
                    recurse(drv.dump(), hist + [sym], t + DT)

        drv0 = DirectDriver(sysm, via)
        drv0.start([], prior=w0)
        recurse(drv0.dump(), [], T_START)


# ------------------------------------------------------------------------------------------------ dbinit family
# The real initialize() over a real (in-memory) RESONAATE database: previous observation and stored estimates are read
# back by the library's own queries, the manoeuvre hypotheses come from the library's own Lambert targeting on real
# two-body dynamics and pass through the library's own initial pruning (delta-v cap 0.981 km/s, Earth impact).
DB_JD0 = 2459304.0
DB_T_PRIOR = 300.0  # scenario time of the previous (stored) observation
DB_X_PRIOR = np.array([-948.311943, 750.624874, 6767.19073, 7.46101124, 1.20802706, 0.911776855])  # LEO, r = 6874 km
DB_SITE = np.array([-1.55267475e03, 1.47362430e03, 5.98812597e03])  # ground site (ECI at DB_T_PRIOR), r = 6358 km
DB_SENSOR = 100001
DB_OMEGA = 7.292115e-5  # rad/s, only to give the site a plausible ECI velocity
DB_DV_CAP = 0.981  # km/s, the documented feasibility limit of a hypothesis
# (model interval, scenario step, gap between the previous observation and the detection) in seconds: the model time
# step is min(model interval, scenario step), the number of hypotheses ceil(gap / step) + 1.  (30, 60, .): the maneuver
# times fall BETWEEN the stored estimates (bulk propagation of the nominal states)
DB_TIMINGS = [(30, 60, 300), (60, 60, 600), (60, 60, 180), (120, 120, 720)]
DB_TIMINGS_T = DB_TIMINGS + [(60, 60, 1200), (20, 60, 240), (120, 60, 360)]
# intended effect of the initial pruning: hypothesis i (i >= 1) manoeuvres tau_i = step, 2 step, .., gap seconds before
# the detection and needs about jump / tau_i, so a position jump of 0.981 (k + 0.5) step km makes the k latest
# hypotheses infeasible; "all_but_one": jump = 1.3 x 0.981 x gap leaves only the no-manoeuvre hypothesis
DB_CLASSES = ["none", "one", "several", "all_but_one"]
DB_OBS_SETS = {"o": "o", "oo": "oo", "r": "r", "ro": "ro", "or": "or"}  # o = optical (az, el), r = radar (+ range, range rate)
DB_OBS_SETS_T = dict(DB_OBS_SETS, rr="rr", oro="oro")
DB_R_OPTICAL = [2.5e-9, 2.5e-9]  # rad^2 (10 arcsec)
DB_R_RADAR = [1e-8, 1e-8, 1e-4, 1e-8]  # rad^2, rad^2, km^2 (10 m), (km/s)^2 (10 cm/s)
_DB_DYN = TwoBody()


def dbinit_configs(tier, seed):
    out = []
    quick = tier == "quick"
    k = 0
    for kind in KINDS:
        for mi, dt, gap in (DB_TIMINGS if quick else DB_TIMINGS_T):
            for cls in DB_CLASSES:
                k += 1
                # prune threshold of the first update: the default and one that prunes again right after the start
                thrs = [1e-20] if kind == "gpb1" else [[1e-20, 0.05][k % 2]] if quick else [1e-20, 0.05]
                for thr in thrs:
                    out.append({"kind": kind, "mi": mi, "dt": dt, "gap": gap, "cls": cls, "thr": thr, "pp": 0.997,
                                "mix": 1.5, "seed": seed, "sets": sorted(DB_OBS_SETS if quick else DB_OBS_SETS_T)})
    return out


def _db_counts(cfg):
    step = min(cfg["mi"], cfg["dt"])
    n = int(math.ceil(cfg["gap"] / step)) + 1
    k = {"none": 0, "one": 1, "several": 2 if n <= 4 else 3, "all_but_one": n - 1}[cfg["cls"]]
    if cfg["cls"] == "all_but_one":
        jump = 1.3 * DB_DV_CAP * cfg["gap"]
    else:
        jump = DB_DV_CAP * (k + 0.5) * step
    return step, n, k, jump


def _db_site(j, t):
    """ECI state of ground site j (sites 8 degrees of longitude apart) at scenario time t: rotation about the pole."""
    a = math.radians(8.0) * j + DB_OMEGA * (t - DB_T_PRIOR)
    c, s_ = math.cos(a), math.sin(a)
    r = np.array([c * DB_SITE[0] - s_ * DB_SITE[1], s_ * DB_SITE[0] + c * DB_SITE[1], DB_SITE[2]])
    v = DB_OMEGA * np.array([-r[1], r[0], 0.0])
    return np.concatenate([r, v])


def _db_jd(t):
    return JulianDate(DB_JD0 + t / 86400.0)


def _db_observations(letters, t, truth):
    obs, ydim = [], 0
    for j, letter in enumerate(letters):
        if letter == "o":
            meas = Measurement.fromMeasurementLabels(["azimuth_rad", "elevation_rad"], np.diagflat(DB_R_OPTICAL))
            stype = SensorLabel.OPTICAL
        else:
            meas = Measurement.fromMeasurementLabels(RADAR_LABELS, np.diagflat(DB_R_RADAR))
            stype = SensorLabel.ADV_RADAR
        ydim += len(meas.labels)
        obs.append(Observation.fromMeasurement(epoch_jd=_db_jd(t), target_id=TGT, tgt_eci_state=truth,
                                               sensor_id=DB_SENSOR + j, sensor_eci=_db_site(j, t), sensor_type=stype,
                                               measurement=meas, noisy=False))
    return obs, ydim


def _db_world(cfg):
    """Fresh in-memory database holding what a running scenario would have stored before the detection step (agents,
    epochs, one estimate per scenario step since the previous observation, the previous observation), and the state
    the nominal filter holds at the detection: the nominal trajectory displaced by the jump (as a burn 30 s after the
    previous observation would), plus a 1 km-level estimation error so that no innovation is exactly zero."""
    from resonaate.data import getDBConnection  # noqa: PLC0415

    worker_init()
    step, n, k, jump = _db_counts(cfg)
    dt, gap, seed = cfg["dt"], cfg["gap"], cfg["seed"]
    t_now = DB_T_PRIOR + gap
    times = [DB_T_PRIOR + i * dt for i in range(int(math.ceil(gap / dt)))]
    nominal = {times[0]: DB_X_PRIOR.copy()}
    for a, b in zip(times[:-1], times[1:]):
        nominal[b] = _DB_DYN.propagate(a, b, nominal[a])
    nominal_now = _DB_DYN.propagate(times[-1], t_now, nominal[times[-1]])
    az = 0.35 + 0.11 * (seed % 17)
    el = 0.2 + 0.07 * (seed % 13)
    d = np.array([math.cos(az) * math.cos(el), math.sin(az) * math.cos(el), math.sin(el)])
    truth = nominal_now + np.concatenate([jump * d, jump / (gap - 30.0) * d])
    err = np.array([0.8, -0.5, 0.6, 2e-3, -1e-3, 1.5e-3])
    rows = [AgentModel(unique_id=TGT, name="rso")]
    rows += [AgentModel(unique_id=DB_SENSOR + j, name=f"sensor{j}") for j in range(3)]
    for t in [*times, t_now]:
        rows.append(Epoch(julian_date=float(_db_jd(t)), timestampISO=julianDateToDatetime(_db_jd(t)).isoformat()))
    for t in times:
        rows.append(EstimateEphemeris.fromCovarianceMatrix(
            julian_date=float(_db_jd(t)), agent_id=TGT, source="Observation" if t == DB_T_PRIOR else "Propagation",
            covariance=(1e-2 * np.eye(6)).tolist(), eci=nominal[t].tolist()))
    rows.append(_db_observations("o", DB_T_PRIOR, DB_X_PRIOR)[0][0])
    getDBConnection().insertData(*rows)
    p0 = np.diagflat([1.0, 1.5, 0.8, 1e-4, 2e-4, 1.5e-4])
    flt = UnscentedKalmanFilter(TGT, ScenarioTime(t_now), truth + err, p0, _DB_DYN, 1e-10 * np.eye(6), StandardNis(0.01),
                                False, True)
    return {"t_now": t_now, "truth": truth, "filter": flt, "step": step, "n": n, "k": k, "jump": jump}


def _db_preweight(obs, models):
    """Documented SMM pre-weighting on real observations: |1 - e_i / sum(e)| from the LAST observation that carries a
    range rate; the models' predicted range rates come from the observation's own measurement function (sensor
    pipeline: C02).  None when no observation carries one."""
    out = None
    for ob in obs:
        measured = getattr(ob, "range_rate_km_p_sec", None)
        if not measured:
            continue
        utc = julianDateToDatetime(JulianDate(ob.julian_date))
        errs = np.array([abs(measured - float(ob.measurement.calculateMeasurement(ob.sensor_eci, m.pred_x, utc)["range_rate_km_p_sec"]))
                         for m in models])
        out = np.abs(1.0 - errs / np.sum(errs))
    return out


def _db_post_update(ctx, stage, prior_w, prior_mu, held, af, ydim, nt):
    """After the update of ``stage`` ("initialize" | "update"): one probability per model, probabilities valid, Bayes'
    rule from the models' own NIS / innovation covariances, survivors, moment-matched output (exact mixture), closure
    and the filter handed back.  ``held`` = the models before the update (same objects, updated in place).  Returns
    True when the history ends here."""
    cfg = ctx.cfg
    models = _models_of(af)
    tags = [getattr(m, "verif_tag", None) for m in models]
    w = np.asarray(af.model_weights, dtype=float)
    mu = np.asarray(af.mode_probabilities, dtype=float)
    lik = np.asarray(af.model_likelihoods, dtype=float)
    ok_len = len(models) >= 1 and w.ndim == 1 and len(w) == len(models) == len(lik) == len(mu) == af.num_models
    ctx.case(f"dbinit/{stage}/one_probability_per_model", ok_len, nontrivial=nt,
             observed={"models": len(models), "weights": len(w), "likelihoods": len(lik), "mode_probabilities": len(mu),
                       "num_models": af.num_models}, expected=">= 1 model, every per-model array of that length")
    okw = _valid_prob(w)
    ctx.case(f"dbinit/{stage}/weights_valid", okw, nontrivial=nt, observed={"w": _brief(w), "sum": float(np.sum(w)) if w.size else None},
             expected="finite, >= 0, sum = 1 (1e-12)")
    if cfg["kind"] == "gpb1":
        ctx.case(f"dbinit/{stage}/mode_probabilities_valid", _valid_prob(mu), nontrivial=nt, observed=_brief(mu),
                 expected="finite, >= 0, sum = 1 (1e-12)")
    if not (ok_len and okw):
        return True
    held_tags = [m.verif_tag for m in held]
    # log N(nu; 0, S) from each model's own NIS and innovation covariance (the per-model filter is C06's subject)
    loglik = [-0.5 * float(m.nis) - 0.5 * (ydim * math.log(2.0 * math.pi) + float(np.linalg.slogdet(np.asarray(m.innov_cvr, dtype=float))[1]))
              for m in held]
    nis = [float(m.nis) for m in held]
    if cfg["kind"] == "smm":
        exp = orc.smm_step(prior_w, loglik, nis, ydim, cfg["thr"], cfg["pp"])
    else:
        exp = orc.gpb1_step(prior_mu, loglik, nis, ydim, cfg["pp"], cfg["mix"])
    decided = not exp["boundary"] and not exp["prune_all"]
    if not decided:
        ctx.res.either_way += 1
    else:
        want_tags = [held_tags[i] for i in exp["survivors"]]
        want_w = exp["w_final"]
        ok_b = tags == want_tags and _wclose(w, want_w)
        ctx.case(f"dbinit/{stage}/weights_bayes", ok_b, nontrivial=nt, observed={"tags": tags, "w": _brief(w)},
                 expected={"tags": want_tags, "w": _brief(want_w)},
                 outcome=stage + ":" + ("reset" if exp["reset"] else "regular") + ("+pruned" if exp["pruned"] else "") + "+" + exp["reason"])
        if not ok_b:
            return True
        if cfg["kind"] == "gpb1":
            ctx.case(f"dbinit/{stage}/gpb1_mixing", _wclose(mu, exp["mu_next"]), nontrivial=nt, observed=_brief(mu),
                     expected=_brief(exp["mu_next"]))
    _moments_case(ctx, f"{stage}_estimate", af.est_x, af.est_p, w, [m.est_x for m in models], [m.est_p for m in models], True,
                  prefix="dbinit", nt_fixed=nt)
    _moments_case(ctx, f"{stage}_prediction", af.pred_x, af.pred_p, w, [m.pred_x for m in models], [m.pred_p for m in models], True,
                  prefix="dbinit", nt_fixed=nt)
    closed = CLOSE in af.flags or af.converged_filter is not None
    if decided:
        ok_c = closed == exp["closed"] and (af.converged_filter is not None) == exp["closed"] and (CLOSE in af.flags) == exp["closed"]
        ctx.case(f"dbinit/{stage}/closure_decision", ok_c, nontrivial=nt, observed={"closed": closed, "flags": str(af.flags)},
                 expected={"closed": exp["closed"], "reason": exp["reason"], "gate": exp["gate"]})
    if closed and af.converged_filter is not None:
        cf = af.converged_filter
        if cfg["kind"] == "smm":
            ctx.case(f"dbinit/{stage}/one_survivor", len(models) == 1, nontrivial=nt, observed=len(models), expected=1)
        _moments_case(ctx, f"{stage}_handed_back", cf.est_x, cf.est_p, w, [m.est_x for m in models], [m.est_p for m in models], True,
                      prefix="dbinit", nt_fixed=nt)
    return closed


def _dbinit_case(res, cfg, set_name, item):
    world = _db_world(cfg)
    step, n, t_now = world["step"], world["n"], world["t_now"]
    letters = DB_OBS_SETS_T[set_name]
    ccfg = {"kind": cfg["kind"], "n": n, "layout": "lambert", "thr": cfg["thr"], "pp": cfg["pp"], "cov": "same",
            "resample": False, "mode": "dbinit", "mix": cfg["mix"]}
    ctx = Ctx(res, ccfg, item)
    ctx.base.update({"model_interval": cfg["mi"], "scenario_step": cfg["dt"], "gap_s": cfg["gap"], "pruning_class": cfg["cls"],
                     "jump_km": round(world["jump"], 3)})
    ctx.hist = [set_name]
    ctx.obs_set = set_name
    obs, ydim = _db_observations(letters, t_now, world["truth"])
    if cfg["kind"] == "smm":
        mm = SMMAdaptiveEstimationConfig(name="smm", model_interval=cfg["mi"], observation_window=1,
                                         prune_threshold=cfg["thr"], prune_percentage=cfg["pp"])
    else:
        mm = GPB1AdaptiveEstimationConfig(name="gpb1", model_interval=cfg["mi"], observation_window=1,
                                          prune_threshold=cfg["thr"], prune_percentage=cfg["pp"], mix_ratio=cfg["mix"])
    record, exc, started, af = {}, None, None, None
    HARNESS["created"] = None
    with _real_hypotheses(record):
        af = adaptiveEstimationFactory(mm, world["filter"], ScenarioTime(cfg["dt"]))
        try:
            started = af.initialize(obs, JulianDate(DB_JD0))
        except Exception as e:  # noqa: BLE001
            exc = e
    res.transitions += 1
    pr = record.get("pruning")
    created = HARNESS["created"]
    # ---- what the initial pruning must keep, from the delta-v hypotheses it was handed (own norm, own comparison)
    keep, edge, n_in = None, False, None
    if pr is not None:
        n_in = len(pr["maneuvers"])
        mags = [math.sqrt(sum(float(c) ** 2 for c in row)) for row in pr["maneuvers"]]
        edge = any(abs(v - DB_DV_CAP) <= 1e-9 for v in mags)
        keep = [i for i, v in enumerate(mags) if not v > DB_DV_CAP and i not in pr["crashed"]]
    nt = bool(keep is not None and len(keep) < n_in)
    removed = None if keep is None else n_in - len(keep)
    extra = {"hypotheses": n_in, "removed_by_initial_pruning": removed}
    ctx.base.update(extra)
    label = f"{n_in}->{None if keep is None else len(keep)}"
    if exc is not None:
        lens = {"models": len(af.models), "weights": int(np.size(af.model_weights)), "num_models": af.num_models}
        if len(af.models) and np.size(af.model_weights):
            lens["sum_over_models"] = float(np.sum(np.asarray(af.model_weights, dtype=float)[:len(af.models)]))
        ctx.case("dbinit/initialize/raises", False, sig="dbinit/initialize/raises/" + type(exc).__name__, nontrivial=True,
                 observed={"exception": f"{type(exc).__name__}: {exc}"[:300], "left_behind": lens},
                 expected="initialize() over a database that holds the previous observation and the estimates starts MMAE",
                 outcome="raises:" + label)
        if lens["weights"] != lens["models"]:
            ctx.case("dbinit/initialize/one_probability_per_model", False, nontrivial=True, observed=lens,
                     expected="one probability per surviving hypothesis")
        res.traces += 1
        return
    ok_start = bool(started) and pr is not None and created is not None
    ctx.case("dbinit/initialize/starts", ok_start, nontrivial=nt, observed={"started": started, "pruning_reached": pr is not None},
             expected="MMAE starts (previous observation stored, >= 2 hypotheses)", outcome=label)
    if not ok_start:
        res.traces += 1
        return
    ok_n = n_in == n == pr["num_models_in"] and float(af.time) == t_now and float(af.mmae_antecedent_time) == t_now - step
    ctx.case("dbinit/initialize/hypothesis_count", ok_n, nontrivial=nt,
             observed={"hypotheses": n_in, "time": float(af.time), "antecedent": float(af.mmae_antecedent_time)},
             expected={"hypotheses": n, "time": t_now, "antecedent": t_now - step})
    states, held = created
    if edge:
        res.either_way += 1
    else:
        ok_k = (len(held) == len(keep) == pr["num_models_out"] and states.shape == (len(keep), 6)
                and np.array_equal(states, pr["states_in"][keep]))
        ctx.case("dbinit/initialize/feasible_hypotheses_kept", ok_k, nontrivial=nt,
                 observed={"models_created": len(held), "num_models": pr["num_models_out"]},
                 expected={"kept": keep, "rule": "delta-v <= 0.981 km/s and no Earth impact"})
        if not ok_k:
            res.traces += 1
            return
    m = len(held)
    prior_w = np.ones(m) / m
    if cfg["kind"] == "smm":
        pw = _db_preweight(obs, held)
        if pw is not None:
            prior_w = pw
    closed = _db_post_update(ctx, "initialize", prior_w, np.ones(m) / m, held, af, ydim, nt)
    res.states += 1
    res.observe(af.model_weights, af.est_x, af.est_p)
    if closed:
        res.traces += 1
        return
    # ---- one more scenario step: predict, then the same observation set of the propagated truth
    t2 = t_now + cfg["dt"]
    ctx.hist = [set_name, set_name]
    held = list(af.models)
    pre_tags = [mdl.verif_tag for mdl in held]
    pre_w = np.array(af.model_weights, dtype=float, copy=True)
    pre_mu = np.array(af.mode_probabilities, dtype=float, copy=True)
    try:
        af.predict(ScenarioTime(t2))
    except Exception as e:  # noqa: BLE001
        ctx.case("dbinit/predict/raises", False, sig="dbinit/predict/raises/" + type(e).__name__, nontrivial=nt,
                 observed=f"{type(e).__name__}: {e}"[:300], expected="predict does not raise")
        res.traces += 1
        return
    models = _models_of(af)
    ok_book = ([mdl.verif_tag for mdl in models] == pre_tags and float(af.time) == t2 and np.array_equal(af.model_weights, pre_w)
               and all(float(mdl.time) == t2 for mdl in models))
    ctx.case("dbinit/predict/bookkeeping", ok_book, nontrivial=nt, observed={"n": len(models), "time": float(af.time)},
             expected={"n": len(pre_tags), "time": t2})
    if ok_book:
        _moments_case(ctx, "predict", af.pred_x, af.pred_p, pre_w, [mdl.pred_x for mdl in models], [mdl.pred_p for mdl in models], True,
                      prefix="dbinit", nt_fixed=nt)
        obs2, ydim2 = _db_observations(letters, t2, _DB_DYN.propagate(t_now, t2, world["truth"]))
        try:
            af.update(obs2)
        except Exception as e:  # noqa: BLE001
            ctx.case("dbinit/update/raises", False, sig="dbinit/update/raises/" + type(e).__name__, nontrivial=nt,
                     observed=f"{type(e).__name__}: {e}"[:300], expected="update does not raise")
            res.traces += 1
            return
        _db_post_update(ctx, "update", pre_w, pre_mu, held, af, ydim2, nt)
        res.observe(af.model_weights, af.est_x)
    res.transitions += 1
    res.states += 1
    res.traces += 1


def run_dbinit(res, cfg, item):
    for set_name in cfg["sets"]:
        _dbinit_case(res, cfg, set_name, item)


# ------------------------------------------------------------------------------------------------ small lattices
class _M:
    def __init__(self, px, ex):
        self.pred_x = px
        self.est_x = ex


def run_stacking(res, item):
    seed = item[1]
    ok_f = stackingFactory("eci_stack") is eciStack
    res.case("stacking/factory", {"method": "eci_stack"}, ok_f, signature="C18/stacking/factory", nontrivial=True)
    for bad in ("eci", "ECI_STACK", "", "ntw_stack"):
        try:
            stackingFactory(bad)
            ok = False
        except ValueError:
            ok = True
        res.case("stacking/factory_rejects", {"method": bad}, ok, signature="C18/stacking/factory_rejects", nontrivial=True)
    for n in (1, 2, 3, 5, 30):
        for wk in range(4):
            if wk == 0:
                w = np.ones(n) / n
            elif wk == 1:
                w = np.zeros(n)
                w[(seed + n) % n] = 1.0
            elif wk == 2:
                w = np.arange(1, n + 1, dtype=float)
                w = w / w.sum()
            else:
                w = np.array([0.5 ** (i + 1) for i in range(n)])
                w[-1] += 1.0 - w.sum()
            px = [np.array([1.0 + i, -2.0 * i, 0.5 * i * i, 0.01 * i, 1.0, -0.3 * i]) + 0.001 * seed for i in range(n)]
            ex = [p * 1.5 - 0.25 * (i + 1) for i, p in enumerate(px)]
            got_p, got_e = eciStack([_M(a, b) for a, b in zip(px, ex)], w)
            want_p = sum(wi * a for wi, a in zip(w, px))
            want_e = sum(wi * b for wi, b in zip(w, ex))
            ok = _close(got_p, want_p, rel=1e-13)[0] and _close(got_e, want_e, rel=1e-13)[0]
            res.case("stacking/eci_stack", {"n": n, "weights": wk}, ok, nontrivial=n > 1, signature="C18/stacking/eci_stack",
                     observed=_brief(got_e), expected=_brief(want_e))
            res.observe(np.asarray(got_p), np.asarray(got_e))


def run_mixmatrix(res, item):
    seed = item[1]
    cfg = _cfg("gpb1", 3, "1s", 1e-20, 0.997, "same", "direct", 1.5, seed, 1, 0)
    sysm = System(cfg)
    for n in (2, 3, 5, 30):
        for ratio in (1.0, 1.5, 4.0, 20.0, 0.5):
            nominal = sysm.nominal(T_START)
            af = GeneralizedPseudoBayesian1(nominal, ScenarioTime(DT), lambertInitializationFactory("lambert_universal"),
                                            stackingFactory("eci_stack"), 1, int(DT), 1e-20, 0.997, mix_ratio=ratio)
            af.num_models = n
            m = af._constructMixMatrix()  # noqa: SLF001
            want = orc.mix_matrix(n, ratio)
            ok = m.shape == (n, n) and _close(m, want, rel=1e-14)[0] and bool(np.all(np.abs(m.sum(axis=1) - 1.0) <= 1e-14)) \
                and bool(np.all(np.abs(m.sum(axis=0) - 1.0) <= 1e-14))
            res.case("gpb1/mix_matrix", {"n": n, "ratio": ratio}, ok, nontrivial=ratio != 1.0, signature="C18/gpb1/mix_matrix",
                     observed=_brief(m[0]), expected=_brief(want[0]))
            res.observe(m)


# ------------------------------------------------------------------------------------------------ entry points
def _norm_cfg(cfg):
    cfg = dict(cfg)
    cfg["resample"] = bool(cfg["resample"])
    cfg["via_results"] = bool(cfg.get("via_results", False))
    cfg["obs_seq"] = list(cfg["obs_seq"]) if cfg.get("obs_seq") else None
    return cfg


def run_item(item):
    res = fw.Result()
    kind = item[0]
    if kind == "tree":
        cfg = _norm_cfg(item[1])
        if cfg["mode"] == "direct":
            explore_direct(res, cfg, ("tree", cfg))
        elif cfg["mode"] == "mag":
            explore_mag(res, cfg, ("tree", cfg))
        else:
            explore_agent(res, cfg, ("tree", cfg))
        res.observe(res.evaluations, res.states, res.transitions, res.traces, sorted(res.outcomes.items()))
    elif kind == "dbinit":
        cfg = dict(item[1])
        cfg["sets"] = list(cfg["sets"])
        run_dbinit(res, cfg, ("dbinit", cfg))
        res.observe(res.evaluations, res.states, res.transitions, res.traces, sorted(res.outcomes.items()))
    elif kind == "stacking":
        run_stacking(res, item)
    elif kind == "mixmatrix":
        run_mixmatrix(res, item)
    else:
        raise ValueError(kind)
    return res
