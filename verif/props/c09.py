"""C09 - the output database is complete, duplicate-free and referentially consistent.

History explorer (every run-call sequence x physics/output step pair x agent-set history x estimation mode of the
announced lattice, on the real Scenario with an in-memory SQLite output DB) + crash-point enumeration (an
OperationalError injected at every SQL statement and at the commit of one saveDatabaseOutput, for every save of a short
run).  Reference model = what the harness records from the live scenario objects immediately before each save.
"""
from __future__ import annotations

import itertools
import json
from datetime import datetime, timedelta

import numpy as np
from sqlalchemy import event as sa_event
from sqlalchemy import text
from sqlalchemy.exc import OperationalError

from verif import canon, fakeray, scen
from verif import framework as fw

from resonaate.physics.time.stardate import datetimeToJulianDate  # noqa: E402

PROPERTY = "C09"
LEVEL = "model_checking"
RULE = (
    "every (physics step, output step) in {(60,60),(60,300),(300,60),(300,400),(120,300)} x every run-call sequence "
    "([N], every two-call split, one call per step) x agent-set history (none / targets+sensors added and removed by "
    "events / maneuver detections) x estimation (on / truth-only) x save_filter_steps, each audited by SQL against the "
    "states the harness recorded from the live objects before each save; plus every crash point (each SQL statement "
    "and the commit) of every saveDatabaseOutput of a short run. non-trivial = output step != physics step, or a "
    "split run, or a changing agent set, or a crash point; distinct by construction."
)
ASSUMPTIONS = [
    "SQLite in-memory output database through the real ResonaateDatabase (StaticPool single connection)",
    "a database fault is modelled as an OperationalError raised before a statement executes or when the commit is issued",
    "default job completion order (C08 covers the others)",
]
EXPECT_MIN_NONTRIVIAL = 30
START0 = datetime(2021, 3, 30, 16, 0, 37)
START = START0  # switched per item: some audits start on a fractional second


def _network(st, estimation, history, physics, n_steps, save_steps=False):
    sub = [(9.0, 21.0, 20000.0, 90.0), (11.0, 25.0, 21000.0, 60.0)]
    tg = [scen.target_eci(10001 + j, *scen.overhead_orbit(st, *sub[j])) for j in range(2)]
    ss = [scen.ground_sensor(20001, 10.0, 20.0, fov={"fov_shape": "conic", "cone_angle": 20.0}),
          scen.ground_sensor(20002, 12.0, 27.0, fov={"fov_shape": "conic", "cone_angle": 20.0})]
    events = []

    def at(k, extra=0):
        return scen.iso(st + timedelta(seconds=k * physics + extra))

    fp = {"save_filter_steps": save_steps}
    if history == "agents":
        events.append({"scope": "scenario_step", "scope_instance_id": 0, "start_time": at(2), "event_type": "target_addition",
                       "tasking_engine_id": 1, "target_agent": scen.target_eci(10003, *scen.overhead_orbit(st, 14.0, 23.0, 20500.0, 80.0))})
        events.append({"scope": "scenario_step", "scope_instance_id": 0, "start_time": at(3), "event_type": "agent_removal",
                       "tasking_engine_id": 1, "agent_id": 10002, "agent_type": "target"})
        events.append({"scope": "scenario_step", "scope_instance_id": 0, "start_time": at(3, -1), "event_type": "sensor_addition",
                       "tasking_engine_id": 1, "sensor_agent": scen.space_sensor(20003, [0.0, 9000.0, 0.0], [-4.5, 0.0, 4.5])})
        if n_steps >= 5:
            events.append({"scope": "scenario_step", "scope_instance_id": 0, "start_time": at(5), "event_type": "agent_removal",
                           "tasking_engine_id": 1, "agent_id": 20002, "agent_type": "sensor"})
            events.append({"scope": "scenario_step", "scope_instance_id": 0, "start_time": at(5), "event_type": "agent_removal",
                           "tasking_engine_id": 1, "agent_id": 10003, "agent_type": "target"})
    if history == "time_bias":
        # a sensor time bias active over steps 2..4: observations made meanwhile are still rows of the run's epochs
        events.append({"scope": "observation_generation", "scope_instance_id": 20001, "start_time": at(1, 30), "end_time": at(4, 30),
                       "event_type": "sensor_time_bias", "applied_bias": 0.5})
        events.append({"scope": "observation_generation", "scope_instance_id": 20002, "start_time": at(2), "end_time": at(n_steps),
                       "event_type": "sensor_time_bias", "applied_bias": -1.25})
    if history == "maneuver":
        fp["maneuver_detection"] = {"name": "standard_nis", "threshold": 0.05}
        events.append({"scope": "agent_propagation", "scope_instance_id": 10001, "start_time": at(2, -7), "event_type": "impulse",
                       "thrust_vector": [0.0, 0.05, 0.0], "thrust_frame": "ntw", "planned": False})
    return tg, ss, events, fp


def _config(physics, output, n_steps, estimation, history, save_steps=False, span_steps=None):
    """``span_steps``: configured span (start..stop_timestamp) in steps; default covers the run. A run may legally go
    PAST the configured span (``resonaate -t <hours>`` does): the epochs beyond it are then created by the saves."""
    tg, ss, events, fp = _network(START, estimation, history, physics, n_steps, save_steps)
    engines = [scen.engine(1, tg, ss)]
    if history == "shared_target":
        # a second and a third tasking engine that list target 10001 again (identical state, which is legal), each with
        # its own sensor: the target is ONE agent with ONE estimate, whatever number of engines track it
        import copy  # noqa: PLC0415

        engines.append(scen.engine(2, [copy.deepcopy(tg[0])], [scen.ground_sensor(20004, 8.0, 23.0, fov={"fov_shape": "conic", "cone_angle": 20.0})]))
        engines.append(scen.engine(3, [copy.deepcopy(tg[0]), copy.deepcopy(tg[1])],
                                   [scen.ground_sensor(20005, 11.0, 17.0, fov={"fov_shape": "conic", "cone_angle": 20.0})]))
    cfg = scen.config(START, (n_steps + 1) if span_steps is None else span_steps, engines, physics=physics, output=output,
                      truth_only=not estimation, events=events, filter_params=fp, seed=3)
    if history == "gpf":
        # the genetic particle filter: its filter steps are rows of another joined table (particle_filter_step)
        cfg["estimation"]["sequential_filter"] = {
            "name": "genetic_particle_filter", "dynamics_model": "two_body", "population_size": 24, "num_purge": 4, "num_keep": 4,
            "num_mutate": 12, "save_filter_steps": save_steps, "maneuver_detection": None}
    return cfg


STEP_PAIRS = [(60, 60), (60, 300), (300, 60), (300, 400), (120, 300)]


def _plans(n):
    plans = [("single", [n])]
    plans += [(f"split{a}", [a, n]) for a in range(1, n)]
    plans.append(("each_step", list(range(1, n + 1))))
    return plans


def items(tier, seed):
    n = 6 if tier == "quick" else 12
    out = []
    for (p, o) in STEP_PAIRS:
        nn = n if o <= p or o % p else n  # same length; long output steps just have fewer saves
        plans = _plans(nn)
        if tier == "quick":
            plans = [plans[0], plans[2], plans[-2], plans[-1]]
        for est in (True, False):
            for hist in ("none", "agents", "maneuver"):
                if hist == "maneuver" and not est:
                    continue
                for pname, plan in plans:
                    out.append(("audit", p, o, nn, est, hist, pname, plan, False))
    for (p, o) in ((60, 60), (60, 300)):
        out.append(("audit", p, o, n, True, "none", "single", [n], True))  # save_filter_steps
        out.append(("audit", p, o, n, True, "maneuver", "each_step", list(range(1, n + 1)), True))
    # one target tracked by several tasking engines
    out.append(("audit", 60, 60, 4, True, "shared_target", "single", [4], False))
    out.append(("audit", 60, 120, 4, True, "shared_target", "each_step", [1, 2, 3, 4], True))
    out.append(("audit", 60, 60, 4, False, "shared_target", "split2", [2, 4], False))
    # the particle filter (its filter steps live in their own joined table), with and without saved filter steps
    out.append(("audit", 60, 60, 4, True, "gpf", "single", [4], True))
    out.append(("audit", 60, 120, 4, True, "gpf", "each_step", [1, 2, 3, 4], True))
    out.append(("audit", 60, 60, 4, True, "gpf", "split2", [2, 4], False))
    # spans of a day and more (the days part of the configured span matters) with records at non-output epochs
    out.append(("audit", 3600, 7200, 26, True, "none", "single", [26], False))
    out.append(("audit", 3600, 7200, 26, True, "none", "split13", [13, 26], False))
    out.append(("audit", 3600, 3600, 25, False, "none", "single", [25], False))
    # runs that go PAST the configured span (2 steps configured): epochs beyond it are not pre-inserted by the clock
    for (p, o) in ((60, 60), (60, 300), (300, 60), (120, 300)):
        for est in (True, False):
            for pname, plan in (("single", [n]), ("split2", [2, n]), ("each_step", list(range(1, n + 1)))):
                out.append(("audit", p, o, n, est, "none", pname, plan, False, 2))
    out.append(("audit", 60, 60, n, True, "maneuver", "single", [n], True, 2))
    for (p, o) in ((60, 60), (60, 300)):
        out.append(("audit", p, o, n, True, "time_bias", "single", [n], False))
        out.append(("audit", p, o, n, True, "time_bias", "each_step", list(range(1, n + 1)), False))
    # start instants that are NOT whole seconds (timestamps carry microseconds; Julian dates must follow them)
    for ms in (500, 250):
        out.append(("audit", 60, 60, n, True, "none", "each_step", list(range(1, n + 1)), False, None, ms))
        out.append(("audit", 60, 300, n, True, "agents", "split2", [2, n], False, None, ms))
        out.append(("audit", 300, 60, n, False, "none", "single", [n], False, 2, ms))
    # agents whose truth is IMPORTED from an ephemeris database (they take their epoch over from the imported record)
    for mix in ("targets", "sensors", "both"):
        out.append(("imported", mix, 4 if tier == "quick" else 8))
    crash_n = 3 if tier == "quick" else 5
    for est in (True, False):
        for hist in ("none", "agents"):
            for save_idx in range(crash_n + 1):
                out.append(("crash", 60, 60, crash_n, est, hist, save_idx))
    # saves that also write filter steps (joined-table rows), detected maneuvers, particle-filter steps
    for hist in ("none", "maneuver", "gpf"):
        for save_idx in range(1, crash_n + 1):
            out.append(("crash", 60, 60, crash_n, True, hist, save_idx, True))
    out.append(("crash", 60, 300, 5, True, "none", 1))
    return out


def bounds(tier, seed):
    n = 6 if tier == "quick" else 12
    return {"steps": n, "step_pairs": STEP_PAIRS, "plans": [p for p, _ in _plans(n)], "histories": ["none", "agents", "maneuver", "time_bias"]}


# ------------------------------------------------------------------------------------------------ reference + audit
class Recorder:
    """Wraps Scenario.saveDatabaseOutput of one scenario instance and records the live objects before each save."""

    def __init__(self, sc):
        self.sc = sc
        self.saves = []
        self._orig = sc.saveDatabaseOutput
        sc.saveDatabaseOutput = self

    def snapshot(self):
        sc = self.sc
        snap = {
            "iso": sc.clock.datetime_epoch.isoformat(timespec="microseconds"),
            "jd": float(sc.clock.julian_date_epoch),
            "truth": {aid: np.array(a.eci_state, dtype=float) for aid, a in {**sc.target_agents, **sc.sensor_agents}.items()},
            "est": {},
            "engines": {eid: (list(e.target_list), list(e.sensor_list)) for eid, e in sc.tasking_engines.items()},
        }
        if not sc.scenario_config.propagation.truth_simulation_only:
            snap["est"] = {aid: (np.array(e.state_estimate, dtype=float), np.array(e.error_covariance, dtype=float))
                           for aid, e in sc.estimate_agents.items()}
        return snap

    def __call__(self):
        self.saves.append(self.snapshot())
        return self._orig()


def _rows(conn, sql, **kw):
    return conn.execute(text(sql), kw).fetchall()


COV_COLS = ", ".join(f"covar_{i}{j}" for i in range(6) for j in range(6))
STATE_COLS = "pos_x_km, pos_y_km, pos_z_km, vel_x_km_p_sec, vel_y_km_p_sec, vel_z_km_p_sec"


def _audit(res, sc, saves, case, item, truth_only):
    def chk(sub, ok, sig, observed=None, expected=None, nontrivial=False):
        res.case(f"audit/{sub}", case, ok, nontrivial=nontrivial, signature=f"C09/{sig}", observed=observed, expected=expected, item=item)

    with sc.database.engine.connect() as conn:
        epochs = _rows(conn, "SELECT julian_date, timestampISO FROM epochs ORDER BY julian_date")
        jds = [float(r[0]) for r in epochs]
        isos = [r[1] for r in epochs]
        chk("epochs_unique_increasing", len(set(jds)) == len(jds) and len(set(isos)) == len(isos)
            and all(b > a for a, b in zip(jds, jds[1:])) and sorted(isos) == isos, "epochs/not_unique_increasing",
            observed={"n": len(jds)})
        # the table as the run wrote it (primary-key order) is in time order too: an epoch inserted late - by the
        # clock for the configured span, by a save for the steps past it - never precedes an earlier-inserted later one
        by_id = [float(r[0]) for r in _rows(conn, "SELECT julian_date FROM epochs ORDER BY id")]
        chk("epochs_id_order_is_time_order", all(b > a for a, b in zip(by_id, by_id[1:])), "epochs/id_order_not_time_order",
            observed=[(k, a, b) for k, (a, b) in enumerate(zip(by_id, by_id[1:])) if not b > a][:2])
        bad = [(i, j) for i, j in zip(isos, jds) if abs(float(datetimeToJulianDate(datetime.fromisoformat(i))) - j) > 1e-8]
        chk("epoch_timestamp_matches_jd", not bad, "epochs/timestamp_jd_mismatch", observed=bad[:2])
        jdset = set(jds)
        # every step epoch of the run has its row (records buffered at non-output steps refer to them)
        # (inside the configured span the clock inserts them; beyond it the saves do, so only up to the last save)
        last_saved = max(round((datetime.fromisoformat(s_["iso"]) - START).total_seconds()) for s_ in saves) // case["physics"]
        upto = max(min(case["configured_span_steps"], case["steps"]), last_saved)
        want_iso = [(START + timedelta(seconds=k * case["physics"])).isoformat(timespec="microseconds") for k in range(upto + 1)]
        missing_ep = [w for w in want_iso if w not in set(isos)]
        chk("epochs_cover_every_step", not missing_ep, "epochs/step_epoch_missing", observed=missing_ep[:3], expected=len(want_iso))
        agents = {int(r[0]) for r in _rows(conn, "SELECT unique_id FROM agents")}
        # every saved epoch exists, with the recorded timestamp
        for s in saves:
            chk("save_epoch_present", s["jd"] in jdset and s["iso"] in isos, "epochs/save_epoch_missing", observed=s["iso"])
        save_jds = [s["jd"] for s in saves]
        chk("saves_distinct", len(set(save_jds)) == len(save_jds), "saves/duplicate_save_epoch", observed=len(save_jds))

        # truth: exactly one row per live agent per save, none elsewhere, values bit-equal
        truth = _rows(conn, f"SELECT agent_id, julian_date, {STATE_COLS} FROM truth_ephemerides")
        got = {}
        for r in truth:
            got.setdefault((int(r[0]), float(r[1])), []).append(tuple(float(x) for x in r[2:]))
        want = {(aid, s["jd"]): tuple(float(x) for x in v) for s in saves for aid, v in s["truth"].items()}
        missing = sorted(k for k in want if k not in got)
        extra = sorted(k for k in got if k not in want)
        dup = sorted(k for k, v in got.items() if len(v) > 1)
        wrong = sorted(k for k in want if k in got and got[k][0] != want[k])
        chk("truth_complete", not missing, "truth/missing_rows", observed=missing[:3], expected=len(want), nontrivial=True)
        chk("truth_no_extra", not extra, "truth/rows_at_non_output_epoch_or_dead_agent", observed=extra[:3])
        chk("truth_no_duplicates", not dup, "truth/duplicate_rows", observed=dup[:3])
        chk("truth_values", not wrong, "truth/values_differ_from_memory", observed=wrong[:2])

        est = _rows(conn, f"SELECT agent_id, julian_date, {STATE_COLS}, {COV_COLS} FROM estimate_ephemerides")
        got = {}
        for r in est:
            got.setdefault((int(r[0]), float(r[1])), []).append(tuple(float(x) for x in r[2:]))
        want = {(aid, s["jd"]): tuple(float(x) for x in np.concatenate((x, p.ravel()))) for s in saves for aid, (x, p) in s["est"].items()}
        missing = sorted(k for k in want if k not in got)
        extra = sorted(k for k in got if k not in want)
        dup = sorted(k for k, v in got.items() if len(v) > 1)
        wrong = sorted(k for k in want if k in got and got[k][0] != want[k])
        chk("estimate_complete", not missing, "estimate/missing_rows", observed=missing[:3], expected=len(want), nontrivial=not truth_only)
        chk("estimate_no_extra", not extra, "estimate/rows_at_non_output_epoch_or_untracked", observed=extra[:3])
        chk("estimate_no_duplicates", not dup, "estimate/duplicate_rows", observed=dup[:3])
        chk("estimate_values", not wrong, "estimate/values_differ_from_memory", observed=wrong[:2])

        # referential consistency of every table that carries julian_date / agent references
        tables = [r[0] for r in _rows(conn, "SELECT name FROM sqlite_master WHERE type='table'")]
        for t in tables:
            if t in ("epochs", "agents"):
                continue
            cols = [r[1] for r in _rows(conn, f'PRAGMA table_info("{t}")')]
            if "julian_date" in cols:
                bad = [float(r[0]) for r in _rows(conn, f'SELECT julian_date FROM "{t}"') if float(r[0]) not in jdset]
                chk(f"fk_epoch/{t}", not bad, f"fk/epoch_missing/{t}", observed=bad[:3])
            for c in ("agent_id", "sensor_id", "target_id"):
                if c in cols and t != "events":
                    bad = [r[0] for r in _rows(conn, f'SELECT {c} FROM "{t}"') if r[0] is not None and int(r[0]) not in agents]
                    chk(f"fk_agent/{t}.{c}", not bad, f"fk/agent_missing/{t}.{c}", observed=bad[:3])
        # tasks: one row per (engine pair) per save after the initial one, no duplicates
        tasks = _rows(conn, "SELECT julian_date, target_id, sensor_id FROM tasks")
        keys = [(float(r[0]), int(r[1]), int(r[2])) for r in tasks]
        chk("tasks_no_duplicates", len(set(keys)) == len(keys), "tasks/duplicate_rows", observed=len(keys) - len(set(keys)))
        if not truth_only:
            want_t = {(s["jd"], t, sn) for s in saves for (tl, sl) in s["engines"].values() for t in tl for sn in sl}
            chk("tasks_complete", want_t == set(keys), "tasks/rows_do_not_match_engine_pairs",
                observed={"missing": sorted(want_t - set(keys))[:3], "extra": sorted(set(keys) - want_t)[:3]})
        else:
            chk("tasks_absent_truth_only", not keys, "tasks/rows_in_truth_only_run", observed=len(keys))
        # observations / missed / maneuvers / filter steps: no exact duplicate rows
        for t in ("observations", "missed_observations", "detected_maneuvers", "filterstep"):
            if t in tables:
                cols = [r[1] for r in _rows(conn, f'PRAGMA table_info("{t}")') if r[1] != "id"]
                rows = _rows(conn, f'SELECT {", ".join(cols)} FROM "{t}"')
                chk(f"no_duplicates/{t}", len(set(rows)) == len(rows), f"duplicates/{t}", observed=len(rows) - len(set(rows)))
                res.extra[f"rows_{t}"] = res.extra.get(f"rows_{t}", 0) + len(rows)
        if "filterstep" in tables and "sequential_filter_step" in tables:
            orphans = _rows(conn, "SELECT id FROM sequential_filter_step WHERE id NOT IN (SELECT id FROM filterstep)")
            chk("filterstep_parent", not orphans, "fk/filter_step_parent_missing", observed=len(orphans))
        kids = [t for t in ("sequential_filter_step", "particle_filter_step") if t in tables]
        if "filterstep" in tables and kids:
            # joined-table rows: every child row has its parent row and every parent row exactly one child row
            child_ids = [int(r[0]) for t in kids for r in _rows(conn, f'SELECT id FROM "{t}"')]
            parent_ids = [int(r[0]) for r in _rows(conn, "SELECT id FROM filterstep")]
            chk("filterstep_children", sorted(child_ids) == sorted(parent_ids), "fk/filter_step_parent_child_mismatch",
                observed={"parents": len(parent_ids), "children": len(child_ids),
                          "childless": sorted(set(parent_ids) - set(child_ids))[:3], "orphans": sorted(set(child_ids) - set(parent_ids))[:3]})
            for t in kids:
                res.extra[f"rows_{t}"] = res.extra.get(f"rows_{t}", 0) + len(_rows(conn, f'SELECT id FROM "{t}"'))


def _run_audit(res, item):
    global START  # noqa: PLW0603
    START = START0 + timedelta(milliseconds=item[10] if len(item) > 10 else 0)
    try:
        _run_audit_at(res, item)
    finally:
        START = START0


def _run_audit_at(res, item):
    _, physics, output, n, est, hist, pname, plan, save_steps = item[:9]
    span_steps = item[9] if len(item) > 9 else None
    cfg = _config(physics, output, n, est, hist, save_steps, span_steps)
    sc = scen.build(cfg)
    rec = Recorder(sc)
    # the initial save happened in the constructor: reconstruct its reference from the initial objects
    init = rec.snapshot()
    case = {"physics": physics, "output": output, "steps": n, "estimation": est, "history": hist, "plan": pname, "save_filter_steps": save_steps,
            "configured_span_steps": span_steps if span_steps is not None else n + 1,
            "start_fraction_ms": START.microsecond // 1000}
    err = None
    # initial snapshot must be taken at time 0: rebuild to be exact
    if float(sc.clock.time) != 0.0:
        err = "scenario not at time 0 after construction"
    calls = 0
    orig_step = sc.stepForward

    def counted():
        nonlocal calls
        calls += 1
        return orig_step()

    sc.stepForward = counted
    # what the task-execution jobs handed to the driver (the records "the simulation held"), straight from the seam
    collected = {"obs": [], "miss": []}

    def on_delivery(name, result):
        if name.endswith("asyncExecuteTasking"):
            collected["obs"] += [(int(o.sensor_id), int(o.target_id), float(o.julian_date)) for o in result.observations]
            collected["miss"] += [(int(m.sensor_id), int(m.target_id), float(m.julian_date)) for m in result.missed_observations]

    fakeray.DELIVERY_HOOK = on_delivery
    try:
        for upto in plan:
            sc.propagateTo(datetimeToJulianDate(START + timedelta(seconds=upto * physics)))
    except Exception as exc:  # noqa: BLE001
        err = f"{type(exc).__name__}: {exc}"
    finally:
        fakeray.DELIVERY_HOOK = None
    nontriv = output != physics or len(plan) > 1 or hist != "none" or span_steps is not None or START.microsecond != 0
    res.case("audit/run", case, err is None and calls == n, nontrivial=nontriv, signature="C09/run/error_or_step_count",
             observed={"error": err, "steps": calls}, expected={"steps": n}, item=item)
    saves = [init] + rec.saves
    # the set of output epochs: time 0 and every step k with (k*physics) % output == 0
    want_times = [0] + [k * physics for k in range(1, n + 1) if (k * physics) % output == 0]
    got_times = [round((datetime.fromisoformat(s["iso"]) - START).total_seconds()) for s in saves]
    res.case("audit/output_epochs", case, got_times == want_times, nontrivial=nontriv, signature="C09/saves/output_epochs_wrong",
             observed=got_times, expected=want_times, outcome=f"saves={len(got_times)}", item=item)
    _audit(res, sc, saves, case, item, truth_only=not est)
    if est and err is None:
        # every observation / miss collected up to the last save is stored exactly once, and nothing else is
        last_save_jd = max(s_["jd"] for s_ in saves)
        with sc.database.engine.connect() as conn:
            for table, key in (("observations", "obs"), ("missed_observations", "miss")):
                stored = sorted((int(r[0]), int(r[1]), float(r[2]))
                                for r in _rows(conn, f"SELECT sensor_id, target_id, julian_date FROM {table}"))
                want = sorted(r for r in collected[key] if r[2] <= last_save_jd + 1e-9)
                res.case(f"audit/collected_{key}_stored", case, stored == want, nontrivial=len(want) > 0 and output != physics,
                         signature=f"C09/{table}/{'lost' if len(stored) < len(want) else 'extra' if len(stored) > len(want) else 'different'}",
                         observed={"stored": len(stored)}, expected={"collected_up_to_last_save": len(want)},
                         outcome=f"{key}={len(want)}", item=item)
    res.observe(canon.state_hash(canon.dump_db(sc.database)))
    res.states += calls + 1
    res.transitions += calls
    res.traces += 1


# ------------------------------------------------------------------------------------------------ crash points
class _Injector:
    def __init__(self, engine):
        self.engine = engine
        self.armed = False
        self.count = 0
        self.fail_at = None  # statement index, or "commit"
        self.fired = False
        sa_event.listen(engine, "before_cursor_execute", self._before)
        sa_event.listen(engine, "commit", self._commit)

    def _before(self, conn, cursor, statement, parameters, context, executemany):
        if not self.armed:
            return
        idx = self.count
        self.count += 1
        if self.fail_at == idx:
            self.fired = True
            self.armed = False
            raise OperationalError(statement, parameters, Exception("injected fault (verif C09)"))

    def _commit(self, conn):
        if self.armed and self.fail_at == "commit" and not self.fired:
            self.fired = True
            self.armed = False
            raise OperationalError("COMMIT", {}, Exception("injected commit fault (verif C09)"))

    def remove(self):
        sa_event.remove(self.engine, "before_cursor_execute", self._before)
        sa_event.remove(self.engine, "commit", self._commit)


def _dump_no_epochs(db):
    d = canon.dump_db(db)
    d.pop("epochs", None)
    return d


def _run_to_save(cfg, n, save_idx):
    """Run until just before save number ``save_idx`` (0 = the constructor's save is not interceptable -> use 1..n)."""
    sc = scen.build(cfg)
    pending = {"hit": False}
    orig = sc.saveDatabaseOutput
    count = {"n": 0}

    class Stop(Exception):
        pass

    def gate():
        count["n"] += 1
        if count["n"] == save_idx:
            pending["hit"] = True
            raise Stop
        return orig()

    sc.saveDatabaseOutput = gate
    try:
        for _ in range(n):
            sc.stepForward()
            if sc.clock.time % sc.output_time_step == 0:
                sc.saveDatabaseOutput()
    except Stop:
        pass
    sc.saveDatabaseOutput = orig
    return sc, pending["hit"]


def _run_crash(res, item):
    _, physics, output, n, est, hist, save_idx = item[:7]
    save_steps = bool(item[7]) if len(item) > 7 else False
    if save_idx == 0:
        return  # the initial save runs inside the constructor; covered by the audit of the initial state
    cfg = _config(physics, output, n, est, hist, save_steps)
    # dry run: count the statements of this save and capture the pre/post dumps
    sc, hit = _run_to_save(cfg, n, save_idx)
    if not hit:
        return
    pre = _dump_no_epochs(sc.database)
    inj = _Injector(sc.database.engine)
    inj.armed = True
    sc.saveDatabaseOutput()
    inj.armed = False
    n_stmt = inj.count
    inj.remove()
    post = _dump_no_epochs(sc.database)
    res.case("crash/save_writes_something", {"save": save_idx, "estimation": est, "history": hist}, pre != post,
             signature="C09/crash/harness_save_wrote_nothing", item=item)
    for point in list(range(n_stmt)) + ["commit"]:
        sc2, _ = _run_to_save(cfg, n, save_idx)
        inj = _Injector(sc2.database.engine)
        inj.fail_at = point
        inj.armed = True
        raised = None
        try:
            sc2.saveDatabaseOutput()
        except Exception as exc:  # noqa: BLE001
            raised = type(exc).__name__
        inj.armed = False
        inj.remove()
        after = _dump_no_epochs(sc2.database)
        state = "pre" if after == pre else "post" if after == post else "partial"
        case = {"physics": physics, "output": output, "estimation": est, "history": hist, "save": save_idx, "crash_point": point,
                "statements": n_stmt, "save_filter_steps": save_steps}
        res.case("crash/all_or_nothing", case, state in ("pre", "post") and inj.fired, nontrivial=True,
                 signature=f"C09/crash/{'not_injected' if not inj.fired else 'partial_step_committed'}",
                 observed={"db_state": state, "raised": raised}, expected="pre-save or post-save contents",
                 outcome=state, item=item)
        # an injected fault must surface to the caller, not be swallowed with a half-written step
        res.case("crash/fault_surfaces", case, raised is not None or state == "post", signature="C09/crash/fault_swallowed",
                 observed={"raised": raised, "db_state": state}, item=item)
        res.observe(state, raised)
        res.transitions += 1
    res.states += 2
    res.traces += n_stmt + 1


def _run_imported(res, item):
    """Output rows of a run whose targets and/or sensors follow an importer database (built by a realtime run first)."""
    import os  # noqa: PLC0415
    import shutil  # noqa: PLC0415
    import tempfile  # noqa: PLC0415

    from verif.props import c19  # noqa: PLC0415

    _, mix, n = item
    tmp = tempfile.mkdtemp(prefix="verif_c09_")
    try:
        src, path = os.path.join(tmp, "source.sqlite3"), os.path.join(tmp, "imp.sqlite3")
        c19._source_db(src, n)  # noqa: SLF001
        c19._derive(src, path, list(c19.TARGETS + c19.SENSORS), None)  # noqa: SLF001
        cfg = c19._importer_config(n, mix, truth_only=True)  # noqa: SLF001
        case = {"imported": mix, "steps": n}
        sc = scen.build(cfg, importer_db_path=f"sqlite:///{path}")
        err = None
        try:
            sc.propagateTo(datetimeToJulianDate(c19.START + timedelta(seconds=n * c19.DT)))
        except Exception as exc:  # noqa: BLE001
            err = f"{type(exc).__name__}: {exc}"
        res.case("imported/run", case, err is None, signature="C09/imported/run_error", observed=err, item=item)
        with sc.database.engine.connect() as conn:
            epochs = [float(r[0]) for r in _rows(conn, "SELECT julian_date FROM epochs ORDER BY julian_date")]
            truth = _rows(conn, "SELECT agent_id, julian_date FROM truth_ephemerides")
        run_epochs = epochs[: n + 1]
        agents = sorted({int(r[0]) for r in truth})
        for aid in agents:
            got = sorted(float(r[1]) for r in truth if int(r[0]) == aid)
            res.case("imported/one_truth_row_per_agent_and_epoch", {**case, "agent": aid}, got == run_epochs, nontrivial=True,
                     key=f"{mix}|{aid}", signature="C09/imported/truth_rows_not_one_per_epoch",
                     observed={"rows": len(got), "distinct_epochs": len(set(got)), "first": got[:2]},
                     expected={"rows": len(run_epochs), "first": run_epochs[:2]}, item=item)
        dangling = [r for r in truth if float(r[1]) not in set(epochs)]
        res.case("imported/rows_refer_to_epochs", case, not dangling and len(agents) == 4, nontrivial=True, key=f"{mix}|fk",
                 signature="C09/imported/fk/epoch_missing", observed={"dangling": len(dangling), "agents": agents}, item=item)
        for eng in sc.tasking_engines.values():
            if eng._importer_db is not None:  # noqa: SLF001
                eng._importer_db.engine.dispose()  # noqa: SLF001
        if sc._ephem_importer is not None:  # noqa: SLF001
            sc._ephem_importer._importer_db.engine.dispose()  # noqa: SLF001
        res.observe(canon.state_hash(canon.dump_db(sc.database)))
        res.states += n + 1
        res.transitions += n
        res.traces += 1
    finally:
        shutil.rmtree(tmp, ignore_errors=True)


def run_item(item):
    res = fw.Result()
    if item[0] == "audit":
        _run_audit(res, item)
    elif item[0] == "imported":
        _run_imported(res, item)
    else:
        _run_crash(res, item)
    return res
