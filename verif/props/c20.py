"""C20 - Lambert solutions and orbit determination reproduce the arc they were given.

Lattice explorer on the real code:

* ``lambertUniversal`` / ``lambertBattin`` (and ``lambertGauss`` on the short arcs it is meant for) on every arc of an
  (a, e, i, nu0, time-of-flight fraction) lattice, told the true transfer sense, against an own closed-form Kepler
  reference (``verif/oracles/c20_ref.py``: perifocal construction of both end states, Newton solve of Kepler's
  equation, propagation of the returned velocity);
* the helpers they rest on: ``universalC2C3`` (own power series), ``keplerThirdLaw`` / ``determineTransferDirection``,
  ``lambertInitializationFactory``;
* ``radarObs2eciPosition`` on real ``Observation`` objects built by the real radar ``Measurement`` at a site lattice x
  topocentric target lattice (round trip) and on explicitly constructed observations against an own FK5 / geodesy
  model (``verif/oracles/frames_ref.py``); the same three ways (explicit observation, round trip, and the numbers of
  the forward model ``getAzimuth`` / ``getElevation`` / ``getRange`` / ``getRangeRate`` themselves) on the threshold
  lattices of the measurement chain: zenith and nadir distances from exactly 0 over 1e-9 .. 1e-3 rad x 8 bearings x
  ranges x relative-velocity headings across / against the offset (the forward model takes the azimuth from the
  velocity "at" the zenith), and offsets of 0, +-1e-12 .. +-1e-3 rad about the four cardinal azimuths (wrap at
  0 / 2 pi, arctan2 cut at south) and about the horizon;
* the real ``LambertIOD`` (``fromConfig``, ``getPreviousObservations``, ``checkSinglePass``, ``_determineFinalState``,
  ``determineNewEstimateState``) against a real in-memory ``ResonaateDatabase`` that the harness fills with noise-free
  radar observations (plus decoy rows that each query filter has to reject);
* the same pipeline with the IOD object obtained the way the library obtains it: a real ``EstimateAgent`` built by
  ``Scenario.addTarget`` (a real ``Scenario`` whose ``ScenarioClock`` was advanced first), by
  ``EstimateAgent.fromConfig`` and by the constructor, at scenario time t_add in {0, 600, 3600, 86400 s} (a target that
  joins mid-run), for every ``InitialOrbitDeterminationLabel`` value given in the configuration; the agent's own
  ``_update`` -> ``_handleIOD`` -> ``_attemptInitialOrbitDetermination`` sequence is driven over the detection step
  and the step that delivers the second observation, and the state handed to the filter must be the orbit's state;
* the Lambert entry points of the adaptive filter (``AdaptiveFilter._calculateDeltaV`` /
  ``_generateHypothesisManeuvers``) on a real filter object.

Tolerances (derived; v_c = sqrt(mu/a) is the velocity scale of the arc, a its semi-major axis; envelopes measured on the
thorough lattice for seeds 0, 1, 7)

* universal variables: the bisection stops when the time of flight is matched to ``_ATOL`` = 1.48e-8 s (or after 100
  halvings of an interval of 8 pi^2, i.e. at double resolution).  A time-of-flight error dt moves the end velocities by
  about v_c dt / tof; the shortest arc of the lattice is 0.005 P, so <= 1.5e-8 / (0.005 P) v_c ~ 6e-10 v_c.  Measured
  worst 1.3e-9 v_c (end velocities), 7.5e-11 a (arrival position), 1.8e-10 v_c (arrival velocity).  Tolerances
  5e-8 v_c, 3e-9 a, 1e-8 v_c (>= 38x).
* Battin: the successive-substitution loop stops when x moves by < ``_ATOL``; the remaining error of x is that step
  times rho/(1-rho) for a contraction rate rho that approaches 1 towards a full revolution.  Measured worst 6.6e-8 v_c
  (end velocities), 3.4e-6 a (arrival position after up to 0.98 P of propagation, which amplifies a velocity error
  along-track), 1.5e-5 v_c (arrival velocity).  Tolerances 3e-6 v_c, 1.5e-4 a, 6e-4 v_c (>= 40x).  The smallest
  one-line change seeded during development (8th continued-fraction coefficient) still failed 48 arcs of the quick
  lattice; all others moved thousands of arcs by >= 1e-3 v_c.
* Gauss (only arcs <= 30 deg, where the method is meant to be used and its iteration converges): measured 1.8e-9 v_c,
  3.8e-9 a, 2.9e-9 v_c; tolerances 1e-7 v_c, 2e-7 a, 2e-7 v_c (>= 50x).
* ``radarObs2eciPosition``: see ``_tol_radar`` (relative to the range: the first-order polar-motion matrix is not
  exactly orthonormal; near the poles the site longitude recovered from the site's ECI state is ill-conditioned).
  Threshold lattices: in addition ``_zen_cond`` = range * 8 eps / max(zd, 4 sqrt(eps)), the resolution of
  arcsin(z / rho) next to +-pi/2 (measured, seeds 0, 1, 7: error <= 0.07 of the sum on the quick lattice, <= 0.21 on
  the thorough one, at zd = 1.5e-8 rad); the
  same allowance on the IOD position (observation next to the zenith is the current one) and, divided by the time of
  flight and times 4, on the IOD velocity.  Range rate of the forward model: 1e-9 km/s + 1e-9 |v| + |v| * position tolerance / range (measured
  2.7e-13 km/s quick, 1.2e-10 km/s at 0.5 km range in the thorough lattice).
* IOD: position 5e-6 km (round trip at ranges <= 5e4 km; measured 7e-11 km).  Velocity: the solver is given
  ``(jd2 - jd1) * 86400`` as time of flight, and a Julian date near 2.46e6 days is a double of resolution
  2^-31 day = 4.0e-5 s, so the difference of two rounded dates is off by up to one step dt_jd.  A time-of-flight error
  shifts the Lambert end velocity by about (v_c / tof) dt_jd (measured: <= 0.5 of that).  Tolerance
  8 (v_c / tof) dt_jd + solver tolerance + 1e-9 km/s: 8e-6 km/s at the shortest separation (5 % of a LEO period),
  3 orders below the effect of a 1 s slip or of a wrong observation (>= 1e-2 km/s).
* IOD through the agent: the same position / velocity tolerances as IOD (the Julian dates stay in the same binade for
  t_add <= 3 days, so dt_jd is unchanged); a Julian-date origin that is off by the smallest t_add of the lattice
  (300 s) changes the time of flight by >= 5 % of the longest arc and the velocity by >= 1e-2 km/s, or empties the
  query window.
* MMAE: the solver tolerances (measured: universal 1.1e-10 v_c / 1.6e-11 a, Battin 1.1e-9 v_c / 1.5e-8 a).
"""
from __future__ import annotations

import math
from datetime import datetime, timedelta

import numpy as np

from verif import framework as fw
from verif import scen  # installs the in-process fake ray; must precede every resonaate import

from verif.oracles import c20_ref as ref  # noqa: E402
from verif.oracles import frames_ref as fr  # noqa: E402

from resonaate.physics.bodies import Earth  # noqa: E402
from resonaate.physics.orbit_determination import lambert as lam  # noqa: E402
from resonaate.physics.orbits import kepler as rkep  # noqa: E402
from resonaate.physics.orbits import utils as rut  # noqa: E402

PROPERTY = "C20"
LEVEL = "model_checking"
RULE = (
    "arcs: every (a, e, i, nu0, time-of-flight fraction) of the announced lattice whose true transfer angle is more "
    "than 5 deg away from 0/180/360 is solved by lambertUniversal and lambertBattin (lambertGauss on arcs <= 30 deg) "
    "with the true transfer sense and compared with the own Kepler reference (end velocities, and arrival of the "
    "propagated returned velocity); radar: every (date, site, az, el, range) of the lattice through the real radar "
    "Measurement and radarObs2eciPosition (round trip) and through an own FK5/geodesy model; thresholds of the "
    "measurement chain: every (sensor [ground sites, 3 space-based], hemisphere [zenith; nadir for space-based], range, "
    "zenith distance in {0, 1e-9 .. 1e-3 rad}, 8 bearings, relative-velocity heading across/against the offset, "
    "approaching/receding) and every (site, range, cardinal azimuth + offset in {0, +-1e-12 .. +-1e-3 rad}, elevation in "
    "{horizon + the same offsets, 30, 89, -20 deg}) as explicit observation, as round trip through the real forward "
    "model, and as forward-model values (range, range-rate sign, elevation, azimuth domain and bearing); IOD: every "
    "(orbit, site, separation, solver, database variant) through the real LambertIOD on a real in-memory database, and "
    "every (range/separation class, site, zenith distance, 8 bearings relative to the Earth-relative heading, which of "
    "the two observations is the near-zenith one) on circular truth orbits through the near-zenith point; IOD through "
    "the agent: every (orbit, t_add [scenario time at which the estimate agent is created: 0, 600, 3600, 86400 s], "
    "InitialOrbitDeterminationLabel value [enumerated from the enum], way the agent is obtained [Scenario.addTarget on "
    "a real Scenario whose clock was advanced to t_add, EstimateAgent.fromConfig, constructor], detection step [the "
    "step after t_add, 4 steps before the stored observation], separation up to 39 % of a period [Gauss <= 30 deg]) "
    "driven through EstimateAgent._update on the detection step and on the step of the second observation, plus the "
    "wiring of the IOD object (start Julian date, target id, solver of that name, spacing) and the outcomes that must "
    "not converge; every label value through lambertInitializationFactory on near-circular arcs up to 39 % of a "
    "period; MMAE: every "
    "(orbit, solver, gap) through AdaptiveFilter._calculateDeltaV/_generateHypothesisManeuvers. non-trivial = transfer "
    "angle > 180 deg or e >= 0.4 (arcs), separation >= 30 % of the period or a database variant with a decoy row "
    "(IOD), an estimate agent created after the scenario start (t_add > 0; IOD through the agent) or a zenith distance < 1e-3 rad, elevation/azimuth on a lattice edge or a space-based site (radar), zenith "
    "distance < 1e-3 rad or a seam offset <= 1e-6 rad (thresholds), a hypothesis whose transfer exceeds "
    "half a revolution or a radar/optical mix (MMAE); helper cases are non-trivial at a branch threshold. Distinct by "
    "construction (lattice points); VERIF_SEED rotates RAAN / argument of perigee / start anomaly, the start day and "
    "the site longitudes."
)
ASSUMPTIONS = [
    "closed-form two-body relations in verif/oracles/c20_ref.py (own Newton solve of Kepler's equation, explicit "
    "perifocal axes) are the truth for bound orbits; Earth.mu is asserted equal to the literal 398600.4415",
    "verif/oracles/frames_ref.py (own IAU-76/FK5 + geodesy model, the oracle of C04) is the truth for the "
    "ECI<->ECEF<->SEZ geometry in the radar 'reference' subcheck; the EOP table file is shared with the implementation",
    "julianDateToDatetime/datetimeToJulianDate round-trip whole seconds exactly (property C05)",
    "sensor ECI states handed to Observation are inputs (taken from lla2eci for the IOD cases, from the own model for "
    "the radar reference cases); sensor motion itself is not under test here",
    "sqlite in-memory database through the real ResonaateDatabase/getDBConnection over the in-process fake ray "
    "key-value store",
    "IOD through the agent: the scenario clock is advanced to t_add by ScenarioClock.ticToc without propagating the "
    "scenario's own agents; the harness stands in for the nominal filter (sets nominal_filter.maneuver_detected on the "
    "detection step, does not run the Kalman update), sets agent.time the way EstPredictRegistration.processResults "
    "does and stores the observations of earlier steps itself; determineNewEstimateState is wrapped by a pass-through "
    "recorder. Initial estimates of fromConfig / addTarget carry the configured initial noise (seed pinned): IOD must "
    "replace them by the orbit's state",
]
EXPECT_MIN_NONTRIVIAL = 500

MU = ref.MU
DEG = math.pi / 180.0
JD_STEP_S = 2.0 ** -31 * 86400.0  # resolution of a double holding a Julian date in [2^21, 2^22) days, in seconds

# ------------------------------------------------------------------------------------------------ tolerances
TOL = {  # solver -> relative tolerances (end velocities [v_c], arrival position [a], arrival velocity [v_c])
    "universal": (5e-8, 3e-9, 1e-8),
    "battin": (3e-6, 1.5e-4, 6e-4),
    "gauss": (1e-7, 2e-7, 2e-7),
}
TOL_IOD_POS_KM = 5e-6


def _tol_radar(rng, lat, reference):
    """km.  Round trip: the first-order polar-motion matrix of the FK5 chain is orthonormal only to xp^2 + yp^2
    (<= (0.6 arcsec)^2 = 8.5e-12 over the EOP table), so forward and inverse rotation differ by that much of the
    range (measured 7.7e-13 .. 8.3e-12 of the range depending on the day).  Own model: in addition the two
    independent reductions agree to ~2e-12 of the site radius (C04 tolerance), which the implementation turns into a
    longitude error 2e-12 / cos(lat) (it recovers the site's lat/lon from its ECI state), times the range
    (measured 7.9e-12 of the range at |lat| = 89 deg).  Tolerances 1e-10 and 1e-10 + 4e-12/cos(lat) of the range:
    an angle defect of 1e-9 rad is still 10x / 3x above them."""
    rel = 1e-10 + (4e-12 / max(math.cos(lat), 1e-3) if reference else 0.0)
    return 1e-9 + rel * rng


EXCLUDE_DEG = 5.0
GAUSS_MAX_DEG = 30.0

SOLVERS = {"universal": lam.lambertUniversal, "battin": lam.lambertBattin, "gauss": lam.lambertGauss}
SOLVER_LABEL = {"universal": "lambert_universal", "battin": "lambert_battin", "gauss": "lambert_gauss"}


def _phase(seed, k):
    """Deterministic lattice phase in [0, 1) (golden-ratio rotation): which RAAN/argp/anomaly/longitude the grid starts at."""
    return ((seed * 0.6180339887498949 + k * 0.3819660112501051) % 1.0) if seed else 0.0


def _seed_start(seed, k=0):
    # EOP table covers 2014-01-01 .. 2022-10-04; stay well inside
    return datetime(2015, 1, 1, 16, 0, 0) + timedelta(days=(seed * 7919 + k * 104729 + 2280) % 2700)


# ------------------------------------------------------------------------------------------------ lattices
def _arc_lattice(tier, seed):
    if tier == "quick":
        sma = [6778.0, 12000.0, 26560.0, 42164.0]
        ecc = [0.0, 1e-4, 0.01, 0.1, 0.3, 0.4, 0.55, 0.7]
        inc = [0.0, 0.9, 1.7, math.pi]
        nnu = 8
        fracs = [0.005, 0.02, 0.05, 0.2, 0.35, 0.39, 0.45, 0.55, 0.7, 0.9, 0.98]
    else:
        sma = [6578.0, 6778.0, 7500.0, 12000.0, 26560.0, 42164.0, 80000.0]
        ecc = [0.0, 1e-6, 1e-4, 0.01, 0.05, 0.1, 0.2, 0.3, 0.4, 0.5, 0.55, 0.6, 0.7]
        inc = [0.0, 0.3, 0.9, math.pi / 2, 1.7, 2.6, math.pi]
        nnu = 24
        fracs = [0.005, 0.01, 0.02, 0.05, 0.1, 0.2, 0.3, 0.35, 0.39, 0.45, 0.55, 0.6, 0.7, 0.8, 0.9, 0.95, 0.98]
    nus = [((k + _phase(seed, 2)) / nnu) * 2.0 * math.pi + 0.013 for k in range(nnu)]
    raan = 0.3 + 2.0 * math.pi * _phase(seed, 0)
    argp = 1.0 + 2.0 * math.pi * _phase(seed, 1)
    return {"sma": sma, "ecc": ecc, "inc": inc, "nu": nus, "fracs": fracs, "raan": raan, "argp": argp}


SITES_Q = [  # (lat deg, lon deg, alt km)
    (20.0, -100.0, 0.1),
    (-33.5, 151.0, 0.6),
    (71.0, 25.0, 0.0),
    (0.0, 0.0, 2.5),
]
SITES_T = SITES_Q + [(89.0, 10.0, 0.1), (-89.0, -170.0, 2.8), (45.0, 179.99, 0.3), (-60.0, -180.0, 0.0), (10.0, 90.0, 4.0)]
AZ_Q = [0.0, 45.0, 90.0, 180.0, 270.0, 359.9]
AZ_T = [0.0, 0.1, 30.0, 45.0, 90.0, 135.0, 180.0, 225.0, 270.0, 315.0, 359.9]
EL_Q = [-20.0, 0.0, 1.0, 45.0, 89.0, 90.0]
EL_T = [-60.0, -20.0, 0.0, 1.0, 10.0, 30.0, 45.0, 60.0, 89.0, 89.99, 90.0]
RNG_Q = [300.0, 2500.0, 40000.0]
RNG_T = [0.5, 300.0, 1000.0, 2500.0, 10000.0, 40000.0, 90000.0]


# Threshold lattices of the measurement chain (forward model getAzimuth / getElevation / getRange / getRangeRate and
# its inverse).  The forward model switches the azimuth formula "at" elevation pi/2 (then the azimuth is the heading of
# the relative velocity), wraps the azimuth at 0 / 2 pi, and arctan2 has its cut at due south; none of these lies on
# a lattice of whole degrees.  Zenith (nadir) distances in radians: exactly 0, below the resolution of
# arcsin(z / rho) (sqrt(2 eps) = 2.1e-8 rad), and from there up to ordinary geometry - in particular both sides of
# every tolerance a "float equality" helper might carry (1e-15 .. 1e-5 relative, 1e-8 absolute).
EPS = 2.0 ** -52
ZD_Q = [0.0, 1e-9, 1e-7, 1e-6, 5e-6, 1e-5, 2e-5, 1e-4, 1e-3]
ZD_T = [0.0, 1e-12, 1e-9, 1.5e-8, 3e-8, 1e-7, 3e-7, 1e-6, 3e-6, 5e-6, 1e-5, 1.5e-5, 1.6e-5, 2e-5, 5e-5, 1e-4, 1e-3, 1e-2]
N_BEARINGS = 8
RNG_Z_Q = [300.0, 800.0, 2500.0, 40000.0]
RNG_Z_T = [0.5, 300.0, 800.0, 2500.0, 10000.0, 40000.0, 90000.0]
HEAD_Q = [90.0, 180.0]  # heading of the relative velocity minus bearing of the horizontal offset (deg): across, back
HEAD_T = [90.0, 180.0, -90.0, 45.0, 0.0]
SEAM_OFF = [0.0, 1e-12, -1e-12, 1e-9, -1e-9, 1e-6, -1e-6, 1e-3, -1e-3]  # rad, about each cardinal azimuth / the horizon
SEAM_EL_DEG = [30.0, 89.0, -20.0]
RNG_SEAM = [300.0, 40000.0]
# IOD arcs with one observation next to the zenith: (slant range at the near-zenith observation km, separation of the
# two observations in percent of the period)
IOD_ZEN_GEOM = [(500.0, 5), (1200.0, 20), (35800.0, 10)]


def _bearings(seed):
    return [45.0 * (k + _phase(seed, 6)) for k in range(N_BEARINGS)]


def _zen_cond(rng, zd):
    """km.  Conditioning of the forward model next to the zenith / nadir: the elevation is arcsin(s), s = z / |rho| =
    cos(zd) = 1 - zd^2/2.  s carries the rounding of the norm and of the division (<= 2 eps; it is quantised in steps
    of eps/2 below 1), and d(zd) = ds / zd, so the reported elevation is off by <= 2 eps / zd; below
    zd ~ sqrt(2 eps) = 2.1e-8 s is one of 1, 1 - eps/2, 1 - eps and the elevation one of pi/2 - {0, 1.5e-8, 2.1e-8}
    whatever zd is.  Bound used: 8 eps / max(zd, 4 sqrt(eps)) rad (>= 4x resp. 2x the above; 3e-8 rad at most), times
    the range.  A wrong azimuth next to the zenith displaces the target by range * zd * 2 sin(dpsi / 2): for the
    across-track cases of the lattice (dpsi = 90 deg) that is 1.4 * zd * range = 8x this bound at zd = 1e-7, 800x at
    1e-6, 2e4 x at 5e-6."""
    return rng * 8.0 * EPS / max(zd, 4.0 * math.sqrt(EPS))


def _sites(tier, seed):
    base = SITES_Q if tier == "quick" else SITES_T
    shift = 360.0 * _phase(seed, 3)
    out = []
    for la, lo, al in base:
        lon = ((lo + shift + 180.0) % 360.0) - 180.0
        out.append((la, round(lon, 6), al))
    return out


IOD_ORBITS_Q = [  # (a km, e, inc rad)
    (6878.0, 1e-3, 0.9),
    (7500.0, 0.0, 1.7),
    (26560.0, 5e-4, 0.96),
    (42164.0, 1e-4, 0.02),
]
IOD_ORBITS_T = IOD_ORBITS_Q + [(6678.0, 1e-3, 0.5), (8000.0, 1e-3, 2.6), (12000.0, 0.0, 0.0), (42164.0, 1e-3, 3.0)]
IOD_SEPS_Q = [5, 20, 34, 36, 39]
IOD_SEPS_T = [2, 5, 10, 20, 30, 34, 35, 36, 38, 39, 39.9]
IOD_VARIANTS = [
    "multi_prev",
    "other_target",
    "optical_prev",
    "future_row",
    "at_detection",
    "optical_now_first",
    "all_decoys",
]

# IOD through a real EstimateAgent: scenario time (s) at which the estimate agent is created (whole steps of 60 and of
# 300 s).  0 = every agent of an ordinary scenario; > 0 = a target that joins mid-run (target-addition event): only
# then do the agent's epoch, the clock's epoch and the scenario start differ, and scenario times, times since the agent
# was created and Julian dates can be told apart.
T_ADD_Q = [0, 600, 3600, 86400]
T_ADD_T = [0, 300, 600, 3600, 43200, 86400, 259200]
IOD_AGENT_SEPS_Q = [5, 8, 20, 34, 39]
IOD_AGENT_SEPS_T = [2, 5, 8, 10, 20, 30, 34, 36, 39, 39.9]
IOD_AGENT_PATHS = ["add_target", "from_config", "constructor"]
IOD_AGENT_DETECT = ["step_after_added", "before_stored_observation"]
FACTORY_ARCS = {"sma": [6878.0, 26560.0, 42164.0], "ecc": [0.0, 1e-3], "fracs": [0.02, 0.05, 0.08, 0.2, 0.3, 0.36, 0.39]}


def _iod_labels():
    """Every value of the configuration enum (not a list kept by the harness), in a fixed order."""
    from resonaate.common.labels import InitialOrbitDeterminationLabel  # noqa: PLC0415

    return sorted(str(m.value) for m in InitialOrbitDeterminationLabel)


def _solver_of_label(label):
    """'lambert_battin' -> ('battin', lambert.lambertBattin): the solver *of that name* in the Lambert module."""
    head, tail = label.split("_", 1)
    key = tail.replace("_", "")
    if head != "lambert" or key not in TOL:
        raise RuntimeError(f"IOD label {label!r} is not known to this check: extend TOL / the lattices")
    return key, getattr(lam, head + "".join(w.capitalize() for w in tail.split("_")))


def items(tier, seed):
    out = []
    lat = _arc_lattice(tier, seed)
    for a in lat["sma"]:
        for e in lat["ecc"]:
            for ii, inc in enumerate(lat["inc"]):
                out.append(("arcs", tier, seed, a, e, ii))
    out.append(("helpers", tier, seed))
    out.append(("direction", tier, seed))
    sites = _sites(tier, seed)
    ndates = 2 if tier == "quick" else 4
    for k in range(ndates):
        for si in range(len(sites)):
            out.append(("radar", tier, seed, k, si))
        out.append(("radar_space", tier, seed, k))
    for k in range(1 if tier == "quick" else 2):
        for si in range(len(sites)):
            out.append(("radar_zenith", tier, seed, k, si))
            out.append(("radar_seam", tier, seed, k, si))
        for oi in range(3):
            out.append(("radar_zenith_space", tier, seed, k, oi))
    for gi in range(len(IOD_ZEN_GEOM)):
        for si in range(len(sites)):
            out.append(("iod_zenith", tier, seed, gi, si))
    orbits = IOD_ORBITS_Q if tier == "quick" else IOD_ORBITS_T
    for oi in range(len(orbits)):
        for si in range(len(sites)):
            out.append(("iod", tier, seed, oi, si))
    for oi in range(len(orbits)):
        for ai in range(len(T_ADD_Q if tier == "quick" else T_ADD_T)):
            for label in _iod_labels():
                out.append(("iod_agent", tier, seed, oi, ai, label))
    for oi in range(len(orbits)):
        out.append(("iod_api", tier, seed, oi))
        for solver in ("universal", "battin"):
            out.append(("mmae", tier, seed, oi, solver))
    return out


def bounds(tier, seed):
    lat = _arc_lattice(tier, seed)
    return {
        "arcs": {k: lat[k] for k in ("sma", "ecc", "inc", "fracs")} | {"n_nu": len(lat["nu"]), "raan": lat["raan"], "argp": lat["argp"]},
        "excluded_transfer_angles_deg": f"within {EXCLUDE_DEG} of 0/180/360",
        "sites": _sites(tier, seed),
        "az": AZ_Q if tier == "quick" else AZ_T,
        "el": EL_Q if tier == "quick" else EL_T,
        "range": RNG_Q if tier == "quick" else RNG_T,
        "iod_orbits": IOD_ORBITS_Q if tier == "quick" else IOD_ORBITS_T,
        "iod_separations_percent": IOD_SEPS_Q if tier == "quick" else IOD_SEPS_T,
        "iod_variants": IOD_VARIANTS,
        "near_zenith": {
            "zenith_distance_rad": ZD_Q if tier == "quick" else ZD_T,
            "bearings_deg": _bearings(seed),
            "range": RNG_Z_Q if tier == "quick" else RNG_Z_T,
            "relative_velocity_heading_minus_bearing_deg": HEAD_Q if tier == "quick" else HEAD_T,
            "vertical_relative_velocity_km_s": [0.25, -0.25],
            "sensors": "every ground site (zenith) + 3 space-based sensors (zenith and nadir)",
            "conditioning_allowance": "range * 8 eps / max(zd, 4 sqrt(eps))",
        },
        "seams": {
            "azimuth_rad": "each of 0, pi/2, pi, 3pi/2 + offsets",
            "offsets_rad": SEAM_OFF,
            "elevation": {"about_horizon_rad": SEAM_OFF, "deg": SEAM_EL_DEG},
            "range": RNG_SEAM,
        },
        "iod_near_zenith": {
            "range_km_and_separation_percent": IOD_ZEN_GEOM,
            "zenith_distance_rad": ZD_Q if tier == "quick" else ZD_T,
            "bearing_minus_relative_heading_deg": [45.0 * k for k in range(N_BEARINGS)],
            "which_observation_near_zenith": ["second (current)", "first (stored)"],
            "solvers": "universal / battin alternating over the bearings (quick), both (thorough)",
        },
        "iod_through_estimate_agent": {
            "agent_created_at_scenario_time_s": T_ADD_Q if tier == "quick" else T_ADD_T,
            "labels": _iod_labels(),
            "agent_obtained_by": IOD_AGENT_PATHS,
            "detection_step": IOD_AGENT_DETECT,
            "separations_percent": IOD_AGENT_SEPS_Q if tier == "quick" else IOD_AGENT_SEPS_T,
            "gauss_only_up_to_deg": GAUSS_MAX_DEG,
            "orbits": "iod_orbits",
            "clock": "real ScenarioClock of a real Scenario, advanced by ticToc to t_add before the agent is created",
            "must_not_converge": ["only_before_detection", "same_step", "optical_only_now", "no_iod_configured"],
        },
        "factory_arcs": FACTORY_ARCS | {"labels": _iod_labels(), "spellings": ["enum member", "plain string"]},
        "tolerances": TOL,
    }


def worker_init():
    scen.fresh()
    from resonaate.data import setDBPath  # noqa: PLC0415

    setDBPath("sqlite://")


# ------------------------------------------------------------------------------------------------ arcs
def _maxabs(a, b):
    return float(np.max(np.abs(np.asarray(a, dtype=float) - np.asarray(b, dtype=float))))


def _solve(solver, r1, r2, tof, sense):
    """Call a solver; returns (v1, v2, None) or (None, None, 'ExcType: text')."""
    try:
        with np.errstate(all="ignore"):
            v1, v2 = SOLVERS[solver](np.array(r1, dtype=float), np.array(r2, dtype=float), float(tof), sense)
        v1 = np.asarray(v1, dtype=float)
        v2 = np.asarray(v2, dtype=float)
        if v1.shape != (3,) or v2.shape != (3,) or not (np.all(np.isfinite(v1)) and np.all(np.isfinite(v2))):
            return None, None, f"non-finite or mis-shaped result {v1!r} {v2!r}"
        return v1, v2, None
    except Exception as exc:  # noqa: BLE001
        return None, None, f"{type(exc).__name__}: {exc}"


def _region(dnu_deg, e, frac):
    way = "long" if dnu_deg > 180.0 else "short"
    ecls = "e<0.4" if e < 0.4 else "e>=0.4"
    fcls = "tof<0.5P" if frac < 0.5 else "tof>=0.5P"
    return f"{way}/{ecls}/{fcls}"


def _check_arc(res, solver, arc, case, nontrivial, item):
    a = case["a"]
    vsc = math.sqrt(MU / a)
    vtol, ptol, avtol = TOL[solver]
    sense = 1 if arc["dnu"] < math.pi else -1
    region = _region(case["dnu_deg"], case["e"], case["frac"])
    v1, v2, err = _solve(solver, arc["r1"], arc["r2"], arc["tof"], sense)
    if err is not None:
        res.case(f"lambert/{solver}/velocities", case, False, nontrivial=nontrivial,
                 signature=f"C20/lambert/{solver}/error/{region}", observed=err, expected="end velocities",
                 outcome="error", item=item)
        return
    ev1 = _maxabs(v1, arc["v1"]) / vsc
    ev2 = _maxabs(v2, arc["v2"]) / vsc
    res.case(f"lambert/{solver}/velocities", case, ev1 <= vtol and ev2 <= vtol, nontrivial=nontrivial,
             signature=f"C20/lambert/{solver}/velocities/{region}",
             observed={"v1": v1, "v2": v2, "err_v1_rel": ev1, "err_v2_rel": ev2},
             expected={"v1": arc["v1"], "v2": arc["v2"], "tol_rel": vtol}, outcome=region, item=item)
    # the clause as stated: propagate (r1, returned v1) for the time of flight -> r2 with the returned v2
    try:
        pr, pv = ref.propagate(arc["r1"], tuple(float(x) for x in v1), arc["tof"])
        ep = _maxabs(pr, arc["r2"]) / a
        epv = _maxabs(pv, v2) / vsc
        ok = ep <= ptol and epv <= avtol
        obs = {"arrive_pos_err_rel": ep, "arrive_vel_err_rel": epv}
    except ValueError as exc:  # returned velocity is not even bound
        ok, obs = False, f"returned initial velocity is unbound: {exc}"
    res.case(f"lambert/{solver}/propagation", case, ok, nontrivial=nontrivial,
             signature=f"C20/lambert/{solver}/propagation/{region}", observed=obs,
             expected={"pos_tol_rel": ptol, "vel_tol_rel": avtol}, item=item)
    res.observe(v1, v2)


def _run_arcs(res, item):
    _, tier, seed, a, e, ii = item
    lat = _arc_lattice(tier, seed)
    inc = lat["inc"][ii]
    excluded = 0
    pairs = [(nu, frac) for nu in lat["nu"] for frac in lat["fracs"]]
    if e >= 0.3:
        # dense sub-lattice of long-way arcs that start after apogee and run through perigee with a time of flight near
        # half a period: the solvers' minimum-energy-time / quadrant branches switch inside this region
        pairs += [(math.radians(n) + 0.013, f) for n in range(150, 345, 15) for f in (0.40, 0.42, 0.44, 0.46, 0.48, 0.50, 0.52, 0.58)]
    for nu, frac in pairs:
        if True:
            arc = ref.arc(a, e, inc, lat["raan"], lat["argp"], nu, frac)
            dn = arc["dnu"] / DEG
            if min(dn, abs(dn - 180.0), 360.0 - dn) < EXCLUDE_DEG:
                excluded += 1
                continue
            case = {"a": a, "e": e, "inc": inc, "nu0": nu, "frac": frac, "dnu_deg": round(dn, 6)}
            nontrivial = dn > 180.0 or e >= 0.4
            # the two routes to the end state of the arc must agree before anything is blamed on the solver
            pr, pv = ref.propagate(arc["r1"], arc["v1"], arc["tof"])
            if _maxabs(pr, arc["r2"]) > 1e-8 * a or _maxabs(pv, arc["v2"]) > 1e-8 * math.sqrt(MU / a):
                raise RuntimeError(f"reference self-consistency failed for {case}")
            for solver in ("universal", "battin"):
                _check_arc(res, solver, arc, case, nontrivial, item)
            if dn <= GAUSS_MAX_DEG:
                _check_arc(res, "gauss", arc, case, e >= 0.4, item)
    res.extra["arcs_excluded_near_0_180_360"] = excluded


# ------------------------------------------------------------------------------------------------ helpers
def _run_helpers(res, item):
    _, tier, seed = item
    assert Earth.mu == MU, "Earth.mu differs from the reference literal"  # noqa: S101
    # Stumpff functions: own power series / closed form.  The implementation switches to the constants 1/2, 1/6 for
    # |psi| <= 1e-6 (error psi/24 <= 4.2e-8 by design) and uses the closed forms outside, whose cancellation error
    # is ~eps/psi (<= 2.2e-10 at |psi| = 1e-6).  Tolerance 1e-7 absolute inside the switch, 1e-8 relative outside.
    psis = [0.0, 1e-9, -1e-9, 9.99e-7, 1e-6, 1.01e-6, -9.99e-7, -1e-6, -1.01e-6, 1e-4, -1e-4, 0.01, -0.01, 0.5, -0.5,
            1.0, -1.0, math.pi**2 / 4, math.pi**2, 20.0, 4 * math.pi**2 - 1e-3, 39.0, -5.0, -20.0, -4 * math.pi**2]
    n = 40 if tier == "quick" else 400
    psis += [(-1.0 + 2.0 * (k + _phase(seed, 5)) / n) * 4 * math.pi**2 for k in range(n)]
    for psi in psis:
        c2, c3 = rut.universalC2C3(psi)
        e2, e3 = ref.stumpff(psi)
        tol2, tol3 = (1e-7, 1e-7) if abs(psi) <= 1.5e-6 else (1e-8 * abs(e2) + 1e-12, 1e-8 * abs(e3) + 1e-12)
        res.case("helpers/stumpff", {"psi": psi}, abs(c2 - e2) <= tol2 and abs(c3 - e3) <= tol3,
                 nontrivial=abs(abs(psi) - 1e-6) < 2e-8 or abs(psi) > 1.0,
                 signature="C20/helpers/stumpff/" + ("series" if abs(psi) <= 1.5e-6 else "elliptic" if psi > 0 else "hyperbolic"),
                 observed=[c2, c3], expected=[e2, e3], item=item)
        res.observe(c2, c3)
    # name -> solver mapping used by LambertIOD.fromConfig and AdaptiveFilter.fromConfig
    from resonaate.estimation.adaptive.initialization import lambertInitializationFactory  # noqa: PLC0415

    arc = ref.arc(9000.0, 0.2, 0.7, 0.3, 1.0, 0.4, 0.04)  # 20.. deg: inside every solver's domain
    for solver, label in SOLVER_LABEL.items():
        fn = lambertInitializationFactory(label)
        with np.errstate(all="ignore"):
            got = fn(np.array(arc["r1"]), np.array(arc["r2"]), arc["tof"], 1)
            exp = SOLVERS[solver](np.array(arc["r1"]), np.array(arc["r2"]), arc["tof"], 1)
            others = [SOLVERS[s](np.array(arc["r1"]), np.array(arc["r2"]), arc["tof"], 1) for s in SOLVERS if s != solver]
        same = all(np.array_equal(g, x) for g, x in zip(got, exp))
        distinct = all(not np.array_equal(got[0], o[0]) for o in others)
        res.case("helpers/factory", {"label": label}, same and distinct, nontrivial=True,
                 signature=f"C20/helpers/factory/{label}", observed=[got[0], got[1]], expected=[exp[0], exp[1]], item=item)
    # every value of the configuration enum, as enum member and as plain string: the solver of that name, and it
    # reproduces near-circular arcs up to the property's 40 % of a period (Gauss: up to 30 deg) - the arcs IOD feeds it
    from resonaate.common.labels import InitialOrbitDeterminationLabel  # noqa: PLC0415

    for label in _iod_labels():
        solver, solver_fn = _solver_of_label(label)
        for spelling, name in (("enum", InitialOrbitDeterminationLabel(label)), ("str", label)):
            fn = lambertInitializationFactory(name)
            res.case("helpers/factory_name", {"label": label, "spelling": spelling}, fn is solver_fn, nontrivial=True,
                     signature=f"C20/helpers/factory_name/{label}", observed=getattr(fn, "__name__", repr(fn)),
                     expected=solver_fn.__name__, item=item)
            if not callable(fn):
                continue
            vtol = TOL[solver][0]
            for a in FACTORY_ARCS["sma"]:
                for e in FACTORY_ARCS["ecc"]:
                    for frac in FACTORY_ARCS["fracs"]:
                        arc2 = ref.arc(a, e, 0.9, 0.3 + 2 * math.pi * _phase(seed, 0), 1.0, 0.4 + 2 * math.pi * _phase(seed, 2), frac)
                        if solver == "gauss" and arc2["dnu"] / DEG > GAUSS_MAX_DEG:
                            continue
                        try:
                            with np.errstate(all="ignore"):
                                v1, v2 = fn(np.array(arc2["r1"]), np.array(arc2["r2"]), arc2["tof"], 1)
                            err = max(_maxabs(v1, arc2["v1"]), _maxabs(v2, arc2["v2"])) / math.sqrt(MU / a)
                            obs = {"v1": v1, "v2": v2, "err_rel": err}
                        except Exception as exc:  # noqa: BLE001
                            err, obs = float("inf"), f"{type(exc).__name__}: {exc}"
                        res.case("helpers/factory_arcs", {"label": label, "spelling": spelling, "a": a, "e": e, "frac": frac},
                                 err <= vtol, nontrivial=frac >= 0.3, signature=f"C20/helpers/factory_arcs/{label}",
                                 observed=obs, expected={"v1": arc2["v1"], "v2": arc2["v2"], "tol_rel": vtol}, item=item)
    bad = None
    try:
        lambertInitializationFactory("lambert_nonsense")
    except ValueError:
        bad = "ValueError"
    res.case("helpers/factory", {"label": "lambert_nonsense"}, bad == "ValueError", signature="C20/helpers/factory/invalid",
             observed=bad, expected="ValueError", item=item)
    # argument validation named in the docstrings
    for solver in ("universal", "battin"):
        for tof in (0.0, -10.0):
            _, _, err = _solve(solver, arc["r1"], arc["r2"], tof, 1)
            res.case("helpers/nonpositive_tof", {"solver": solver, "tof": tof}, bool(err) and err.startswith("ValueError"),
                     signature=f"C20/helpers/nonpositive_tof/{solver}", observed=err, expected="ValueError", item=item)


def _run_direction(res, item):
    """keplerThirdLaw (circular period from |r| with mu ~ g R^2) and determineTransferDirection (short iff tof < P/2)."""
    _, tier, seed = item
    radii = [6578.0, 7000.0, 12000.0, 26560.0, 42164.0, 90000.0]
    if tier == "thorough":
        radii += [6378.1363 + 100.0 * k for k in range(2, 60)]
    fracs = [0.02, 0.2, 0.35, 0.39, 0.45, 0.499, 0.4999, 0.5001, 0.501, 0.55, 0.7, 0.98, 1.3]
    g_km, rad = 9.81e-3, 6378.1363
    for r in radii:
        ph = 2.0 * math.pi * _phase(seed, 7)
        vec = np.array([r * math.cos(ph) * 0.6, r * math.sin(ph) * 0.6, r * 0.8])
        got = float(rkep.keplerThirdLaw(vec))
        own = 2.0 * math.pi * math.sqrt(r**3 / (g_km * rad * rad))  # Kepler III with mu = g R^2
        true = ref.period(r)
        # g R^2 = 399073.6 vs mu = 398600.4: the documented "first approximation" is 5.9e-4 short of the true period
        res.case("direction/period", {"r": r}, abs(got - own) <= 1e-9 * own and abs(got - true) <= 1e-3 * true,
                 nontrivial=True, signature="C20/direction/period", observed=got, expected={"g_R2": own, "mu": true}, item=item)
        for f in fracs:
            tof = f * got
            d = lam.determineTransferDirection(vec, tof)
            exp = 1 if f < 0.5 else -1
            res.case("direction/sense", {"r": r, "frac_of_circular_period": f}, d == exp, nontrivial=abs(f - 0.5) < 0.01,
                     signature="C20/direction/sense/" + ("short" if exp == 1 else "long"), observed=d, expected=exp,
                     outcome=str(d), item=item)
            res.observe(d)
        d0 = lam.determineTransferDirection(vec, got / 2)
        res.case("direction/sense", {"r": r, "frac_of_circular_period": 0.5}, d0 == 0, nontrivial=True,
                 signature="C20/direction/sense/half", observed=d0, expected=0, outcome=str(d0), item=item)
        res.observe(got)


# ------------------------------------------------------------------------------------------------ radar
_MEAS = {}


def _radar_measurement(kind="radar"):
    """The Measurement object of the real sensor classes: Radar builds [az, el, range, range rate]; AdvRadar inherits it."""
    if kind not in _MEAS:
        from resonaate.physics.measurements import Measurement  # noqa: PLC0415

        if kind == "optical":
            _MEAS[kind] = Measurement.fromMeasurementLabels(["azimuth_rad", "elevation_rad"], np.array(scen.OPT_COV))
        else:
            _MEAS[kind] = Measurement.fromMeasurementLabels(
                ["azimuth_rad", "elevation_rad", "range_km", "range_rate_km_p_sec"], np.array(scen.RADAR_COV)
            )
    return _MEAS[kind]


def _radar_dates(tier, seed, k):
    secs = [0, 1, 59, 3599, 43200, 86399]
    return _seed_start(seed, k).replace(hour=0) + timedelta(seconds=secs[k % len(secs)] + 3600 * ((seed + 5 * k) % 24))


def _radar_case(res, sub, t, sensor_eci, site_desc, az, el, rng, fk5, lat, lon, nontrivial, item):
    from resonaate.data.observation import Observation  # noqa: PLC0415
    from resonaate.physics.time.stardate import datetimeToJulianDate  # noqa: PLC0415
    from resonaate.physics.transforms.methods import radarObs2eciPosition  # noqa: PLC0415

    jd = datetimeToJulianDate(t)
    # own model: target = site + R_ecef->eci * SEZ->ECEF(range, az, el)
    sez = fr.razel_to_sez(rng, el * DEG, az * DEG, 0.0, 0.0, 0.0)[:3]
    rel_ecef = fr.sez_to_ecef(sez, lat, lon)
    tgt = np.asarray(sensor_eci[:3]) + fk5.ecef2eci_mat @ np.asarray(rel_ecef)
    case = {"t": t.isoformat(), "site": site_desc, "az": az, "el": el, "range": rng}
    # (a) explicit observation (as loaded from a database row) against the own geometry
    for kind in (("radar", "adv_radar")[int(round(az + el + rng)) % 2],):  # both labels take the same path; alternate
        obs = Observation(jd, 10001, 20001, kind, np.asarray(sensor_eci, dtype=float), _radar_measurement(),
                          azimuth_rad=az * DEG, elevation_rad=el * DEG, range_km=rng, range_rate_km_p_sec=0.0)
        got = np.asarray(radarObs2eciPosition(obs), dtype=float)
        err = _maxabs(got, tgt) if got.shape == (3,) else float("inf")
        res.case(f"{sub}/reference", {**case, "sensor_type": kind}, err <= _tol_radar(rng, lat, True), nontrivial=nontrivial,
                 signature=f"C20/{sub}/reference", observed={"pos": got, "err_km": err}, expected=tgt, item=item)
    # (b) the stated clause: invert the noise-free measurement the real radar Measurement makes of that target
    tgt6 = np.concatenate([tgt, [1.0, -2.0, 3.0]])
    obs = Observation.fromMeasurement(jd, 10001, tgt6, 20001, np.asarray(sensor_eci, dtype=float), "adv_radar",
                                      _radar_measurement(), noisy=False)
    back = np.asarray(radarObs2eciPosition(obs), dtype=float)
    err = _maxabs(back, tgt)
    res.case(f"{sub}/roundtrip", case, err <= _tol_radar(rng, lat, False), nontrivial=nontrivial, signature=f"C20/{sub}/roundtrip",
             observed={"pos": back, "err_km": err, "az": obs.azimuth_rad, "el": obs.elevation_rad, "range": obs.range_km},
             expected=tgt, item=item)
    res.observe(got, back)


def _run_radar(res, item):
    _, tier, seed, k, si = item
    la, lo, al = _sites(tier, seed)[si]
    t = _radar_dates(tier, seed, k)
    fk5 = fr.FK5.from_table(t)
    lat, lon = la * DEG, lo * DEG
    ecef = fr.geodetic_to_ecef(lat, lon, al)
    sensor_eci = fk5.ecef_to_eci(list(ecef) + [0.0, 0.0, 0.0])
    azs, els, rngs = (AZ_Q, EL_Q, RNG_Q) if tier == "quick" else (AZ_T, EL_T, RNG_T)
    for az in azs:
        for el in els:
            for rng in rngs:
                nt = az in (0.0, 359.9, 0.1) or el in (90.0, 89.99, 0.0) or el < 0.0
                _radar_case(res, "radar", t, sensor_eci, [la, lo, al], az, el, rng, fk5, lat, lon, nt, item)


def _run_radar_space(res, item):
    """Space-based radar: the SEZ frame is that of the sub-satellite point (geodetic lat/lon of the sensor position)."""
    _, tier, seed, k = item
    t = _radar_dates(tier, seed, k)
    fk5 = fr.FK5.from_table(t)
    orbits = [(7000.0, 0.001, 0.9, 0.5), (26560.0, 0.01, 1.1, 4.0), (42164.0, 0.0, 0.0, 2.0)]
    azs, els, rngs = (AZ_Q, EL_Q, RNG_Q) if tier == "quick" else (AZ_T, EL_T, RNG_T)
    for a, e, inc, nu in orbits:
        r, v = ref.elements_to_state(a, e, inc, 0.3 + 6.28 * _phase(seed, 4), 1.0, nu)
        sensor_eci = np.array(r + v)
        ecef = fk5.eci_to_ecef(sensor_eci)
        lat, lon, _alt = fr.ecef_to_geodetic_iter(*ecef[:3])
        for az in azs:
            for el in els + [-89.0]:
                for rng in rngs:
                    _radar_case(res, "radar_space", t, sensor_eci, ["space", a, inc, nu], az, el, rng, fk5, lat, lon, True, item)


# ------------------------------------------------------------------------------------------------ radar: thresholds
def _radar_point(res, sub, t, sensor_eci, site_desc, fk5, lat, lon, geom, case_extra, nontrivial, item):
    """One target given in the own model by its SEZ offset (unit line of sight built from the zenith distance and
    bearing directly, no cos(pi/2 - x)) and its SEZ velocity relative to the sensor, pushed through

    * (reference)  an explicit Observation(az, el, range) -> radarObs2eciPosition against the own geometry,
    * (roundtrip)  the real forward model (Observation.fromMeasurement -> Measurement -> Azimuth / Elevation / Range /
      RangeRate -> getSlantRangeVector / getAzimuth / ...) and back through radarObs2eciPosition, against the true
      position,
    * (forward)    the forward model's numbers themselves: range, range rate (sign!), elevation, azimuth in [0, 2 pi]
      and - weighted with cos(el), which is what it is worth in position - equal to the bearing.

    ``geom`` = dict(az, el [rad, the explicit observation], rng, zd [distance from the zenith or nadir, rad],
    los [unit SEZ vector], vel [SEZ relative velocity km/s])."""
    from resonaate.data.observation import Observation  # noqa: PLC0415
    from resonaate.physics.time.stardate import datetimeToJulianDate  # noqa: PLC0415
    from resonaate.physics.transforms.methods import radarObs2eciPosition  # noqa: PLC0415

    jd = datetimeToJulianDate(t)
    sensor_eci = np.asarray(sensor_eci, dtype=float)
    az, el, rng, zd = geom["az"], geom["el"], geom["rng"], geom["zd"]
    sez_pos = [rng * c for c in geom["los"]]
    rel_pos = np.asarray(fr.sez_to_ecef(sez_pos, lat, lon))
    rel_vel = np.asarray(fr.sez_to_ecef(geom["vel"], lat, lon))
    tgt = sensor_eci[:3] + fk5.ecef2eci_mat @ rel_pos
    sen_ecef = fk5.eci_to_ecef(sensor_eci)
    tgt_vel = fk5.ecef_to_eci(sen_ecef + np.concatenate([rel_pos, rel_vel]))[3:]
    case = {"t": t.isoformat(), "site": site_desc, "az": az, "el": el, "range": rng, **case_extra}
    # (a) explicit observation: nothing is ill-conditioned here (az, el are given), the tolerance is the ordinary one
    obs = Observation(jd, 10001, 20001, "adv_radar", sensor_eci, _radar_measurement(),
                      azimuth_rad=az, elevation_rad=el, range_km=rng, range_rate_km_p_sec=0.0)
    got = np.asarray(radarObs2eciPosition(obs), dtype=float)
    err = _maxabs(got, tgt) if got.shape == (3,) else float("inf")
    res.case(f"{sub}/reference", case, err <= _tol_radar(rng, lat, True), nontrivial=nontrivial,
             signature=f"C20/{sub}/reference", observed={"pos": got, "err_km": err}, expected=tgt, item=item)
    # (b) round trip through the real forward model; tolerance = ordinary + conditioning of arcsin next to +-pi/2
    obs = Observation.fromMeasurement(jd, 10001, np.concatenate([tgt, tgt_vel]), 20001, sensor_eci, "adv_radar",
                                      _radar_measurement(), noisy=False)
    back = np.asarray(radarObs2eciPosition(obs), dtype=float)
    err = _maxabs(back, tgt)
    tol = _tol_radar(rng, lat, False) + _zen_cond(rng, zd)
    res.case(f"{sub}/roundtrip", case, err <= tol, nontrivial=nontrivial, signature=f"C20/{sub}/roundtrip",
             observed={"pos": back, "err_km": err, "err_over_tol": err / tol, "az": obs.azimuth_rad, "el": obs.elevation_rad,
                       "range": obs.range_km},
             expected={"pos": tgt, "tol_km": tol}, item=item)
    # (c) the numbers of the forward model against the construction (own frames: tolerance of the 'reference' kind).
    # Range rate: own value los . v_rel; the two reductions differ by <= ~1e-11 rad in orientation and 1e-12 in the
    # omega x r term (<= 3 km/s), the line of sight by the position tolerance / range: 1e-9 km/s + 1e-9 |v_rel| is
    # >= 10x that and 8 orders below a sign error.
    f_az, f_el, f_rng, f_rr = (float(obs.azimuth_rad), float(obs.elevation_rad), float(obs.range_km), float(obs.range_rate_km_p_sec))
    ptol = _tol_radar(rng, lat, True) + _zen_cond(rng, zd)
    speed = math.sqrt(sum(c * c for c in geom["vel"]))
    rr_exp = sum(a * b for a, b in zip(geom["los"], geom["vel"]))
    bad = None
    if not all(math.isfinite(x) for x in (f_az, f_el, f_rng, f_rr)):
        bad = "non_finite"
    elif abs(f_rng - rng) > ptol:
        bad = "range"
    elif abs(f_rr - rr_exp) > 1e-9 + 1e-9 * speed + speed * ptol / rng:
        bad = "range_rate"
    elif abs(f_el - el) * rng > ptol:
        bad = "elevation"
    elif not 0.0 <= f_az <= 2.0 * math.pi:
        bad = "azimuth_domain"
    elif abs(fr.angle_diff(f_az, az)) * math.sin(zd) * rng > ptol:
        bad = "azimuth"
    if bad is None and f_az == 2.0 * math.pi:
        res.either_way += 1  # documented [0, 2 pi): a bearing a rounding error west of north is wrapped onto 2 pi itself
    res.case(f"{sub}/forward", case, bad is None, nontrivial=nontrivial, signature=f"C20/{sub}/forward/{bad or 'ok'}",
             observed={"az": f_az, "el": f_el, "range": f_rng, "range_rate": f_rr},
             expected={"az": az, "el": el, "range": rng, "range_rate": rr_exp, "pos_tol_km": ptol}, item=item)
    res.observe(got, back, f_az, f_el, f_rng, f_rr)


def _zenith_geom(rng, zd, bearing_deg, head_rel_deg, vz, speed, nadir=False):
    """Line of sight ``zd`` rad away from the zenith (nadir) towards ``bearing`` (azimuth convention: clockwise from
    north; SEZ axes south, east, up); relative velocity horizontal at heading bearing + head_rel plus a vertical part."""
    b = bearing_deg * DEG
    h = (bearing_deg + head_rel_deg) * DEG
    up = -1.0 if nadir else 1.0
    los = [-math.sin(zd) * math.cos(b), math.sin(zd) * math.sin(b), up * math.cos(zd)]
    vel = [-speed * math.cos(h), speed * math.sin(h), vz]
    return {"az": b % (2.0 * math.pi), "el": up * (math.pi / 2 - zd), "rng": rng, "zd": zd, "los": los, "vel": vel}


def _zenith_lattice(res, sub, tier, seed, t, sensor_eci, site_desc, fk5, lat, lon, item, nadir):
    zds, rngs, heads = (ZD_Q, RNG_Z_Q, HEAD_Q) if tier == "quick" else (ZD_T, RNG_Z_T, HEAD_T)
    for ri, rng in enumerate(rngs):
        speed = 7.0 if rng < 5000.0 else 0.5  # relative to the rotating Earth: LEO pass / inclined GEO figure of eight
        for zi, zd in enumerate(zds):
            for bi, bearing in enumerate(_bearings(seed)):
                for hi, head in enumerate(heads):
                    vz = 0.25 if (ri + zi + bi + hi) % 2 else -0.25  # receding / approaching: range-rate sign
                    geom = _zenith_geom(rng, zd, bearing, head, vz, speed, nadir)
                    extra = {"zenith_distance": zd, "bearing_deg": bearing, "heading_minus_bearing_deg": head,
                             "hemisphere": "nadir" if nadir else "zenith"}
                    _radar_point(res, sub, t, sensor_eci, site_desc, fk5, lat, lon, geom, extra, zd < 1e-3, item)


def _run_radar_zenith(res, item):
    _, tier, seed, k, si = item
    la, lo, al = _sites(tier, seed)[si]
    t = _radar_dates(tier, seed, k + 2)
    fk5 = fr.FK5.from_table(t)
    lat, lon = la * DEG, lo * DEG
    sensor_eci = fk5.ecef_to_eci(list(fr.geodetic_to_ecef(lat, lon, al)) + [0.0, 0.0, 0.0])
    _zenith_lattice(res, "radar_zenith", tier, seed, t, sensor_eci, [la, lo, al], fk5, lat, lon, item, False)


def _run_radar_zenith_space(res, item):
    _, tier, seed, k, oi = item
    t = _radar_dates(tier, seed, k + 2)
    fk5 = fr.FK5.from_table(t)
    a, e, inc, nu = [(7000.0, 0.001, 0.9, 0.5), (26560.0, 0.01, 1.1, 4.0), (42164.0, 0.0, 0.0, 2.0)][oi]
    r, v = ref.elements_to_state(a, e, inc, 0.3 + 6.28 * _phase(seed, 4), 1.0, nu)
    sensor_eci = np.array(r + v)
    lat, lon, _alt = fr.ecef_to_geodetic_iter(*fk5.eci_to_ecef(sensor_eci)[:3])
    for nadir in (False, True):
        _zenith_lattice(res, "radar_zenith_space", tier, seed, t, sensor_eci, ["space", a, inc, nu], fk5, lat, lon, item, nadir)


def _run_radar_seam(res, item):
    """Azimuth wrap (due north: 0 / 2 pi), the arctan2 cut (due south) and the quadrant boundaries (east, west), and the
    sign change of the elevation at the horizon: offsets down to 1e-12 rad on both sides."""
    _, tier, seed, k, si = item
    la, lo, al = _sites(tier, seed)[si]
    t = _radar_dates(tier, seed, k + 2)
    fk5 = fr.FK5.from_table(t)
    lat, lon = la * DEG, lo * DEG
    sensor_eci = fk5.ecef_to_eci(list(fr.geodetic_to_ecef(lat, lon, al)) + [0.0, 0.0, 0.0])
    els = [(f"horizon{off:+.0e}", off) for off in SEAM_OFF] + [(f"{d:g}deg", d * DEG) for d in SEAM_EL_DEG]
    n = 0
    for rng in RNG_SEAM:
        for ci in range(4):
            for off in SEAM_OFF:
                for el_name, el in els:
                    n += 1
                    az = (ci * math.pi / 2 + off) % (2.0 * math.pi)
                    # line of sight from the cardinal direction and the offset (exact zeros on the seam itself)
                    cb, sb = [(1.0, 0.0), (0.0, 1.0), (-1.0, 0.0), (0.0, -1.0)][ci]
                    co, so = math.cos(off), math.sin(off)
                    cn, sn = cb * co - sb * so, sb * co + cb * so  # cos / sin of the bearing
                    los = [-math.cos(el) * cn, math.cos(el) * sn, math.sin(el)]
                    vel = [3.0, -5.0, 0.25 if n % 2 else -0.25]
                    geom = {"az": az, "el": el, "rng": rng, "zd": math.pi / 2 - abs(el), "los": los, "vel": vel}
                    extra = {"cardinal": ["north", "east", "south", "west"][ci], "az_offset": off, "el_name": el_name}
                    _radar_point(res, "radar_seam", t, sensor_eci, [la, lo, al], fk5, lat, lon, geom, extra,
                                 abs(off) <= 1e-6 or abs(el) <= 1e-6, item)
                    if ci == 0 and off == 0.0:  # due north reported as 2 pi (the closed end of the stored domain)
                        _radar_point(res, "radar_seam", t, sensor_eci, [la, lo, al], fk5, lat, lon, {**geom, "az": 2.0 * math.pi},
                                     {**extra, "cardinal": "north_as_2pi"}, True, item)


# ------------------------------------------------------------------------------------------------ IOD
TGT, TGT2, SEN, SEN2 = 10001, 10002, 20001, 20002


class _World:
    """Truth orbit + site + clock of one IOD case; fills the real database with real Observation rows."""

    def __init__(self, start, orbit, site, seed):
        from resonaate.data import getDBConnection  # noqa: PLC0415
        from resonaate.physics.time.stardate import datetimeToJulianDate  # noqa: PLC0415

        self.start = start
        self.jd0 = datetimeToJulianDate(start)
        a, e, inc = orbit
        self.a = a
        self.period = ref.period(a)
        self.r0, self.v0 = ref.elements_to_state(a, e, inc, 0.3 + 2 * math.pi * _phase(seed, 0), 1.0 + 2 * math.pi * _phase(seed, 1),
                                                 0.5 + 2 * math.pi * _phase(seed, 2))
        # decoy object on a clearly different orbit
        self.r0b, self.v0b = ref.elements_to_state(1.3 * a, 0.05, inc + 0.4, 2.0, 0.2, 1.0)
        self.site = site
        self.db = getDBConnection()

    def set_state(self, t, r, v):
        """Make the truth orbit the one that has position r and velocity v (ECI) at scenario time t."""
        r, v = tuple(float(x) for x in r), tuple(float(x) for x in v)
        self.r0, self.v0 = ref.propagate(r, v, -float(t))
        self.a = 1.0 / (2.0 / math.sqrt(sum(x * x for x in r)) - sum(x * x for x in v) / MU)
        self.period = ref.period(self.a)

    def truth(self, t, which=TGT):
        r, v = ref.propagate(self.r0, self.v0, t) if which == TGT else ref.propagate(self.r0b, self.v0b, t)
        return np.array(r + v)

    def jd(self, t):
        from resonaate.physics.time.stardate import ScenarioTime  # noqa: PLC0415

        return ScenarioTime(t).convertToJulianDate(self.jd0)  # exactly what the scenario clock / IOD code does

    def sensor_eci(self, t):
        from resonaate.physics.transforms.methods import lla2eci  # noqa: PLC0415

        la, lo, al = self.site
        return np.asarray(lla2eci(np.array([la * DEG, lo * DEG, al]), self.start + timedelta(seconds=t)), dtype=float)

    def obs(self, t, target=TGT, sensor=SEN, kind="adv_radar", state=None):
        """Noise-free observation made by the real measurement classes (of ``state`` if given, else of the truth)."""
        from resonaate.data.observation import Observation  # noqa: PLC0415

        state = self.truth(t, target) if state is None else np.asarray(state, dtype=float)
        return Observation.fromMeasurement(self.jd(t), target, state, sensor, self.sensor_eci(t), kind,
                                           _radar_measurement("optical" if kind == "optical" else "radar"), noisy=False)

    @staticmethod
    def row(t, target=TGT, sensor=SEN, kind="adv_radar"):
        """Specification of a stored observation (built into a real Observation by ``reset``)."""
        return (t, target, sensor, kind)

    def reset(self, rows, epochs=True):
        """Empty the observation/epoch tables and store ``rows`` (specs, in the given order) with their epochs and agents.

        ``epochs=False``: the epoch table is left alone (a real ScenarioClock has filled it with every step)."""
        from resonaate.data.agent import AgentModel  # noqa: PLC0415
        from resonaate.data.epoch import Epoch  # noqa: PLC0415
        from resonaate.data.observation import Observation  # noqa: PLC0415
        from sqlalchemy.orm import Query  # noqa: PLC0415

        self.db.deleteData(Query(Observation))
        if epochs:
            self.db.deleteData(Query(Epoch))
        self.db.deleteData(Query(AgentModel))
        self.db.insertData(*[AgentModel(unique_id=i, name=f"A{i}") for i in (TGT, TGT2, SEN, SEN2)])
        seen = set()
        for spec in rows if epochs else ():
            jd = float(self.jd(spec[0]))
            if jd not in seen:
                seen.add(jd)
                self.db.insertData(Epoch(julian_date=jd, timestampISO=f"jd{jd!r}"))
        for spec in rows:
            self.db.insertData(self.obs(*spec))  # a fresh object per insert (the session expires what it stored)


def _iod(world, solver, min_spacing=60):
    from resonaate.estimation.initial_orbit_determination import LambertIOD  # noqa: PLC0415
    from resonaate.scenario.config.estimation_config import InitialOrbitDeterminationConfig  # noqa: PLC0415

    cfg = InitialOrbitDeterminationConfig(name=SOLVER_LABEL[solver], minimum_observation_spacing=min_spacing)
    return LambertIOD.fromConfig(cfg, TGT, world.jd0)


def _iod_call(iod, current_obs, t_det, t_now):
    from resonaate.physics.time.stardate import ScenarioTime  # noqa: PLC0415

    try:
        with np.errstate(all="ignore"):
            sol = iod.determineNewEstimateState(current_obs, ScenarioTime(t_det), ScenarioTime(t_now))
        return sol, None
    except Exception as exc:  # noqa: BLE001
        return None, f"{type(exc).__name__}: {exc}"


def _iod_vel_tol(world, solver, tof):
    vsc = math.sqrt(MU / world.a)
    return 8.0 * vsc * JD_STEP_S / tof + TOL[solver][0] * vsc + 1e-9


def _judge_state(res, sub, world, solver, sol, err, t1, t2, case, nontrivial, item, sig_tail, pos_extra=0.0, end_extra=0.0):
    """The IOD must converge to the true state at t2 (position from the current radar observation, velocity from Lambert).

    ``pos_extra`` / ``end_extra`` (km, default 0): stated conditioning allowance of the position recovered from the
    current observation / of the worse of the two arc end points (near-zenith cases only, see ``_zen_cond``)."""
    truth = world.truth(t2)
    sep = (t2 - t1) / world.period
    if err is not None or sol is None or not sol.convergence or sol.state_vector is None:
        msg = err if err is not None else sol.message
        if err is None and msg == "Observations not from a single pass":
            # DESIGN section 4 row 15: period computed from a position-only vector (speed 0 => a = r/2) is
            # 2^-1.5 (r2/a)^1.5 of the true one; a rejection at or above that fraction is that defect, anything
            # else is something new
            wrong = 2.0 ** -1.5 * (float(np.linalg.norm(truth[:3])) / world.a) ** 1.5
            kind = "position_only_period" if sep >= wrong * (1.0 - 1e-9) else "below_position_only_period"
            sig = f"C20/iod/{sig_tail}/rejected_single_pass/{kind}"
        else:
            sig = f"C20/iod/{sig_tail}/not_converged"
        res.case(sub, case, False, nontrivial=nontrivial, signature=sig, observed=msg,
                 expected="convergence=True with the true state", outcome="rejected", item=item)
        return
    sv = np.asarray(sol.state_vector, dtype=float)
    ep = _maxabs(sv[:3], truth[:3]) if sv.shape == (6,) else float("inf")
    ev = _maxabs(sv[3:], truth[3:]) if sv.shape == (6,) else float("inf")
    # an end point displaced by d moves the Lambert end velocities by about d / tof (short arcs) .. 2 d / tof: 4 d / tof
    vtol = _iod_vel_tol(world, solver, t2 - t1) + 4.0 * end_extra / (t2 - t1)
    ptol = TOL_IOD_POS_KM + pos_extra
    ok = ep <= ptol and ev <= vtol and sol.message == "IOD successful"
    res.case(sub, case, ok, nontrivial=nontrivial,
             signature=f"C20/iod/{sig_tail}/" + ("position" if not ep <= ptol else "velocity" if not ev <= vtol else "message"),
             observed={"state": sv, "pos_err_km": ep, "vel_err_km_s": ev, "vel_err_over_tol": ev / vtol, "message": sol.message},
             expected={"state": truth, "pos_tol": ptol, "vel_tol": vtol}, outcome="converged", item=item)
    res.observe(sv)


def _run_iod(res, item):
    _, tier, seed, oi, si = item
    orbit = (IOD_ORBITS_Q if tier == "quick" else IOD_ORBITS_T)[oi]
    site = _sites(tier, seed)[si]
    seps = IOD_SEPS_Q if tier == "quick" else IOD_SEPS_T
    start = _seed_start(seed, oi + 3 * si)
    w = _World(start, orbit, site, seed + 11 * oi)
    step = 60 if w.period < 30000 else 300  # scenario step: observation times are whole steps
    # the pass starts 0.7 P into the scenario, so that scenario times and time differences cannot be confused
    t1 = (14 + round(0.7 * w.period / step)) * step
    t_det = t1 - 4 * step
    solvers = ("universal", "battin")
    for sep in seps:
        t2 = t1 + max(step, round(sep / 100.0 * w.period / step) * step)
        frac = (t2 - t1) / w.period
        if not frac < 0.4:
            t2 -= step
            frac = (t2 - t1) / w.period
        base_rows = [w.row(t1)]
        for solver in solvers + (("gauss",) if frac * 360.0 <= GAUSS_MAX_DEG else ()):
            case = {"orbit": list(orbit), "site": list(site), "sep_percent": sep, "sep_frac": round(frac, 6), "solver": solver,
                    "variant": "base", "start": start.isoformat()}
            w.reset(base_rows)
            sol, err = _iod_call(_iod(w, solver), [w.obs(t2)], t_det, t2)
            _judge_state(res, "iod/state", w, solver, sol, err, t1, t2, case, frac >= 0.3, item, "state")
    # database variants (one decoy row each): the answer must not change.  Run at a separation the defect of row 15
    # leaves alone so that each filter is judged on its own.
    sep = 20
    t2 = t1 + round(sep / 100.0 * w.period / step) * step
    frac = (t2 - t1) / w.period
    for variant in IOD_VARIANTS:
        for solver in solvers if variant == "all_decoys" or tier == "thorough" else ("universal",):
            rows = [w.row(t1)]
            current = [w.obs(t2)]
            if variant in ("multi_prev", "all_decoys"):
                rows = [w.row(t1), w.row(t1 - 2 * step), w.row(t1 - step, sensor=SEN2)]  # stored out of time order
            if variant in ("other_target", "all_decoys"):
                rows.append(w.row(t1 + step, target=TGT2))
                rows.append(w.row(t2, target=TGT2))
            if variant in ("optical_prev", "all_decoys"):
                rows.append(w.row(t1 + 2 * step, kind="optical", sensor=SEN2))
            if variant in ("future_row", "all_decoys"):
                rows.append(w.row(t2 + step))
            if variant == "at_detection":
                rows = [w.row(t_det)]  # the only stored observation sits exactly on the lower bound of the query
            if variant in ("optical_now_first", "all_decoys"):
                current = [w.obs(t2, kind="optical", sensor=SEN2), w.obs(t2)]
            tprev = t_det if variant == "at_detection" else t1
            case = {"orbit": list(orbit), "site": list(site), "sep_percent": sep, "sep_frac": round((t2 - tprev) / w.period, 6),
                    "solver": solver, "variant": variant, "start": start.isoformat()}
            w.reset(rows)
            sol, err = _iod_call(_iod(w, solver), current, t_det, t2)
            _judge_state(res, "iod/variants", w, solver, sol, err, tprev, t2, case, True, item, f"variant/{variant}")
    # outcomes that must NOT converge, each with its own message
    rejections = [
        ("no_current_observations", [w.row(t1)], [], "No Observations for IOD"),
        ("empty_database", [], [w.obs(t2)], f"No observations in database of RSO {TGT}"),
        ("only_before_detection", [w.row(t_det - step)], [w.obs(t2)], f"No observations in database of RSO {TGT}"),
        ("only_other_target", [w.row(t1, target=TGT2)], [w.obs(t2)], f"No observations in database of RSO {TGT}"),
        ("only_optical_stored", [w.row(t1, kind="optical")], [w.obs(t2)], f"No observations in database of RSO {TGT}"),
        ("only_future_stored", [w.row(t2 + step)], [w.obs(t2)], f"No observations in database of RSO {TGT}"),
        ("only_optical_now", [w.row(t1)], [w.obs(t2, kind="optical")], "No Radar observations to perform Lambert IOD"),
    ]
    for name, rows, current, message in rejections:
        w.reset(rows)
        sol, err = _iod_call(_iod(w, "universal"), current, t_det, t2)
        ok = err is None and sol is not None and sol.convergence is False and sol.state_vector is None and sol.message == message
        res.case("iod/rejections", {"orbit": list(orbit), "site": list(site), "variant": name}, ok, nontrivial=True,
                 signature=f"C20/iod/rejections/{name}", observed=err or [sol.convergence, sol.message],
                 expected=[False, message], outcome=name, item=item)
    # more than one revolution apart is not a single pass
    for revs in (1.05, 1.6):
        t3 = t1 + math.ceil(revs * w.period / step) * step
        w.reset([w.row(t1)])
        sol, err = _iod_call(_iod(w, "universal"), [w.obs(t3)], t_det, t3)
        ok = err is None and sol.convergence is False and sol.message == "Observations not from a single pass"
        res.case("iod/rejections", {"orbit": list(orbit), "site": list(site), "variant": f"{revs}_revolutions"}, ok,
                 nontrivial=True, signature="C20/iod/rejections/multi_rev", observed=err or [sol.convergence, sol.message],
                 expected=[False, "Observations not from a single pass"], outcome="multi_rev", item=item)


def _run_iod_zenith(res, item):
    """IOD arcs one of whose two observations is taken with the target within arc seconds of the sensor's zenith (an
    overhead pass at closest approach; a geostationary satellite over its own sub-satellite site).  The truth orbit is
    circular through a point ``zd`` rad off the zenith at slant range ``rng``; its inertial heading changes with the
    bearing index (8 orbit planes), and the bearing of the offset is laid out relative to the heading of the target's
    velocity *relative to the rotating Earth* (the velocity the SEZ slant-range vector carries): 0 = moving along the
    offset, 90 / 270 = across (closest approach), 180 = back over the zenith."""
    _, tier, seed, gi, si = item
    rng, sep = IOD_ZEN_GEOM[gi]
    site = _sites(tier, seed)[si]
    start = _seed_start(seed, 50 + gi + 3 * si)
    w = _World(start, (6378.0 + site[2] + rng, 0.0, 0.5), site, seed + 7 * gi)
    step = 60 if w.period < 30000 else 300
    t1 = (14 + round(0.7 * w.period / step)) * step
    t2 = t1 + max(step, round(sep / 100.0 * w.period / step) * step)
    t_det = t1 - 4 * step
    zds = ZD_Q if tier == "quick" else ZD_T
    for which, t_z in (("second", t2), ("first", t1)):
        sen = w.sensor_eci(t_z)
        fk5 = fr.FK5.from_table(start + timedelta(seconds=t_z))
        sen_ecef = fk5.eci_to_ecef(sen)
        lat, lon, _alt = fr.ecef_to_geodetic_iter(*sen_ecef[:3])
        to_eci = fk5.ecef2eci_mat
        north = to_eci @ np.asarray(fr.sez_to_ecef([-1.0, 0.0, 0.0], lat, lon))
        east = to_eci @ np.asarray(fr.sez_to_ecef([0.0, 1.0, 0.0], lat, lon))

        def place(los):
            return sen[:3] + to_eci @ (rng * np.asarray(fr.sez_to_ecef(los, lat, lon)))

        def circular_velocity(r, heading):
            d = math.cos(heading) * north + math.sin(heading) * east
            rhat = r / np.linalg.norm(r)
            d = d - float(d @ rhat) * rhat
            return math.sqrt(MU / float(np.linalg.norm(r))) * d / np.linalg.norm(d)

        for k in range(N_BEARINGS):
            inertial_heading = (25.0 + 40.0 * k + 360.0 * _phase(seed, 8)) * DEG
            r_z = place([0.0, 0.0, 1.0])
            rel_v = fk5.eci_to_ecef(np.concatenate([r_z, circular_velocity(r_z, inertial_heading)]))[3:] - sen_ecef[3:]
            v_s, v_e, _v_z = fr.ecef_to_sez(list(rel_v), lat, lon)
            bearing = math.atan2(v_e, -v_s) + 45.0 * k * DEG
            for zd in zds:
                los = [-math.sin(zd) * math.cos(bearing), math.sin(zd) * math.sin(bearing), math.cos(zd)]
                r = place(los)
                w.set_state(t_z, r, circular_velocity(r, inertial_heading))
                for solver in ("universal", "battin") if tier == "thorough" else (("universal", "battin")[k % 2],):
                    case = {"range_at_zenith": rng, "sep_percent": sep, "site": list(site), "zenith_distance": zd,
                            "bearing_minus_heading_deg": 45.0 * k, "which": which, "solver": solver, "start": start.isoformat()}
                    w.reset([w.row(t1)])
                    sol, err = _iod_call(_iod(w, solver), [w.obs(t2)], t_det, t2)
                    cond = _zen_cond(rng, zd)
                    _judge_state(res, "iod/zenith", w, solver, sol, err, t1, t2, case, zd < 1e-3, item, f"zenith_{which}",
                                 pos_extra=cond if which == "second" else 0.0, end_extra=cond)


def _run_iod_api(res, item):
    """getPreviousObservations / checkSinglePass / _determineFinalState / min_observations called directly."""
    from resonaate.physics.time.stardate import ScenarioTime  # noqa: PLC0415
    from resonaate.physics.transforms.methods import radarObs2eciPosition  # noqa: PLC0415

    _, tier, seed, oi = item
    orbit = (IOD_ORBITS_Q if tier == "quick" else IOD_ORBITS_T)[oi]
    site = _sites(tier, seed)[oi % len(_sites(tier, seed))]
    start = _seed_start(seed, 17 + oi)
    w = _World(start, orbit, site, seed + 5 * oi)
    step = 60 if w.period < 30000 else 300
    iod = _iod(w, "universal")
    base = {"orbit": list(orbit), "start": start.isoformat()}
    # --- query: window [lo, hi] inclusive, target only, radar only, ascending
    times = [2, 5, 6, 9, 12, 15]
    rows = [w.row(t * step, sensor=SEN if k % 2 else SEN2, kind="radar" if k % 3 else "adv_radar") for k, t in enumerate(reversed(times))]
    rows += [w.row(7 * step, target=TGT2), w.row(8 * step, kind="optical"), w.row(6 * step, kind="optical", sensor=SEN2)]
    w.reset(rows)
    for lo, hi in [(0, 20), (5, 12), (6, 9), (3, 4), (5, 5), (12, 5), (10, 11), (15, 99), (0, 2)]:
        got = iod.getPreviousObservations(w.db, ScenarioTime(lo * step), ScenarioTime(hi * step))
        exp = [float(w.jd(t * step)) for t in times if lo <= t <= hi]
        got_jd = [float(o.julian_date) for o in got]
        ok = got_jd == exp and all(o.target_id == TGT and o.sensor_type != "optical" and o.range_km for o in got)
        res.case("iod_api/query", {**base, "lo_step": lo, "hi_step": hi}, ok, nontrivial=True,
                 signature="C20/iod_api/query/" + ("count" if len(got_jd) != len(exp) else "order_or_rows"),
                 observed=got_jd, expected=exp, outcome=f"n={len(exp)}", item=item)
        res.observe(got_jd)
    # --- checkSinglePass with a full 6-state (the documented argument): transit time below one period, else False
    for f in (0.02, 0.2, 0.35, 0.36, 0.39, 0.5, 0.9, 0.98, 1.02, 1.5, 3.0):
        t1 = 4 * step
        t2 = t1 + max(1, round(f * w.period))
        frac = (t2 - t1) / w.period
        jd1, jd2 = w.jd(t1), w.jd(t2)
        want_time = float((jd2 - jd1) * 86400.0)
        for label, state in (("state_at_first", w.truth(t1)), ("state_at_second", w.truth(t2))):
            try:
                got = iod.checkSinglePass(state, jd1, jd2)
            except Exception as exc:  # noqa: BLE001
                got = f"{type(exc).__name__}: {exc}"
            exp = want_time if frac < 1.0 else False
            if abs(frac - 1.0) < 1e-6:
                res.either_way += 1
                ok = True
            else:
                ok = (got is False) if exp is False else (not isinstance(got, (bool, str)) and abs(float(got) - want_time) <= 1e-9)
            res.case("iod_api/single_pass_full_state", {**base, "frac": round(frac, 6), "which": label}, ok, nontrivial=True,
                     signature="C20/iod_api/single_pass_full_state/" + ("accept" if exp is not False else "reject"),
                     observed=got, expected=exp, outcome="accept" if exp is not False else "reject", item=item)
        # the way determineNewEstimateState calls it: position only
        pos = w.truth(t2)[:3]
        try:
            got = iod.checkSinglePass(pos, jd1, jd2)
        except Exception as exc:  # noqa: BLE001
            got = f"{type(exc).__name__}: {exc}"
        if frac < 0.4:
            wrong = 2.0 ** -1.5 * (float(np.linalg.norm(pos)) / w.a) ** 1.5
            ok = not isinstance(got, (bool, str)) and abs(float(got) - want_time) <= 1e-9
            kind = "position_only_period" if frac >= wrong * (1.0 - 1e-9) else "below_position_only_period"
            res.case("iod_api/single_pass_position_only", {**base, "sep_frac": round(frac, 6)}, ok, nontrivial=frac >= 0.3,
                     signature=f"C20/iod/direct/rejected_single_pass/{kind}" if got is False else "C20/iod_api/single_pass_position_only/value",
                     observed=got, expected=want_time, outcome="accept" if ok else "reject", item=item)
    # --- ordering contract: the first date must be strictly earlier
    for dt in (0.0, -60.0):
        try:
            got = iod.checkSinglePass(w.truth(300.0), w.jd(300.0), w.jd(300.0 + dt))
        except ValueError:
            got = "ValueError"
        except Exception as exc:  # noqa: BLE001
            got = f"{type(exc).__name__}: {exc}"
        res.case("iod_api/single_pass_order", {**base, "dt": dt}, got == "ValueError", nontrivial=True,
                 signature="C20/iod_api/single_pass_order", observed=got, expected="ValueError", item=item)
    # --- _determineFinalState: first observation that carries a range, converted by radarObs2eciPosition
    t = 9 * step
    radar_a, radar_b, opt = w.obs(t), w.obs(t, sensor=SEN2, target=TGT2), w.obs(t, kind="optical")
    for name, lst, exp in (
        ("radar_only", [radar_a], radarObs2eciPosition(radar_a)),
        ("optical_then_radar", [opt, radar_a], radarObs2eciPosition(radar_a)),
        ("two_radars_first_wins", [radar_a, radar_b], radarObs2eciPosition(radar_a)),
        ("two_radars_first_wins_b", [radar_b, radar_a], radarObs2eciPosition(radar_b)),
        ("optical_only", [opt], None),
        ("empty", [], None),
    ):
        try:
            got = iod._determineFinalState(lst)  # noqa: SLF001
            ok = (got is None) if exp is None else (got is not None and np.array_equal(np.asarray(got), np.asarray(exp)))
            if exp is not None and name == "radar_only":
                ok = ok and _maxabs(got, w.truth(t)[:3]) <= TOL_IOD_POS_KM
        except Exception as exc:  # noqa: BLE001
            got, ok = f"{type(exc).__name__}: {exc}", False
        res.case("iod_api/final_state", {**base, "list": name}, ok, nontrivial=True, signature=f"C20/iod_api/final_state/{name}",
                 observed=got, expected=exp, item=item)
    # --- min_observations: stored + 1 (the current one) must reach it
    t1, t2 = 14 * step, 14 * step + round(0.2 * w.period / step) * step
    for need, stored, want in ((2, 1, True), (3, 1, False), (3, 2, True), (4, 2, False)):
        rows = [w.row(t1 - k * step) for k in range(stored)]
        w.reset(rows)
        iod2 = _iod(w, "universal")
        iod2.min_observations = need
        sol, err = _iod_call(iod2, [w.obs(t2)], 0, t2)
        if want:
            ok = err is None and sol.convergence and _maxabs(sol.state_vector[:3], w.truth(t2)[:3]) <= TOL_IOD_POS_KM
        else:
            ok = err is None and not sol.convergence and sol.message == f"Not enough observations to perform IOD {stored}"
        res.case("iod_api/min_observations", {**base, "min_observations": need, "stored": stored}, ok, nontrivial=True,
                 signature="C20/iod_api/min_observations", observed=err or [sol.convergence, sol.message],
                 expected=want, item=item)
    # fromConfig wiring
    iod3 = _iod(w, "battin", min_spacing=77)
    ok = (iod3.minimum_observation_spacing == 77 and iod3.sat_num == TGT and float(iod3.julian_date_start) == float(w.jd0)
          and iod3.orbit_determination_method is lam.lambertBattin and iod3.min_observations == 2)
    res.case("iod_api/from_config", base, ok, signature="C20/iod_api/from_config",
             observed=[iod3.minimum_observation_spacing, iod3.sat_num, float(iod3.julian_date_start)], expected=[77, TGT, float(w.jd0)], item=item)


# ------------------------------------------------------------------------------------------------ IOD through the agent
_EST_NOISE = {"init_position_std_km": 1e-3, "init_velocity_std_km_p_sec": 1e-6, "filter_noise_type": "continuous_white_noise",
              "filter_noise_magnitude": 3.0e-14, "random_seed": 1}


def _estimation_cfg(label, spacing):
    """Estimation section of a scenario configuration with IOD switched on and the solver given by its label."""
    return {
        "sequential_filter": {"name": "unscented_kalman_filter", "dynamics_model": "two_body",
                              "maneuver_detection": {"name": "standard_nis", "threshold": 0.01},
                              "initial_orbit_determination": True},
        "adaptive_filter": None,
        "initial_orbit_determination": {"name": label, "minimum_observation_spacing": spacing},
    }


def _make_estimate_agent(path, scenario, state, label, spacing, with_iod=True):
    """A real EstimateAgent of target TGT, created *now* (at the scenario clock's current time), obtained

    * add_target:  by ``Scenario.addTarget`` (what a target-addition event calls), taken from ``estimate_agents``;
    * from_config: by ``EstimateAgent.fromConfig`` with the scenario's clock and own configuration objects;
    * constructor: by the constructor with a hand-made filter (as the unit tests build it)."""
    from resonaate.agents.estimate_agent import EstimateAgent  # noqa: PLC0415
    from resonaate.dynamics.two_body import TwoBody  # noqa: PLC0415
    from resonaate.estimation.kalman.unscented_kalman_filter import UnscentedKalmanFilter  # noqa: PLC0415
    from resonaate.estimation.maneuver_detection import StandardNis  # noqa: PLC0415
    from resonaate.scenario.config.agent_config import AgentConfig  # noqa: PLC0415
    from resonaate.scenario.config.estimation_config import EstimationConfig, InitialOrbitDeterminationConfig  # noqa: PLC0415
    from resonaate.scenario.config.noise_config import NoiseConfig  # noqa: PLC0415

    clock = scenario.clock
    spec = scen.target_eci(TGT, state[:3], state[3:])
    if path == "add_target":
        if TGT in scenario.target_agents:
            scenario.removeTarget(TGT, 1)
        scenario.addTarget(spec, 1)
        return scenario.estimate_agents[TGT]
    if path == "from_config":
        est = _estimation_cfg(label, spacing)
        if not with_iod:
            est["initial_orbit_determination"] = None
            est["sequential_filter"]["initial_orbit_determination"] = False
        return EstimateAgent.fromConfig(AgentConfig(**spec), clock, TwoBody(), scenario.scenario_config.time,
                                        NoiseConfig(**_EST_NOISE), EstimationConfig(**est))
    p = np.diag([1.0, 1.0, 1.0, 1e-6, 1e-6, 1e-6])
    x0 = np.asarray(state, dtype=float) + np.array([0.5, -0.3, 0.2, 1e-4, 2e-4, -1e-4])
    nominal = UnscentedKalmanFilter(TGT, clock.time, x0, p, TwoBody(), 1e-12 * p, StandardNis(0.01), True)
    return EstimateAgent(TGT, "late_target", "Spacecraft", clock, x0, p, nominal, None,
                         InitialOrbitDeterminationConfig(name=label, minimum_observation_spacing=spacing),
                         10.0, 100.0, 0.21)


class _Spy:
    """Pass-through recorder around the IOD object's determineNewEstimateState (arguments and the IODSolution)."""

    def __init__(self, iod):
        self.calls = []
        self._real = iod.determineNewEstimateState
        iod.determineNewEstimateState = self

    def __call__(self, observations, detection_time, current_time):
        sol = self._real(observations, detection_time, current_time)
        self.calls.append((float(detection_time), float(current_time), sol))
        return sol


def _agent_flow(agent, w, t_det, rows, t2, current):
    """Drive the agent the way two scenario steps do: on the step at t_det the nominal filter flags a manoeuvre (the
    harness stands in for the filter's detection test) and ``_update`` switches IOD on; the scenario collects the
    detection and stores the observations; on the step at t2 ``_update`` attempts IOD with the current observations.
    Returns (spy, error text or None, estimate before the second step)."""
    from resonaate.physics.time.stardate import ScenarioTime  # noqa: PLC0415

    spy = _Spy(agent.initial_orbit_determination)
    try:
        with np.errstate(all="ignore"):
            agent.time = ScenarioTime(t_det)
            agent.nominal_filter.maneuver_detected = True
            agent._update([w.obs(t_det)])  # noqa: SLF001
            same_step_calls = len(spy.calls)
            agent.getDetectedManeuvers()
            agent.nominal_filter.maneuver_detected = False
            w.reset(rows, epochs=False)
            before = np.array(agent.nominal_filter.est_x, dtype=float)
            agent.time = ScenarioTime(t2)
            agent._update(current)  # noqa: SLF001
        return spy, None, before, same_step_calls
    except Exception as exc:  # noqa: BLE001
        return spy, f"{type(exc).__name__}: {exc}", None, None


def _run_iod_agent(res, item):
    """LambertIOD as the library builds and drives it: inside an EstimateAgent that is created at scenario time t_add."""
    from resonaate.physics.time.stardate import ScenarioTime  # noqa: PLC0415

    _, tier, seed, oi, ai, label = item
    orbit = (IOD_ORBITS_Q if tier == "quick" else IOD_ORBITS_T)[oi]
    t_add = (T_ADD_Q if tier == "quick" else T_ADD_T)[ai]
    seps = IOD_AGENT_SEPS_Q if tier == "quick" else IOD_AGENT_SEPS_T
    sites = _sites(tier, seed)
    site = sites[(oi + ai) % len(sites)]
    solver, solver_fn = _solver_of_label(label)
    start = _seed_start(seed, 70 + oi + 5 * ai)
    period = ref.period(orbit[0])
    step = 60 if period < 30000 else 300
    # the pass starts 0.7 P after the agent was created; detection either on the step after the agent was created or 4
    # steps before the stored observation
    t1 = t_add + (14 + round(0.7 * period / step)) * step
    span = t1 + (8 + math.ceil(0.4 * period / step)) * step
    spacing = 60 + 7 * ai + oi  # a value that differs from the default and between items
    engine = scen.engine(1, [scen.target_eci(TGT2, *scen.LEO_B)], [scen.ground_sensor(SEN, site[0], site[1], site[2])])
    cfg = scen.config(start, 1, [engine], physics=step, seed=1, estimation=_estimation_cfg(label, spacing),
                      stop=start + timedelta(seconds=span))
    scenario = scen.build(cfg)
    clock = scenario.clock
    while clock.time < t_add:
        clock.ticToc()
    if float(clock.time) != float(t_add):
        raise RuntimeError(f"clock at {clock.time}, wanted {t_add}")
    w = _World(start, orbit, site, seed + 11 * oi)
    if float(w.jd0) != float(clock.julian_date_start):
        raise RuntimeError("harness start date differs from the clock's")
    base = {"orbit": list(orbit), "site": list(site), "t_add": t_add, "label": label, "start": start.isoformat()}
    late = "late_added" if t_add > 0 else "at_start"
    state_add = w.truth(t_add)
    detect = {"step_after_added": t_add + step, "before_stored_observation": t1 - 4 * step}
    for path in IOD_AGENT_PATHS:
        # --- wiring of the IOD object the agent carries
        agent = _make_estimate_agent(path, scenario, state_add, label, spacing)
        iod = agent.initial_orbit_determination
        wiring = [
            ("start_jd", float(iod.julian_date_start), float(clock.julian_date_start)),
            ("sat_num", iod.sat_num, TGT),
            ("solver", getattr(iod.orbit_determination_method, "__name__", None), solver_fn.__name__),
            ("spacing", iod.minimum_observation_spacing, spacing),
            ("min_observations", iod.min_observations, 2),
            ("agent_time", float(agent.time), float(t_add)),
        ]
        for name, got, exp in wiring:
            ok = got == exp and (name != "solver" or iod.orbit_determination_method is solver_fn)
            res.case("iod_agent/wiring", {**base, "path": path, "field": name}, ok, nontrivial=t_add > 0,
                     signature=f"C20/iod_agent/wiring/{name}/{late}", observed=got, expected=exp, outcome=name, item=item)
        for dname, t_det in detect.items():
            for sep in seps:
                t2 = t1 + max(step, round(sep / 100.0 * w.period / step) * step)
                frac = (t2 - t1) / w.period
                if not frac < 0.4:
                    t2 -= step
                    frac = (t2 - t1) / w.period
                if solver == "gauss" and frac * 360.0 > GAUSS_MAX_DEG:
                    continue
                case = {**base, "path": path, "detect": dname, "sep_percent": sep, "sep_frac": round(frac, 6), "solver": solver}
                agent = _make_estimate_agent(path, scenario, state_add, label, spacing)
                # the observation of the detection step is in the database too (the scenario stores every step's)
                rows = [w.row(t_det), w.row(t1)] if t_det < t1 else [w.row(t1)]
                spy, err, before, same_step = _agent_flow(agent, w, t_det, rows, t2, [w.obs(t2)])
                nt = t_add > 0 or frac >= 0.3
                sig = f"agent_{path}/{late}"
                if err is None and len(spy.calls) != 1:
                    res.case("iod_agent/state", case, False, nontrivial=nt, signature=f"C20/iod/{sig}/attempts",
                             observed=[c[:2] for c in spy.calls], expected="one attempt, on the second step", outcome="attempts", item=item)
                    continue
                sol = spy.calls[-1][2] if spy.calls else None
                _judge_state(res, "iod_agent/state", w, solver, sol, err, t1, t2, case, nt, item, sig)
                if err is not None:
                    continue
                # what the agent handed to the solver and what it did with the answer
                got_args = [spy.calls[0][0], spy.calls[0][1], same_step]
                exp_args = [float(t_det), float(t2), 0]
                est = np.asarray(agent.nominal_filter.est_x, dtype=float)
                if sol.convergence:
                    handed = np.array_equal(est, np.asarray(sol.state_vector, dtype=float), equal_nan=True) and agent.iod_start_time is None
                else:
                    handed = np.array_equal(est, before) and agent.iod_start_time == ScenarioTime(t_det)
                res.case("iod_agent/handback", case, got_args == exp_args and handed, nontrivial=nt,
                         signature=f"C20/iod_agent/handback/" + ("arguments" if got_args != exp_args else "estimate"),
                         observed={"detection_time, current_time, attempts on the detection step": got_args, "est_x": est,
                                   "iod_start_time": None if agent.iod_start_time is None else float(agent.iod_start_time)},
                         expected={"args": exp_args, "est_x": "the IOD state, IOD switched off" if sol.convergence else "unchanged"},
                         outcome="converged" if sol.convergence else "rejected", item=item)
    # --- outcomes that must not converge (and must leave the estimate alone), through EstimateAgent.fromConfig
    t_det = detect["before_stored_observation"]
    t2 = t1 + round(0.2 * w.period / step) * step
    for name, rows, current, message in (
        ("only_before_detection", [w.row(t_det - step)], [w.obs(t2)], f"No observations in database of RSO {TGT}"),
        ("optical_only_now", [w.row(t1)], [w.obs(t2, kind="optical")], "No Radar observations to perform Lambert IOD"),
    ):
        agent = _make_estimate_agent("from_config", scenario, state_add, label, spacing)
        spy, err, before, _same = _agent_flow(agent, w, t_det, rows, t2, current)
        ok = (err is None and len(spy.calls) == 1 and spy.calls[0][2].convergence is False and spy.calls[0][2].message == message
              and np.array_equal(np.asarray(agent.nominal_filter.est_x, dtype=float), before)
              and agent.iod_start_time == ScenarioTime(t_det))
        res.case("iod_agent/rejections", {**base, "variant": name}, ok, nontrivial=t_add > 0,
                 signature=f"C20/iod_agent/rejections/{name}",
                 observed=err or [[c[2].convergence, c[2].message] for c in spy.calls], expected=[False, message], outcome=name, item=item)
    # no attempt on the step that switches IOD on, even if a usable pair of observations exists
    agent = _make_estimate_agent("from_config", scenario, state_add, label, spacing)
    spy = _Spy(agent.initial_orbit_determination)
    w.reset([w.row(t1)], epochs=False)
    agent.time = ScenarioTime(t2)
    agent.nominal_filter.maneuver_detected = True
    before = np.array(agent.nominal_filter.est_x, dtype=float)
    agent._update([w.obs(t2)])  # noqa: SLF001
    ok = not spy.calls and agent.iod_start_time == ScenarioTime(t2) and np.array_equal(np.asarray(agent.nominal_filter.est_x), before)
    res.case("iod_agent/rejections", {**base, "variant": "same_step"}, ok, nontrivial=t_add > 0, signature="C20/iod_agent/rejections/same_step",
             observed=[len(spy.calls), None if agent.iod_start_time is None else float(agent.iod_start_time)], expected=[0, float(t2)],
             outcome="same_step", item=item)
    # an agent configured without IOD carries none and never converges
    agent = _make_estimate_agent("from_config", scenario, state_add, label, spacing, with_iod=False)
    agent.time = ScenarioTime(t2)
    agent.iod_start_time = ScenarioTime(t_det)
    got = agent._attemptInitialOrbitDetermination([w.obs(t2)])  # noqa: SLF001
    ok = agent.initial_orbit_determination is None and got[0] is False and got[1] is None
    res.case("iod_agent/rejections", {**base, "variant": "no_iod_configured"}, ok, signature="C20/iod_agent/rejections/no_iod_configured",
             observed=[agent.initial_orbit_determination is None, got[0]], expected=[True, False], outcome="no_iod", item=item)
    worker_init()  # leave a fresh in-memory database / key-value store for the next item of this worker


# ------------------------------------------------------------------------------------------------ MMAE entry points
def _adaptive_filter(solver, est_x):
    from resonaate.dynamics.two_body import TwoBody  # noqa: PLC0415
    from resonaate.estimation.adaptive.adaptive_filter import AdaptiveFilter  # noqa: PLC0415
    from resonaate.estimation.adaptive.initialization import lambertInitializationFactory  # noqa: PLC0415
    from resonaate.estimation.adaptive.mmae_stacking_utils import stackingFactory  # noqa: PLC0415
    from resonaate.estimation.kalman.unscented_kalman_filter import UnscentedKalmanFilter  # noqa: PLC0415
    from resonaate.estimation.maneuver_detection import StandardNis  # noqa: PLC0415

    p = np.diag([1.0, 1.0, 1.0, 1e-6, 1e-6, 1e-6])
    nominal = UnscentedKalmanFilter(TGT, 0.0, np.asarray(est_x, dtype=float), p, TwoBody(), 1e-12 * p, StandardNis(0.01), None, False)
    return AdaptiveFilter(nominal, 300, lambertInitializationFactory(SOLVER_LABEL[solver]), stackingFactory("eci_stack"), 1, 60, 1e-10, 0.997)


def _run_mmae(res, item):
    """_calculateDeltaV: for each hypothesis (state before the burn at t_k) the impulse that makes the orbit pass
    through the observed position at the filter time; row 0 (no manoeuvre) stays zero.  Oracle: the burn that the
    harness really applied is recovered for its own hypothesis, and every hypothesis + its impulse, propagated by the
    own Kepler reference over (time - t_k), arrives at the observed position."""
    _, tier, seed, oi, solver = item
    orbit = (IOD_ORBITS_Q if tier == "quick" else IOD_ORBITS_T)[oi]
    a, e, inc = orbit
    w = _World(_seed_start(seed, 40 + oi), orbit, _sites(tier, seed)[0], seed + 3 * oi)
    vsc = math.sqrt(MU / a)
    vtol, ptol, _avtol = TOL[solver]
    now = round(0.95 * w.period)
    gaps = [0.03, 0.08, 0.2, 0.3, 0.42, 0.6, 0.8] if tier == "quick" else [0.02, 0.03, 0.05, 0.08, 0.15, 0.2, 0.3, 0.38, 0.42, 0.58, 0.6, 0.7, 0.8, 0.9]
    times = [float(round(now - g * w.period)) for g in gaps]
    # impulses of a few m/s: after 0.9 P the displaced orbit is <= ~100 km from the nominal one, so even the latest
    # hypothesis (0.02 P before the observation) needs < 1 km/s and every hypothesised transfer stays a bound orbit of
    # moderate eccentricity (the domain of the property and of the reference propagator)
    burns = [(0.001, -0.002, 0.0015), (-0.003, 0.0, 0.001), (0.0, 0.005, -0.002)]
    for bi, burn in enumerate(burns):
        for k_true, t_true in enumerate(times):
            if tier == "quick" and (k_true + bi) % 3:
                continue
            pre = [w.truth(t) for t in times]
            post = pre[k_true].copy()
            post[3:] += np.array(burn) * (vsc / 7.5)
            rr, _vv = ref.propagate(tuple(post[:3]), tuple(post[3:]), now - t_true)
            tgt = np.array(rr)
            af = _adaptive_filter(solver, np.concatenate([tgt, post[3:]]))
            af.time = float(now)
            af.num_models = len(times) + 1
            try:
                with np.errstate(all="ignore"):
                    dv = np.asarray(af._calculateDeltaV(np.array(pre), list(times), tgt), dtype=float)  # noqa: SLF001
                err = None
            except Exception as exc:  # noqa: BLE001
                dv, err = None, f"{type(exc).__name__}: {exc}"
            case = {"orbit": list(orbit), "solver": solver, "burn": list(burn), "k_true": k_true, "gap_true": gaps[k_true]}
            if err is not None or dv.shape != (len(times) + 1, 3):
                res.case("mmae/delta_v", case, False, nontrivial=True, signature=f"C20/mmae/{solver}/error", observed=err or list(dv.shape),
                         expected=[len(times) + 1, 3], item=item)
                continue
            res.case("mmae/no_manoeuvre_row", case, bool(np.all(dv[0] == 0.0)), signature=f"C20/mmae/{solver}/row0", observed=dv[0],
                     expected=[0, 0, 0], item=item)
            e_true = _maxabs(dv[k_true + 1], post[3:] - pre[k_true][3:]) / vsc
            res.case("mmae/true_burn_recovered", case, e_true <= vtol, nontrivial=True,
                     signature=f"C20/mmae/{solver}/true_burn", observed={"dv": dv[k_true + 1], "err_rel": e_true},
                     expected=post[3:] - pre[k_true][3:], item=item)
            for k, t_k in enumerate(times):
                dn = math.degrees(math.acos(max(-1.0, min(1.0, float(np.dot(pre[k][:3], tgt) / (np.linalg.norm(pre[k][:3]) * np.linalg.norm(tgt)))))))
                if min(dn, 180.0 - dn) < 2.0 * EXCLUDE_DEG or abs(gaps[k] - 0.5) < 0.05:
                    continue  # same exclusion as the property (and the circular half-period sense rule next to 180 deg)
                v_new = pre[k][3:] + dv[k + 1]
                try:
                    pr, _pv = ref.propagate(tuple(pre[k][:3]), tuple(float(x) for x in v_new), now - t_k)
                    ep = _maxabs(pr, tgt) / a
                except ValueError:
                    ep = float("inf")
                res.case("mmae/hypothesis_reaches_observation", {**case, "k": k, "gap": gaps[k]}, ep <= ptol,
                         nontrivial=gaps[k] > 0.5, signature=f"C20/mmae/{solver}/arrival/" + ("long" if gaps[k] > 0.5 else "short"),
                         observed={"dv": dv[k + 1], "arrive_err_rel": ep}, expected={"tol_rel": ptol}, item=item)
            res.observe(dv)
    # _generateHypothesisManeuvers: last radar observation wins; optical-only falls back to the filter estimate
    t_obs = float(now)
    est_pos = w.truth(t_obs)[:3] + np.array([30.0, -20.0, 10.0])
    af = _adaptive_filter(solver, np.concatenate([est_pos, w.truth(t_obs)[3:]]))
    af.time = t_obs
    keep = [k for k, g in enumerate(gaps) if abs(g - 0.5) >= 0.05][:4]
    nominal = np.array([w.truth(times[keep[0]])] + [w.truth(times[k]) for k in keep])
    mtimes = np.array([times[keep[0]]] + [times[k] for k in keep])
    af.num_models = len(nominal)
    # two radar observations that place the object at two different (nearby, so every transfer stays elliptic) points
    radar_a = w.obs(t_obs, sensor=SEN2, state=w.truth(t_obs) + np.array([10.0, 20.0, -15.0, 0.0, 0.0, 0.0]))
    radar_b = w.obs(t_obs)
    optical = w.obs(t_obs, kind="optical")
    from resonaate.physics.transforms.methods import radarObs2eciPosition  # noqa: PLC0415

    for name, lst, tgt in (
        ("radar", [radar_b], radarObs2eciPosition(radar_b)),
        ("last_radar_wins", [radar_a, optical, radar_b], radarObs2eciPosition(radar_b)),
        ("last_radar_wins_b", [radar_b, radar_a, optical], radarObs2eciPosition(radar_a)),
        ("optical_only", [optical], est_pos),
        ("none", [], est_pos),
    ):
        try:
            with np.errstate(all="ignore"):
                dv = np.asarray(af._generateHypothesisManeuvers(lst, nominal, mtimes), dtype=float)  # noqa: SLF001
                exp = np.asarray(af._calculateDeltaV(nominal[1:], mtimes[1:], np.asarray(tgt)), dtype=float)  # noqa: SLF001
            ok = dv.shape == exp.shape and np.array_equal(dv, exp)
            obs = dv
        except Exception as exc:  # noqa: BLE001
            ok, obs, exp = False, f"{type(exc).__name__}: {exc}", None
        res.case("mmae/hypothesis_manoeuvres", {"orbit": list(orbit), "solver": solver, "observations": name}, ok, nontrivial=True,
                 signature=f"C20/mmae/{solver}/target_choice/{name}", observed=obs, expected=exp, item=item)


# ------------------------------------------------------------------------------------------------ dispatch
def run_item(item):
    import traceback  # noqa: PLC0415

    res = fw.Result()
    kind = item[0]
    runner = {
        "arcs": _run_arcs, "helpers": _run_helpers, "direction": _run_direction, "radar": _run_radar,
        "radar_space": _run_radar_space, "radar_zenith": _run_radar_zenith, "radar_zenith_space": _run_radar_zenith_space,
        "radar_seam": _run_radar_seam, "iod_zenith": _run_iod_zenith, "iod": _run_iod, "iod_api": _run_iod_api, "mmae": _run_mmae,
        "iod_agent": _run_iod_agent,
    }[kind]
    try:
        runner(res, item)
    except Exception as exc:  # noqa: BLE001
        frames = traceback.extract_tb(exc.__traceback__)
        if not any("/resonaate/" in f.filename for f in frames):
            raise  # a fault of the harness itself: exit 2
        # raised inside the code under test on an input of the lattice where no exception is part of the contract
        where = next(f for f in reversed(frames) if "/resonaate/" in f.filename)
        res.case(f"{kind}/exception", {"item": list(item)}, False, nontrivial=False,
                 signature=f"C20/{kind}/exception/{type(exc).__name__}",
                 observed=f"{type(exc).__name__}: {exc} at {where.filename.split('/resonaate/')[-1]}:{where.name}",
                 expected="no exception", item=item)
    return res
