"""C10 - truth trajectories depend only on dynamics and initial states.

Configuration lattice (every single-factor variant of a base scenario, and every split of the run into consecutive
calls) + schedule explorer (every completion order of every job batch of the base network): the truth state of every
agent present in both runs must be bit-for-bit identical after every step, and so must the stored TruthEphemeris rows.
"""
from __future__ import annotations

import copy
from datetime import datetime, timedelta

import numpy as np
from sqlalchemy import text

from verif import fakeray, sched, scen
from verif import framework as fw

from resonaate.physics.time.stardate import datetimeToJulianDate  # noqa: E402

PROPERTY = "C10"
LEVEL = "model_checking"
RULE = (
    "base scenario (2 targets: one with a scheduled impulse, one with station keeping; ground + space sensor; "
    "special-perturbations truth dynamics) versus every single-factor variant (truth-only, filter tuning/resampling/"
    "dynamics, maneuver detector, reward, decision, sensor noise x100, FoV/masks, random seed, output cadence, every "
    "split of the run into two consecutive propagateTo calls and one-call-per-step, extra target, removed target, "
    "extra sensor, removed sensor) and every completion order of every job batch of the base network; truth eci_state "
    "bytes compared after every step and in the TruthEphemeris rows. non-trivial = the variant really changes some "
    "non-truth output (asserted) or the schedule differs from the default; distinct by variant/schedule name."
)
ASSUMPTIONS = [
    "Ray semantics as modelled by verif/fakeray.py; job memoisation is OFF in this check (job purity is the question)",
    "the default EOP/ephemeris data files are the same for both runs of a pair",
]
EXPECT_MIN_NONTRIVIAL = 10

START = datetime(2021, 3, 30, 16, 0, 37)
DT = 60


def _base(n_steps, cheap=False):
    sp_sub = (9.0, 21.0, 1200.0, 70.0)
    p1, v1 = scen.overhead_orbit(START, *sp_sub)
    t1 = scen.target_eci(10001, p1, v1)
    # a twin 50 m away from target 10001, propagated just before it: their integrators visit almost (not exactly) the
    # same instants, so anything cached per-instant across agents shows up as a last-bit change of 10001's truth
    t0 = scen.target_eci(10000, [p1[0] + 0.03, p1[1] - 0.03, p1[2] + 0.02], v1)
    t2 = scen.target_eci(10002, *scen.overhead_orbit(START, 0.05, 25.0, 35786.0, 90.0), station_keeping=["GEO EW", "GEO NS"])
    # a LEO target that keeps its altitude: an unplanned retrograde impulse in step 2 lowers its semi-major axis by more
    # than the keeper's 2 km threshold, so the station-keeping routine has to FIRE from step 2 on - in the truth-only twin
    # as much as in the full run (where the live agent has been copied to the tasking workers in between)
    t3 = scen.target_eci(10005, *scen.overhead_orbit(START, 12.0, 23.0, 700.0, 50.0), station_keeping=["LEO"])
    s1 = scen.ground_sensor(20001, 10.0, 20.0, fov={"fov_shape": "conic", "cone_angle": 30.0})
    s2 = scen.space_sensor(20002, [0.0, 7500.0, 0.0], [-5.2, 0.0, 5.2], kind="optical")
    ev = [{
        "scope": "agent_propagation", "scope_instance_id": 10001, "start_time": scen.iso(START + timedelta(seconds=2 * DT + 17)),
        "event_type": "impulse", "thrust_vector": [0.0, 1e-3, 0.0], "thrust_frame": "ntw", "planned": False,
    }]
    # the twin manoeuvres INSIDE ITS FIRST STEP (before any agent has pruned its event queue once), and later performs a
    # maneuver flagged as planned (known to its filter): neither may reach another agent, and the planned flag is a
    # matter of the estimate only - the truth performs the maneuver with or without estimation
    ev.append({"scope": "agent_propagation", "scope_instance_id": 10000, "start_time": scen.iso(START + timedelta(seconds=23)),
               "event_type": "impulse", "thrust_vector": [0.0, 2e-3, 1e-3], "thrust_frame": "ntw", "planned": False})
    ev.append({"scope": "agent_propagation", "scope_instance_id": 10000, "start_time": scen.iso(START + timedelta(seconds=3 * DT + 11)),
               "event_type": "impulse", "thrust_vector": [1e-3, 0.0, -1e-3], "thrust_frame": "eci", "planned": True})
    if not cheap:  # (the schedule exploration's network stays at three targets: its batches of 4 get all 24 orders)
      ev.append({"scope": "agent_propagation", "scope_instance_id": 10005, "start_time": scen.iso(START + timedelta(seconds=DT + 29)),
                 "event_type": "impulse", "thrust_vector": [0.0, -2.5e-3, 0.0], "thrust_frame": "ntw", "planned": False})
    # two targets added while the run is in progress (their truth dynamics are built by Scenario.addTarget)
    for j, k in ((0, 1), (1, 2)):
        ev.append({
            "scope": "scenario_step", "scope_instance_id": 0, "start_time": scen.iso(START + timedelta(seconds=k * DT)),
            "event_type": "target_addition", "tasking_engine_id": 1,
            "target_agent": scen.target_eci(10006 + j, *scen.overhead_orbit(START, 10.0 + j, 19.0 + j, 1000.0 + 100 * j, 60.0)),
        })
    cfg = scen.config(
        START, n_steps + 1, [scen.engine(1, [t0, t1, t2] if cheap else [t0, t1, t2, t3], [s1, s2])], physics=DT, model="special_perturbations",
        filter_model="two_body", station_keeping=True, events=ev, seed=11,
        geopotential={"model": "egm96.txt", "degree": 2 if cheap else 4, "order": 0 if cheap else 4},
        perturbations={"third_bodies": [] if cheap else ["sun", "moon"], "solar_radiation_pressure": not cheap,
                       "general_relativity": False},
    )
    return cfg


def _variants(n_steps):
    """name -> (config, run plan).  run plan: list of cumulative step counts for consecutive propagateTo calls."""
    base = _base(n_steps)
    out = {}

    def var(name, fn, plan=None, exclude=()):
        cfg = copy.deepcopy(base)
        fn(cfg)
        out[name] = (cfg, plan or [n_steps], tuple(exclude))

    def sf(cfg):
        return cfg["estimation"]["sequential_filter"]

    var("truth_only", lambda c: c["propagation"].update(truth_simulation_only=True))
    var("filter_alpha", lambda c: sf(c).update(alpha=0.5, beta=0.0))
    var("filter_resample", lambda c: sf(c).update(resample=True))
    var("filter_dynamics_sp", lambda c: sf(c).update(dynamics_model="special_perturbations"))
    var("maneuver_detection", lambda c: sf(c).update(maneuver_detection={"name": "standard_nis", "threshold": 0.5}))
    var("save_filter_steps", lambda c: sf(c).update(save_filter_steps=True))
    var("reward_cost_constrained", lambda c: c["engines"][0]["reward"].update(
        name="CostConstrainedReward",
        metrics=[{"name": "ShannonInformation", "parameters": {}}, {"name": "LyapunovStability", "parameters": {}},
                 {"name": "SlewDistanceMinimization", "parameters": {}}]))
    var("decision_greedy", lambda c: c["engines"][0]["decision"].update(name="MyopicNaiveGreedyDecision"))
    var("decision_random", lambda c: c["engines"][0].update(decision={"name": "RandomDecision", "seed": 4}))

    def noisy(c):
        for s in c["engines"][0]["sensors"]:
            s["sensor"]["covariance"] = (np.array(s["sensor"]["covariance"]) * 100.0).tolist()

    var("sensor_noise_x100", noisy)

    def masks(c):
        s = c["engines"][0]["sensors"][0]["sensor"]
        s["field_of_view"] = {"fov_shape": "rectangular", "azimuth_angle": 4.0, "elevation_angle": 2.0}
        s["elevation_range"] = [20.0, 80.0]
        s["slew_rate"] = 0.2

    var("sensor_fov_masks", masks)
    var("random_seed", lambda c: c["noise"].update(random_seed=99))
    var("init_error_large", lambda c: c["noise"].update(init_position_std_km=5.0))
    var("output_300", lambda c: c["time"].update(output_step_sec=300))
    var("output_420", lambda c: c["time"].update(output_step_sec=420))
    # output steps that are NOT multiples of the physics step (gcd < physics step): the physics step stays what it is
    var("output_90", lambda c: c["time"].update(output_step_sec=90))
    var("output_100", lambda c: c["time"].update(output_step_sec=100))

    # an estimate that sits within centimetres of the truth and uses the same force model: anything the force model
    # remembers between calls (per field point, per epoch) then leaks from the filter's jobs into the truth's
    def tight_sp_filter(c):
        sf(c).update(dynamics_model="special_perturbations")
        c["noise"].update(init_position_std_km=1e-5, init_velocity_std_km_p_sec=1e-8)

    var("filter_sp_tight_prior", tight_sp_filter)

    # ... the same with target 10001 as the ONLY target (no additions either): its estimate's jobs are then the last to
    # run before its own next truth job, so nothing else overwrites what the force model may remember
    def single_target_tight(c):
        tight_sp_filter(c)
        c["engines"][0]["targets"] = [t for t in c["engines"][0]["targets"] if t["id"] == 10001]
        c["events"] = [e for e in c["events"] if e["event_type"] == "impulse" and e["scope_instance_id"] == 10001]

    var("single_target_sp_tight_prior", single_target_tight)
    var("no_background", lambda c: c.update(observation={"background": False, "realtime_observation": True}))
    var("no_realtime_observation", lambda c: c.update(observation={"background": True, "realtime_observation": False}))
    for a in range(1, n_steps):
        var(f"split_{a}", lambda c: None, plan=[a, n_steps])
    var("split_every_step", lambda c: None, plan=list(range(1, n_steps + 1)))

    def extra_target(c):
        c["engines"][0]["targets"].append(scen.target_eci(10003, *scen.overhead_orbit(START, 12.0, 18.0, 900.0, 45.0)))

    var("extra_target", extra_target)
    var("removed_target", lambda c: c["engines"][0]["targets"].pop(2))
    def removed_twin(c):
        c["engines"][0]["targets"].pop(0)
        c["events"] = [e for e in c["events"] if e.get("scope_instance_id") != 10000]

    var("removed_twin", removed_twin)
    # other agents' own physical parameters / position in the configuration must not leak into anybody's truth
    var("reordered_targets", lambda c: c["engines"][0]["targets"].reverse())
    var("reordered_sensors", lambda c: c["engines"][0]["sensors"].reverse())

    def heavy_twin(c):
        c["engines"][0]["targets"][0]["platform"].update(mass=12.0, visual_cross_section=40.0, reflectivity=0.9)

    var("twin_other_area_to_mass", heavy_twin, exclude=(10000,))  # the twin's own truth legitimately changes

    def first_target_geo(c):
        c["engines"][0]["targets"].insert(0, scen.target_eci(9990, *scen.overhead_orbit(START, -3.0, 100.0, 35786.0, 90.0)))

    var("extra_first_target_geo", first_target_geo)
    var("extra_sensor", lambda c: c["engines"][0]["sensors"].append(scen.ground_sensor(20003, 12.0, 27.0)))
    var("removed_sensor", lambda c: c["engines"][0]["sensors"].pop(1))

    # membership changes WHILE THE RUN IS IN PROGRESS (events handled by Scenario.removeTarget / removeSensor /
    # addSensor / addTarget): the remaining agents' truth must not notice
    def _at(k):
        return scen.iso(START + timedelta(seconds=k * DT))

    def ev_remove(agent_id, agent_type, k):
        def fn(c):
            # (maneuvers scheduled for the agent after its removal are dropped: an event for an agent that no longer exists
            # is an inconsistent configuration, not this property's subject)
            c["events"] = [e for e in c["events"] if not (e.get("scope_instance_id") == agent_id and e["start_time"] >= _at(k))]
            c["events"].append({
                "scope": "scenario_step", "scope_instance_id": 0, "start_time": _at(k), "event_type": "agent_removal",
                "tasking_engine_id": 1, "agent_id": agent_id, "agent_type": agent_type})
        return fn

    var("event_remove_geo_target_step3", ev_remove(10002, "target", 3))
    var("event_remove_twin_step2", ev_remove(10000, "target", 2))
    var("event_remove_first_added_target_step3", ev_remove(10006, "target", 3))
    var("event_remove_space_sensor_step3", ev_remove(20002, "sensor", 3))
    var("event_remove_ground_sensor_step1", ev_remove(20001, "sensor", 1))
    var("event_add_ground_sensor_step2", lambda c: c["events"].append({
        "scope": "scenario_step", "scope_instance_id": 0, "start_time": _at(2), "event_type": "sensor_addition",
        "tasking_engine_id": 1, "sensor_agent": scen.ground_sensor(20000, 12.0, 27.0)}))
    var("event_add_space_sensor_step1", lambda c: c["events"].append({
        "scope": "scenario_step", "scope_instance_id": 0, "start_time": _at(1), "event_type": "sensor_addition",
        "tasking_engine_id": 1, "sensor_agent": scen.space_sensor(20009, [0.0, 7400.0, 100.0], [-5.2, 0.0, 5.2], kind="optical")}))
    var("event_add_first_target_geo_step2", lambda c: c["events"].append({
        "scope": "scenario_step", "scope_instance_id": 0, "start_time": _at(2), "event_type": "target_addition",
        "tasking_engine_id": 1, "target_agent": scen.target_eci(9990, *scen.overhead_orbit(START, -3.0, 100.0, 35786.0, 90.0))}))

    def second_engine(c):
        c["engines"].append(scen.engine(2, [scen.target_eci(10004, *scen.LEO_B)], [scen.ground_sensor(20004, -20.0, 60.0)]))

    var("second_engine", second_engine)
    # placeholder: the configuration is completed in run_item from the base run (needs 10000's state after step 1)
    var("late_twin", lambda c: None, exclude=())
    # sensors follow an importer database (completed in run_item: the database is written by a two-body run of the
    # same network first and ALSO holds rows for the targets): the targets are still propagated by the run itself
    var("sensors_imported", lambda c: c["propagation"].update(sensor_realtime_propagation=False), exclude=(20001, 20002))

    # a second engine that lists target 10001 again: with the identical state that is legal and changes nobody's truth ...
    def shared_same(c):
        c["engines"].append(scen.engine(2, [copy.deepcopy(c["engines"][0]["targets"][1])], [scen.ground_sensor(20004, -20.0, 60.0)]))

    var("second_engine_shared_target_same_state", shared_same)

    # ... with a slightly different state (rounded to 1 cm, or to 10 m) the configuration must be refused, not merged
    def shared_other(digits):
        def fn(c):
            t = copy.deepcopy(c["engines"][0]["targets"][1])
            t["state"]["position"] = [round(x, digits) for x in t["state"]["position"]]
            c["engines"].append(scen.engine(2, [t], [scen.ground_sensor(20004, -20.0, 60.0)]))
        return fn

    var("second_engine_shared_target_other_state_1cm", shared_other(5))
    var("second_engine_shared_target_other_state_10m", shared_other(2))
    return base, out


def _run(cfg, plan, choices=()):
    """``_run_here`` in a forked child: every run starts from the same process image, like a fresh Ray cluster, so
    module-level state a run leaves behind (caches keyed on epochs, class-level queues) cannot leak into - or mask a
    dependence in - the run it is compared with.  Within one run all jobs share the process, like one Ray worker."""
    import os  # noqa: PLC0415
    import pickle  # noqa: PLC0415

    rfd, wfd = os.pipe()
    pid = os.fork()
    if pid == 0:  # child
        code = 0
        try:
            os.close(rfd)
            out = _run_here(cfg, plan, choices)
            with os.fdopen(wfd, "wb") as fh:
                pickle.dump(out, fh, protocol=4)
        except BaseException as exc:  # noqa: BLE001
            code = 3
            try:
                with os.fdopen(wfd, "wb") as fh:
                    pickle.dump({"truth": [], "est": [], "rows": {}, "error": f"child: {type(exc).__name__}: {exc}", "n_obs": 0,
                                 "n_est": 0, "trace": []}, fh, protocol=4)
            except Exception:  # noqa: BLE001, S110
                pass
        os._exit(code)
    os.close(wfd)
    with os.fdopen(rfd, "rb") as fh:
        data = fh.read()
    os.waitpid(pid, 0)
    return pickle.loads(data)


def _run_here(cfg, plan, choices=()):
    """Run through the public propagateTo API in the consecutive calls of ``plan``; record truth bytes per step."""
    fakeray.MEMO_ENABLED = False
    cfg = dict(cfg)
    db_path, importer = cfg.pop("_db_path", None), cfg.pop("_importer", None)  # private keys of this check
    sc = scen.build(cfg, db_path=db_path, importer_db_path=f"sqlite:///{importer}" if importer else None)
    fakeray.set_schedule(list(choices))
    truth = []  # per step: {agent id: bytes}
    other = []
    orig = sc.stepForward

    def wrapped():
        orig()
        agents = {**sc.target_agents, **sc.sensor_agents}
        truth.append({aid: np.asarray(a.eci_state, dtype=float).tobytes() for aid, a in agents.items()})
        other.append({aid: np.asarray(e.state_estimate, dtype=float).tobytes() for aid, e in sc.estimate_agents.items()})

    sc.stepForward = wrapped
    err = None
    try:
        for upto in plan:
            sc.propagateTo(datetimeToJulianDate(START + timedelta(seconds=upto * DT)))
    except Exception as exc:  # noqa: BLE001
        err = f"{type(exc).__name__}: {exc}"
    rows = {}
    with sc.database.engine.connect() as conn:
        for r in conn.execute(text("SELECT agent_id, julian_date, pos_x_km, pos_y_km, pos_z_km, vel_x_km_p_sec, vel_y_km_p_sec, vel_z_km_p_sec FROM truth_ephemerides")):
            rows[(int(r[0]), float(r[1]))] = tuple(float(x) for x in r[2:])
        n_obs = conn.execute(text("SELECT count(*) FROM observations")).scalar()
        n_est = conn.execute(text("SELECT count(*) FROM estimate_ephemerides")).scalar()
    return {"truth": truth, "est": other, "rows": rows, "error": err, "n_obs": n_obs, "n_est": n_est,
            "trace": list(fakeray.SCHED.trace)}


def _compare(res, name, base, run, nontrivial, item, kind="variant", exclude=()):
    case = {"pair": name, "kind": kind}
    if run["error"] or base["error"]:
        res.violate(f"{kind}/run_error", case, signature=f"C10/{kind}/run_error", observed=run["error"] or base["error"], item=item)
        return
    ok_len = len(run["truth"]) == len(base["truth"])
    first = None
    for k, (a, b) in enumerate(zip(base["truth"], run["truth"])):
        for aid in sorted((set(a) & set(b)) - set(exclude)):
            if a[aid] != b[aid]:
                first = (k + 1, aid, np.frombuffer(a[aid]).tolist(), np.frombuffer(b[aid]).tolist())
                break
        if first:
            break
    res.case(
        f"{kind}/truth_per_step",
        case,
        ok_len and first is None,
        nontrivial=nontrivial,
        key=name,
        signature=f"C10/{kind}/truth_differs/{name.split('_')[0] if kind == 'variant' else 'order'}",
        observed={"steps": len(run["truth"]), "first_difference": first},
        expected={"steps": len(base["truth"]), "bit_identical": True},
        outcome="identical" if (ok_len and first is None) else "differs",
        item=item,
    )
    common = {k for k in set(base["rows"]) & set(run["rows"]) if k[0] not in exclude}
    bad = [k for k in sorted(common) if base["rows"][k] != run["rows"][k]]
    res.case(
        f"{kind}/truth_rows",
        {**case, "common_rows": len(common)},
        not bad and len(common) > 0,
        signature=f"C10/{kind}/truth_rows_differ",
        observed={"first": bad[:1], "n": len(bad), "common": len(common)},
        item=item,
    )
    res.observe([sorted((aid, v) for aid, v in step.items()) for step in run["truth"]])


def items(tier, seed):
    n = 6 if tier == "quick" else 24
    base, variants = _variants(n)
    out = [("variant", name, n) for name in variants]
    n_ord = 2 if tier == "quick" else 3
    # one item per job batch of the default run (5 batches per step: propagate, predict, reward, task, update);
    # indices beyond the actual number of batches are empty items
    out += [("orders", "base", n_ord, b) for b in range(5 * n_ord + 2)]
    return out


def bounds(tier, seed):
    n = 6 if tier == "quick" else 24
    return {"steps": n, "variants": sorted(_variants(n)[1]), "orders_steps": 2 if tier == "quick" else 3}


_BASE_CACHE = {}


def _base_run(n):
    if n not in _BASE_CACHE:
        base, _ = _variants(n)
        _BASE_CACHE[n] = _run(base, [n])
    return _BASE_CACHE[n]


def run_item(item):
    res = fw.Result()
    kind, name, n = item[0], item[1], item[2]
    if kind == "variant":
        base_cfg, variants = _variants(n)
        cfg, plan, exclude = variants[name]
        b = _base_run(n)
        if name == "late_twin":
            # a target added DURING the run (event in step 2, so it is created at the epoch of step 1) with exactly the
            # state target 10000 has at that epoch: same dynamics + same state at the same epoch => same truth, bit for
            # bit, at every later step - whatever moment of the run the agent's dynamics object was built at
            x = np.frombuffer(b["truth"][0][10000]).tolist()
            cfg["events"].append({
                "scope": "scenario_step", "scope_instance_id": 0, "start_time": scen.iso(START + timedelta(seconds=2 * DT)),
                "event_type": "target_addition", "tasking_engine_id": 1, "target_agent": scen.target_eci(10009, x[:3], x[3:]),
            })
            # ... and it performs the maneuvers 10000 performs after that epoch
            for e in list(cfg["events"]):
                if e.get("scope_instance_id") == 10000 and e["event_type"] == "impulse" and e["start_time"] > scen.iso(START + timedelta(seconds=DT)):
                    cfg["events"].append({**e, "scope_instance_id": 10009})
        tmpdir = None
        if name == "sensors_imported":
            import shutil  # noqa: PLC0415
            import tempfile  # noqa: PLC0415

            tmpdir = tempfile.mkdtemp(prefix="verif_c10_")
            src = copy.deepcopy(base_cfg)
            src["propagation"].update(propagation_model="two_body", truth_simulation_only=True)
            src["_db_path"] = f"{tmpdir}/importer.sqlite3"
            made = _run(src, [n])
            res.case("variant/importer_written", {"pair": name}, made["error"] is None and len(made["rows"]) > 0,
                     signature="C10/variant/importer_source_run_failed", observed=made["error"], item=item)
            cfg["_importer"] = src["_db_path"]
        r = _run(cfg, plan)
        if tmpdir:
            shutil.rmtree(tmpdir, ignore_errors=True)
        if name.startswith("second_engine_shared_target_other_state"):
            refused = bool(r["error"]) and "DuplicateTarget" in r["error"] and not r["truth"]
            res.case("variant/conflicting_target_states_refused", {"pair": name}, refused, nontrivial=True, key=name,
                     signature="C10/variant/conflicting_target_states_accepted", observed={"error": r["error"], "steps": len(r["truth"])},
                     expected="DuplicateTargetError at build time", item=item)
            res.states += 1
            res.traces += 1
            return res
        if name == "late_twin" and not r["error"]:
            bad = [(k + 1, np.frombuffer(st[10000]).tolist(), np.frombuffer(st.get(10009, b"")).tolist())
                   for k, st in enumerate(r["truth"]) if k >= 1 and st.get(10009) != st[10000]]
            res.case("variant/late_twin_identical", {"pair": name, "twin_of": 10000, "added_in_step": 2},
                     not bad and len(r["truth"]) >= 3, nontrivial=True, key="late_twin_identical",
                     signature="C10/variant/late_twin_differs", observed=bad[:1],
                     expected="bit-identical truth of 10009 and 10000 from step 2 on", item=item)
        # non-trivial iff the variant changes something other than truth (or is a split / membership change)
        changes_other = (r["n_obs"] != b["n_obs"] or r["n_est"] != b["n_est"] or r["est"] != b["est"]
                         or len(r["rows"]) != len(b["rows"]) or name.startswith("split"))
        res.case("variant/changes_something", {"pair": name}, True, outcome="changes_non_truth" if changes_other else "no_visible_change")
        _compare(res, name, b, r, changes_other, item, exclude=exclude)
        res.states += len(r["truth"]) + 1
        res.transitions += len(r["truth"])
        res.traces += 1
        return res
    # all completion orders of every batch of the base network (truth bytes only)
    # the schedule exploration uses the J2-only force model of the same network: every schedule is a full
    # un-memoised run in its own process, and the completion order cannot interact with which perturbations are on
    base_cfg = _base(max(n, 4), cheap=True)
    b = _run(base_cfg, [n])
    # batch structure from the default trace: consecutive decision points with decreasing n form one batch
    trace = b["trace"]
    batches, i = [], 0
    while i < len(trace):
        nn = trace[i][0]
        j = i
        while j < len(trace) and trace[j][0] == nn - (j - i) and trace[j][0] >= 2:
            j += 1
        batches.append((i, nn))
        i = j
    only = item[3] if len(item) > 3 else None
    res.extra["order_batches_in_default_run"] = len(batches) if only in (None, 0) else 0
    for bidx, (start, nn) in enumerate(batches):
        if only is not None and bidx != only:
            continue
        limit = None if nn <= 4 else 1
        if limit:
            res.cap(f"batch of {nn}: orders with <=1 inversion (adjacent swaps)")
        for code in sched.lehmer_codes(nn, max_sum=limit):
            if not any(code):
                continue
            r = _run(base_cfg, [n], choices=[0] * start + list(code))
            label = f"batch@{start}:{''.join(map(str, code))}"
            _compare(res, label, b, r, True, ("orders", "base", n, bidx), kind="orders")
            res.transitions += nn
            res.traces += 1
    res.states += n + 1
    return res
