"""C02 - reported observations satisfy all sensor constraints; misses state a true reason.

Sensors are built directly from their configuration and through the sensor_addition event round trip (families A-F with
a trailing ``event0`` / ``event60`` in the work item); family M replays multi-step pointing histories of real Scenarios
with two and three tasking engines.

Lattice explorer driving the real ``Sensor.collectObservations`` of real Optical / Radar / AdvRadar sensors (built by
``sensorFactory`` from the pydantic configs) hosted on real ``SensingAgent`` objects (``SensingAgent.fromConfig`` +
``dynamicsFactory`` + a real ``ScenarioClock``) against real ``TargetAgent`` objects.  Every announced lattice is
enumerated completely; ``VERIF_SEED`` only shifts the phase of the regular azimuth fill and of the position angles.
The reference is ``verif/oracles/c02_geom.py`` (independent geometry, returns the set of failing constraints).
"""
from __future__ import annotations

import math
import warnings
from datetime import datetime, timedelta

import numpy as np

from verif import framework as fw
from verif import scen  # installs the in-process fake ray before resonaate is imported
from verif.oracles import c02_geom as og
from verif.oracles import visgeom as vg

import ray  # the fake one  # noqa: E402
from resonaate.agents.estimate_agent import EstimateAgent  # noqa: E402
from resonaate.agents.sensing_agent import SensingAgent  # noqa: E402
from resonaate.agents.target_agent import TargetAgent  # noqa: E402
from resonaate.data import setDBPath  # noqa: E402
from resonaate.data.observation import MissedObservation, Observation  # noqa: E402
from resonaate.dynamics import dynamicsFactory  # noqa: E402
from resonaate.parallel.tasking_execution import TaskExecutionSubmission, asyncExecuteTasking  # noqa: E402
from resonaate.physics import measurements as rmeas  # noqa: E402
from resonaate.physics import sensor_utils as rsu  # noqa: E402
from resonaate.physics.bodies.third_body import Sun  # noqa: E402
from resonaate.physics.time.stardate import ScenarioTime  # noqa: E402
from resonaate.physics.transforms.methods import ecef2eci, eci2ecef, lla2eci  # noqa: E402
from resonaate.scenario.clock import ScenarioClock  # noqa: E402
from resonaate.scenario.config import ScenarioConfig  # noqa: E402
from resonaate.scenario.config.agent_config import AgentConfig, SensingAgentConfig  # noqa: E402
from resonaate.tasking.predictions import predictObservation  # noqa: E402

warnings.filterwarnings("ignore")

PROPERTY = "C02"
LEVEL = "model_checking"
RULE = (
    "one case = one tasked attempt: a real collectObservations call of a real sensor on a real SensingAgent at an "
    "epoch, with an estimate (commanded pointing), a primary TargetAgent, 0-2 background TargetAgents, a prior "
    "boresight / last-tasked time and a noise vector; all of it enumerated from the lattices in `bounds`: (A) sensor "
    "kind x host x az/el mask x range limits x target positions in the sensor's own horizon frame (azimuth fill, both "
    "sides of every mask end, north seam, horizon, zenith, range limits +-1 m); (B) FoV shape x pointing (north seam, south seam, quadrant edges, "
    "near zenith) x primary offset at {0.5,0.98,1.02} of the half widths x two background targets at 0.98/1.02; (C) "
    "slew rate x prior boresight (set, or carried over from a real previous tasking, or never tasked) x slew angle at "
    "{0,0.5,0.98,1.02,2} of rate*dt and 179.9 deg, with background targets; (D) radar parameters one at a time x target "
    "area x range at {0.5,0.999,1.001,2} of the detection range, default minimum range; (E) constructed threshold pairs "
    "-/+ delta for site darkness, umbra edge, limiting magnitude, galactic and Sun exclusion cones, Earth-limb cone, "
    "grazing sight lines of space sensors; (F) noise vector in {0,+-e_i} x diagonal/correlated covariance; (G) "
    "Measurement classes and helpers, Observation.fromMeasurement, predictObservation on a real EstimateAgent, "
    "asyncExecuteTasking through the in-process ray for 1-2 tasked sensors (10 deg cone and / or 20x10 deg rectangle, "
    "both orders) x 8 pointing errors of the estimate (inside both fields of view / inside one / outside both / straight "
    "at a background target) and a job without sensors, so that the job results cover every outcome mix {all observed, "
    "all missed, observed by one sensor and missed by the other, primary missed + background observed, empty}; each of "
    "these real TaskExecutionResult objects is then merged by the real TaskExecutionRegistration.processResults into a "
    "real CentralizedTaskingEngine (alternately fresh / already holding the previous job of the step) and handed to the "
    "database the way Scenario.saveDatabaseOutput does, and clause (ii) - every tasked sensor has exactly one record of "
    "the primary target, observation xor miss, the miss reason failing in the oracle - is asserted on the engine's lists "
    "and on the observations / missed_observations rows; (H) sensor clock bias; (S) real Scenarios stepped one step at "
    "a time: 3 sensors x 3 targets under Munkres (wide / narrow field of view), 3-4 sensors of 60 / 0.5 deg field of "
    "view all tasked on one poorly estimated (60 km) target under the greedy decision without / with a background "
    "target / with database output every second step, and one narrow sensor whose background target flies where the "
    "primary is believed to be; after every step each pair of the engine's decision matrix must have exactly one record "
    "in engine.observations xor engine.missed_observations, at the end each tasks row with the decision set and each "
    "decision-matrix pair of each step exactly one row in observations xor missed_observations (and no miss row without "
    "a tasked attempt), each row judged by the oracle on the truth states; (X) the sensor of families A, B, C, D, E "
    "(limiting magnitude) and F is also created THROUGH THE EVENT ROUND TRIP - configuration -> SensorAdditionEventConfig "
    "-> SensorAdditionEvent.fromConfig -> events row (+ AgentModel dependency) -> handleRelevantEvents of the step "
    "window -> handleEvent -> Scenario.addSensor, handled at scenario time 0 or 60 s - for every sensor kind on ground "
    "and space hosts x azimuth masks that wrap through north (20 / 120 / 260 deg wide) or do not x elevation masks x "
    "range limits x conic / rectangular fields of view x slew rates x every radar parameter variant x limiting "
    "magnitudes x correlated covariances; the oracle's constraints come from the requested configuration, never from "
    "the live sensor, the same lattices judge every observation and miss reason, and every configured constraint is "
    "compared after the round trip (against the configuration and, attribute by attribute, against a twin built "
    "directly); (M) real Scenarios with two and three tasking engines in every engine order (the engine of a sensor "
    "first / middle / last), one or two sensors per engine, a sensor joining a non-last engine through a "
    "sensor_addition event (wrapping mask), slew rates of 12 and 21 deg per step on belts of geostationary targets "
    "spaced ~10 deg on the sensor's sky plus one 55 deg away, stepped one step at a time for 6 (quick) / 10 steps: the "
    "oracle replays the pointing history of every sensor from the records of every step (decision matrices, engine "
    "observation / miss lists, predicted estimates, truth states); after every step boresight and time_last_tasked of "
    "every SensingAgent must be those of its last feasible tasked attempt (unchanged when idle or refused), every "
    "reported observation must pass every constraint including reachability from the replayed previous pointing within "
    "slew_rate x elapsed time, every miss must state a failing constraint, and the database rows must be the records of "
    "the steps. Every returned record is compared with the independent oracle's failing-constraint set. "
    "non-trivial = some constraint margin of the primary or a background target is within 5 % of its scale (2 deg for "
    "mask / cone angles, 5 % of the FoV half width, 5 % of the range, 20 % of the received power, 0.1 mag, 2 solar radii "
    "from the umbra edge, 100 km sight-line clearance), or the slew is infeasible, or a background target is present, "
    "or the noise vector is non-zero; API-level cases (G, H, S) are non-trivial when they exercise a seam, the zenith, "
    "a permuted label order, a rejected prediction, a multi-sensor job, a merged job result, a tasked attempt of a "
    "Scenario step, an attribute of a sensor after the event round trip or a sensor-step of a multi-engine pointing "
    "history; distinct by construction (lattice points)."
)
ASSUMPTIONS = [
    "inertial -> Earth-fixed rotation (eci2ecef / ecef2eci) is the library's (subject of C04); the horizon frame, "
    "geodetic latitude and every angle are recomputed by the oracle",
    "Sun position is Sun.getPosition (JPL kernel lookup, not a C02 anchor) evaluated at the oracle's own Julian date",
    "line of sight: spherical Earth of the equatorial radius as documented; an end point inside that sphere (ground "
    "site off the equator) is never counted as buried by itself: the sphere through the lower end point is used",
    "Earth-limb and site-darkness rules: geocentric and geodetic vertical differ by the deflection of the vertical "
    "(<= 0.2 deg); inputs between the two readings are classified either-way; Sun exclusion of space sensors: Sun "
    "direction from sensor or from target (parallax <= 7e-4 rad) likewise",
    "at the zenith (horizontal part < 1e-7 of the range) the azimuth may come from the velocity (Vallado Alg. 27): both "
    "values are admitted",
    "elevation_range is order independent (as documented in SensorConfigBase)",
    "the library's geodetic latitude (ecef2lla, C04) is right to 1e-10 rad (measured <= 5.4e-12 on the hosts used)",
    "inputs within the derived rounding band of a threshold are classified either-way (bands in c02_geom.py)",
    "a sensor that joins at scenario time t has a slew budget that starts at t (it was not tasked before it existed)",
    "multi-engine histories: the commanded pointing of a tasked attempt is the filter's predicted state of that step "
    "(UnscentedKalmanFilter.pred_x, what the engine hands to the job as the estimate); 'no limit' range settings are "
    "spelt None, 0 km or infinity",
]
EXPECT_MIN_NONTRIVIAL = 10000

DEG = math.pi / 180.0
MU = 398600.4415

# measurement tolerances: angles 1e-9 rad (geodetic latitude by two different algorithms agrees to ~1e-13 rad, rotations
# to 1e-15; an epoch error of 1 ms would be 7e-8 rad, of 1 s 7e-5 rad); range 1e-6 km (norm of a 1e5 km difference of
# doubles: 1e-11 km); range rate 1e-9 km/s.  Smallest defect to expose: 1 ms epoch slip (7e-8 rad) -> >= 70x margin;
# index / sign / wrap defects are >= 1e-3.
TOL = {"azimuth_rad": 1e-9, "elevation_rad": 1e-9, "range_km": 1e-6, "range_rate_km_p_sec": 1e-9}
ANGULAR = {"azimuth_rad", "elevation_rad"}
LABELS = {
    "optical": ["azimuth_rad", "elevation_rad"],
    "radar": ["azimuth_rad", "elevation_rad", "range_km", "range_rate_km_p_sec"],
    "adv_radar": ["azimuth_rad", "elevation_rad", "range_km", "range_rate_km_p_sec"],
}
TYPE_STRING = {"optical": "Optical", "radar": "Radar", "adv_radar": "AdvRadar"}
# IsAngle: azimuth is an angle on [0, 2 pi), elevation on [-pi, pi), range and range rate are not angles
ANGLE_KINDS = [int(rmeas.IsAngle.ANGLE_0_2PI), int(rmeas.IsAngle.ANGLE_NEG_PI_PI), int(rmeas.IsAngle.NOT_ANGLE),
               int(rmeas.IsAngle.NOT_ANGLE)]

# non-diagonal (correlated) covariances exercise sqrtm(R) beyond an element-wise square root
OPT_COV_FULL = [[4.0e-10, 1.5e-10], [1.5e-10, 2.5e-10]]
RADAR_COV_FULL = [
    [4.0e-10, 1.0e-10, 2.0e-8, 0.0],
    [1.0e-10, 9.0e-10, 0.0, 1.0e-9],
    [2.0e-8, 0.0, 1.0e-4, 2.0e-7],
    [0.0, 1.0e-9, 2.0e-7, 4.0e-8],
]

RADAR_DEFAULT = {"tx_power": 2.5e6, "tx_frequency": 1.5e9, "min_detectable_power": 1.4314085925969573e-14,
                 "aperture_diameter": 27.0, "efficiency": 0.9}

# ------------------------------------------------------------------------------------------------ hosts and epochs
GROUND = {
    "eq": (0.0, 0.0, 0.1),
    "mid": (45.0, -120.0, 0.1),
    "south": (-70.0, 179.9, 0.1),
    "polar": (89.9, 0.0, 0.1),
    "s30": (-30.0, 0.0, 0.1),
}
SPACE = {
    "leo_eq": ([7000.0, 0.0, 0.0], [0.0, 7.546049108166282, 0.0]),
    "leo_inc": ([4500.0, 1200.0, 5200.0], [-4.3, 5.7, 2.4058]),
    "geo": ([42164.0, 0.0, 0.0], [0.0, 3.0746, 0.0]),
}
# start instants have a non-zero second (a truncating calendar conversion shows as a 1 s epoch slip)
EPOCHS = {
    "day": datetime(2021, 3, 30, 20, 0, 1),  # local noon at lon -120
    "night": datetime(2021, 3, 30, 8, 0, 37),  # local midnight at lon -120
    "aug": datetime(2021, 8, 1, 21, 0, 1),  # evening at lon 0: galactic centre up, anti-Sun 45 deg away
    "dec": datetime(2021, 12, 18, 3, 30, 59),
}
T_OBS = 120.0
DT_STEP = 60.0


def _host_of(name):
    if name in GROUND:
        lat, lon, alt = GROUND[name]
        return ("ground", lat, lon, alt)
    if isinstance(name, (list, tuple)):
        return tuple(name)
    return ("space", name)


# ------------------------------------------------------------------------------------------------ world
class World:
    """One real sensing agent (sensor built by sensorFactory) on a real clock, plus a pool of real target agents."""

    def __init__(self, kind, host, epoch, over=None, t_obs=T_OBS, pool=3, estimate=False, via=None):
        over = dict(over or {})
        self.kind, self.host, self.over, self.via = kind, host, over, via
        self.start = epoch if isinstance(epoch, datetime) else EPOCHS[epoch]
        scen.fresh()
        setDBPath("sqlite://")
        self.clock = ScenarioClock(self.start, 10 * DT_STEP, DT_STEP)
        # scenario time at which the sensing agent comes into being (0 unless a sensor_addition event is handled later)
        self.t_origin = float(VIA[via]) if via else 0.0
        base = scen.config(self.start, 10, [scen.engine(1, [scen.target_eci(10001, *scen.LEO_A)],
                                                        [scen.ground_sensor(20001, 10.0, 20.0)])], physics=int(DT_STEP))
        self.scfg = ScenarioConfig(**base)
        fov = over.pop("fov", ("conic", 10.0))
        fov_cfg = ({"fov_shape": "conic", "cone_angle": fov[1]} if fov[0] == "conic"
                   else {"fov_shape": "rectangular", "azimuth_angle": fov[1], "elevation_angle": fov[2]})
        h = _host_of(host)
        sensor_over = {}
        for key in ("azimuth_range", "elevation_range", "slew_rate", "minimum_range", "maximum_range",
                    "background_observations", "covariance", "tx_power", "tx_frequency", "min_detectable_power",
                    "aperture_diameter", "efficiency", "detectable_vismag"):
            if key in over:
                sensor_over[key] = over[key]
        if h[0] == "ground":
            cfg = scen.ground_sensor(20001, h[1], h[2], alt=h[3], kind=kind, fov=fov_cfg, **sensor_over)
        else:
            pos, vel = SPACE[h[1]]
            cfg = scen.space_sensor(20001, pos, vel, kind=kind, fov=fov_cfg)
            cfg["sensor"].update(sensor_over)
        self.sensor_cfg = cfg["sensor"]
        self.agent_cfg = cfg
        sen_cfg = SensingAgentConfig(**cfg)
        prop = self.scfg.propagation
        if via:
            self.sa = _agent_through_event(self, cfg)
        else:
            dyn = dynamicsFactory(sen_cfg, prop, self.scfg.geopotential, self.scfg.perturbations, self.clock)
            self.sa = SensingAgent.fromConfig(sen_cfg, self.clock, dyn, prop)
        self.sensor = self.sa.sensors
        self.space = h[0] == "space"
        # the oracle's view of the sensor: taken from the configuration that was requested, never from the object
        sc = self.sensor_cfg
        self.spec = {
            "kind": kind,
            "space": self.space,
            "az_mask": list(sc["azimuth_range"]),
            "el_mask": list(sc["elevation_range"]),
            "fov": tuple(fov),
            "slew_rate": sc["slew_rate"],
            "max_range": sc.get("maximum_range"),
        }
        if kind == "optical":
            self.spec["min_range"] = sc.get("minimum_range", 0.0) if sc.get("minimum_range") is not None else 0.0
            self.spec["detectable_vismag"] = sc.get("detectable_vismag", 25.0)
        else:
            freq = sc["tx_frequency"]
            if isinstance(freq, str):
                freq = BAND_CENTRE[freq]
            self.spec.update(tx_power=sc["tx_power"], tx_frequency=freq, min_detectable_power=sc["min_detectable_power"],
                             diameter=sc["aperture_diameter"], efficiency=sc["efficiency"])
            mr = sc.get("minimum_range")
            # documented default: half a wavelength ("minimum unambiguous range")
            self.spec["min_range"] = mr if mr is not None else (og.C_LIGHT / freq / 2.0) / 1000.0
        self.background_flag = bool(sc.get("background_observations", False))
        # pool of real target agents with different optical/radar properties
        self.targets = []
        props = [(10.0, 0.21), (25.0, 0.3), (0.05, 0.1)]
        for k in range(pool):
            tc = scen.target_eci(10001 + k, *scen.LEO_A)
            tc["platform"].update(visual_cross_section=props[k % 3][0], reflectivity=props[k % 3][1], mass=100.0 + k)
            tcfg = AgentConfig(**tc)
            tdyn = dynamicsFactory(tcfg, prop, self.scfg.geopotential, self.scfg.perturbations, self.clock)
            self.targets.append(TargetAgent.fromConfig(tcfg, self.clock, tdyn, prop))
        self.tprops = [props[k % 3] for k in range(pool)]
        self.estimate = None
        if estimate:
            tc = scen.target_eci(10001, *scen.LEO_A)
            tc["platform"].update(visual_cross_section=props[0][0], reflectivity=props[0][1], mass=100.0)
            tcfg = AgentConfig(**tc)
            edyn = dynamicsFactory(tcfg, prop, self.scfg.geopotential, self.scfg.perturbations, self.clock)
            self.estimate = EstimateAgent.fromConfig(tcfg, self.clock, edyn, self.scfg.time, self.scfg.noise,
                                                     self.scfg.estimation)
        self.initial_boresight = np.array(self.sensor.boresight, dtype=float)
        self._frames = {}
        self.state0 = np.array(self.sa.eci_state, dtype=float)
        self.goto(t_obs)

    # -- move every agent to scenario time t the way the propagation step does (time first, then state)
    def goto(self, t):
        t = float(t)
        if t == self.t_origin:
            new = self.state0.copy()
        else:
            new = np.asarray(self.sa.dynamics.propagate(ScenarioTime(self.t_origin), ScenarioTime(t), self.state0), dtype=float)
        self.sa.time = ScenarioTime(t)
        self.sa.eci_state = new
        for tg in self.targets:
            tg.time = ScenarioTime(t)
        if self.estimate is not None:
            self.estimate.time = ScenarioTime(t)
        self.t = t
        self.utc = self.start + timedelta(seconds=t)
        if t not in self._frames:
            fr = og.Frame(new, self.utc, eci2ecef)
            sun = np.asarray(Sun.getPosition(og.julian_date(self.utc)), dtype=float).reshape(-1)[:3]
            self._frames[t] = (fr, sun)
        self.frame, self.sun = self._frames[t]

    def set_prior(self, boresight, t_last):
        self.sa.updateInfo({"boresight": np.array(boresight, dtype=float), "time_last_tasked": ScenarioTime(t_last)})

    # -- harness-side placement: ECI state of a point given in the sensor's own horizon frame
    def place(self, az_deg, el_deg, rho, vel=None):
        sez = vg.sez_from_azel(az_deg * DEG, el_deg * DEG, rho)[:3]
        if el_deg == 90.0:
            sez = [0.0, 0.0, rho]
        pos = self.frame.sez_to_eci_position(sez)
        return self.with_velocity(pos, vel)

    def place_dir(self, unit_eci, rho, vel=None):
        pos = self.frame.sensor_eci[:3] + rho * np.asarray(unit_eci, dtype=float)
        return self.with_velocity(pos, vel)

    @staticmethod
    def with_velocity(pos, vel=None):
        pos = np.asarray(pos, dtype=float)
        if vel is None:
            r = float(np.linalg.norm(pos))
            east = np.cross([0.0, 0.0, 1.0], pos)
            n = float(np.linalg.norm(east))
            east = east / n if n > 1e-9 * r else np.array([0.0, 1.0, 0.0])
            vel = math.sqrt(MU / max(r, 1.0)) * (0.96 * east + 0.05 * pos / r) + np.array([0.0, 0.0, 0.37])
        return np.concatenate([pos, np.asarray(vel, dtype=float)])


# ------------------------------------------------------------------------------------------------ event round trip
# how the sensing agent of a World comes into being: None = SensingAgent.fromConfig on the configuration itself (the way
# ScenarioBuilder builds the sensors of an engine's sensor set); "event0" / "event60" = through a `sensor_addition` event
# whose start time is one step after scenario time 0 / 60 s, i.e. the event is handled (Scenario.stepForward handles the
# SCENARIO_STEP events of the window (t, t + dt] before the clock ticks) while the clock shows 0 / 60 s.
VIA = {"event0": 0.0, "event60": 60.0}
ENGINE_ID = 1


def _agent_through_event(W, agent_cfg):
    """configuration -> SensorAdditionEventConfig -> SensorAdditionEvent.fromConfig (Event.concreteFromConfig) -> row of
    the events table (with its AgentModel dependency, inserted the way ScenarioBuilder._loadEventsIntoDatabase does) ->
    handleRelevantEvents(window of the step) -> SensorAdditionEvent.handleEvent -> Scenario.addSensor (on a Scenario
    object that has exactly what addSensor uses: the real clock, the scenario configuration, a real tasking engine) ->
    the live SensingAgent.  Everything between the configuration and the agent is the library's code."""
    import logging  # noqa: PLC0415

    from resonaate.data import getDBConnection  # noqa: PLC0415
    from resonaate.data.events import Event, EventScope, handleRelevantEvents  # noqa: PLC0415
    from resonaate.physics.time.stardate import datetimeToJulianDate  # noqa: PLC0415
    from resonaate.scenario.config.event_configs import SensorAdditionEventConfig  # noqa: PLC0415
    from resonaate.scenario.scenario import Scenario  # noqa: PLC0415
    from resonaate.tasking.decisions import decisionFactory  # noqa: PLC0415
    from resonaate.tasking.engine.centralized_engine import CentralizedTaskingEngine  # noqa: PLC0415
    from resonaate.tasking.rewards import rewardsFactory  # noqa: PLC0415

    while float(W.clock.time) < W.t_origin:
        W.clock.ticToc()
    prior = W.start + timedelta(seconds=W.t_origin)
    when = prior + timedelta(seconds=DT_STEP)
    ecfg = SensorAdditionEventConfig(scope="scenario_step", scope_instance_id=0, start_time=when, end_time=when,
                                     event_type="sensor_addition", tasking_engine_id=ENGINE_ID, sensor_agent=agent_cfg)
    db = getDBConnection()
    for dep in ecfg.getDataDependencies():
        if not db.getData(dep.query, multi=False):
            db.insertData(dep.createDependency())
    db.insertData(Event.concreteFromConfig(ecfg))
    eng_cfg = W.scfg.engines[0]
    engine = CentralizedTaskingEngine(ENGINE_ID, [], [10001], rewardsFactory(eng_cfg.reward), decisionFactory(eng_cfg.decision),
                                      None, True)
    sc = Scenario.__new__(Scenario)
    sc.clock = W.clock
    sc.scenario_config = W.scfg
    sc._sensor_agents = {}  # noqa: SLF001
    sc._tasking_engines = {ENGINE_ID: engine}  # noqa: SLF001
    handleRelevantEvents(sc, db, EventScope.SCENARIO_STEP, datetimeToJulianDate(prior), datetimeToJulianDate(when),
                         logging.getLogger("resonaate"))
    W.event_engine = engine
    W.event_agents = dict(sc._sensor_agents)  # noqa: SLF001
    if agent_cfg["id"] not in W.event_agents:
        raise EventLostError(f"agents after the event window: {sorted(W.event_agents)}")
    return W.event_agents[agent_cfg["id"]]


class EventLostError(RuntimeError):
    """The sensor_addition event was stored but its sensor did not appear in the scenario."""


def make_world(res, item, kind, host, epoch, over=None, via=None, **kw):
    """World factory of the lattice families: a sensor that comes through the event round trip is first compared with
    its configuration (check_roundtrip); returns None when the event produced no sensor."""
    try:
        W = World(kind, host, epoch, over, via=via, **kw)
    except EventLostError as exc:
        res.violate("event_roundtrip/added", {"fam": item[0], "kind": kind, "host": host, "via": via, "over": fw.jsonable(over or {})},
                    signature="C02/event_roundtrip/added", observed=str(exc), item=item)
        return None
    except Exception as exc:  # noqa: BLE001
        if not via:
            raise
        # a configuration that builds a sensor directly must also survive the event round trip
        res.violate("event_roundtrip/raised", {"fam": item[0], "kind": kind, "host": host, "via": via, "over": fw.jsonable(over or {})},
                    signature=f"C02/event_roundtrip/raised/{type(exc).__name__}", observed=f"{type(exc).__name__}: {exc}"[:400], item=item)
        return None
    if via:
        check_roundtrip(res, W, item, {"fam": item[0]})
    return W


def _via_of(item, n):
    """Optional trailing element of a work item: how the sensor is built (None = directly from its configuration)."""
    return item[n] if len(item) > n else None


def _flat(obj):
    """Plain comparable view of a sensor attribute (numbers, arrays, nested objects by their own attributes)."""
    if isinstance(obj, (bool, int, float, str)) or obj is None:
        return obj
    if isinstance(obj, (np.ndarray, list, tuple)):
        return [float(x) if isinstance(x, (int, float, np.floating, np.integer)) else _flat(x) for x in np.asarray(obj, dtype=object).reshape(-1)]
    if isinstance(obj, dict):
        return {str(k): _flat(v) for k, v in sorted(obj.items(), key=lambda kv: str(kv[0]))}
    if isinstance(obj, (np.floating, np.integer)):
        return float(obj)
    if hasattr(obj, "__dict__"):
        return {"__class__": type(obj).__name__, **{k: _flat(v) for k, v in sorted(vars(obj).items()) if k not in ("_host",)}}
    return repr(obj)


_NO_LIMIT = {"minimum_range": 0.0, "maximum_range": math.inf}


def check_roundtrip(res, W, item, ident):
    """Every configured constraint of a sensor that went through the event round trip is the configured one.

    Two independent readings: (a) the live sensor's constraint attributes against the requested configuration (units
    converted here), (b) attribute by attribute against a twin built directly from the same configuration with
    sensorFactory (the direct path is judged by the other families)."""
    from resonaate.sensors import sensorFactory  # noqa: PLC0415

    ident = dict(ident, via=W.via, kind=W.kind, host=W.host if isinstance(W.host, str) else list(W.host), over=fw.jsonable(W.over))
    sa = W.sa
    ok_added = sa is not None and list(W.event_agents) == [W.agent_cfg["id"]] and list(W.event_engine.sensor_list) == [W.agent_cfg["id"]]
    res.case("event_roundtrip/added", ident, ok_added, nontrivial=True, signature="C02/event_roundtrip/added",
             observed={"agents": list(W.event_agents), "engine_sensors": list(W.event_engine.sensor_list)},
             expected=[W.agent_cfg["id"]], item=item)
    if sa is None:
        return False
    s, sc, spec = sa.sensors, W.sensor_cfg, W.spec
    want = {
        "type": TYPE_STRING[W.kind],
        "az_mask": [spec["az_mask"][0] * DEG, spec["az_mask"][1] * DEG],  # order matters (may wrap through north)
        "el_mask": [x * DEG for x in spec["el_mask"]],
        "slew_rate": spec["slew_rate"] * DEG,
        "fov": list(spec["fov"][:1]) + [x * DEG for x in spec["fov"][1:]],
        "minimum_range": sc.get("minimum_range"),
        "maximum_range": sc.get("maximum_range"),
        "background": W.background_flag,
        "covariance": np.asarray(sc["covariance"], dtype=float).reshape(-1).tolist(),
        "aperture_diameter": sc["aperture_diameter"],
        "efficiency": sc["efficiency"],
    }
    fovo = s.field_of_view
    got = {
        "type": type(s).__name__,
        "az_mask": [float(x) for x in s.az_mask],
        "el_mask": [float(x) for x in s.el_mask],
        "slew_rate": float(s.slew_rate),
        "fov": (["conic", float(fovo.cone_angle)] if spec["fov"][0] == "conic" and hasattr(fovo, "cone_angle")
                else ["rect", float(getattr(fovo, "azimuth_angle", math.nan)), float(getattr(fovo, "elevation_angle", math.nan))]),
        "minimum_range": None if s.minimum_range is None else float(s.minimum_range),
        "maximum_range": None if s.maximum_range is None else float(s.maximum_range),
        "background": bool(s.calculate_background),
        "covariance": np.asarray(s.r_matrix, dtype=float).reshape(-1).tolist(),
        "aperture_diameter": float(s.aperture_diameter),
        "efficiency": float(s.efficiency),
    }
    if W.kind == "optical":
        want["detectable_vismag"] = spec["detectable_vismag"]
        got["detectable_vismag"] = float(s.detectable_vismag)
        if want["minimum_range"] is None:
            got.pop("minimum_range"), want.pop("minimum_range")
    else:
        for k_cfg, k_spec in (("tx_power", "tx_power"), ("tx_frequency", "tx_frequency"), ("min_detectable_power", "min_detectable_power")):
            want[k_cfg] = spec[k_spec]
            got[k_cfg] = float(getattr(s, k_cfg))
        want["minimum_range"] = spec["min_range"]  # documented default: half a wavelength
    if want["maximum_range"] is None:
        got.pop("maximum_range"), want.pop("maximum_range")

    def same(a, b):
        # degrees -> radians here and in the library may differ in the last bit; a JSON / REAL column round trip is exact
        if isinstance(a, list):
            return isinstance(b, list) and len(a) == len(b) and all(same(x, y) for x, y in zip(a, b))
        if isinstance(a, float) and isinstance(b, (int, float)) and not isinstance(b, bool):
            return abs(a - b) <= 4.0 * EPS * max(abs(a), abs(b))
        return a == b

    all_ok = True
    for k in sorted(want):
        ok = same(got[k], want[k])
        all_ok &= ok
        res.case("event_roundtrip/config", dict(ident, attribute=k), ok, nontrivial=True, signature=f"C02/event_roundtrip/config/{k}",
                 observed=got[k], expected=want[k], outcome=f"roundtrip:{k}", item=item)
    twin = _flat(sensorFactory(SensingAgentConfig(**W.agent_cfg).sensor))
    live = _flat(s)
    for k in sorted(set(twin) | set(live)):
        if k in ("time_last_tasked", "__class__"):
            continue  # the pointing clock starts when the sensor joins
        tv, lv = twin.get(k), live.get(k)
        if k in _NO_LIMIT:  # "no limit" is spelt None or 0 km / infinity: the same constraint
            tv, lv = (_NO_LIMIT[k] if tv is None else tv), (_NO_LIMIT[k] if lv is None else lv)
        ok = tv == lv
        all_ok &= ok
        res.case("event_roundtrip/twin", dict(ident, attribute=k), ok, nontrivial=True, signature=f"C02/event_roundtrip/twin/{k}",
                 observed=live.get(k), expected=twin.get(k), item=item)
    # a sensor that joins at t has not been tasked before t: its slew budget starts there (Sensor.host setter)
    res.case("event_roundtrip/pointing_clock", ident, float(s.time_last_tasked) == W.t_origin, nontrivial=True,
             signature="C02/event_roundtrip/pointing_clock", observed=float(s.time_last_tasked), expected=W.t_origin, item=item)
    res.observe(got["az_mask"], got["el_mask"], got["slew_rate"])
    return all_ok


BAND_CENTRE = {"X": 10.0e9, "L": 1.5e9, "S": 3.0e9}  # IEEE 521 band centres that are unambiguous (8-12, 1-2, 2-4 GHz)
IEEE_BANDS = {
    "VHF": (30e6, 300e6), "UHF": (300e6, 1e9), "L": (1e9, 2e9), "S": (2e9, 4e9), "C": (4e9, 8e9), "X": (8e9, 12e9),
    "Ku": (12e9, 18e9), "K": (18e9, 27e9), "Ka": (27e9, 40e9), "V": (40e9, 75e9), "W": (75e9, 110e9),
}


# ------------------------------------------------------------------------------------------------ noise patch
class _Randn:
    """numpy.random.randn replaced by an enumerated vector (0 or +-e_i)."""

    def __init__(self, vec):
        self.vec = vec
        self.calls = 0

    def __call__(self, *shape):
        self.calls += 1
        n = shape[0] if shape else 1
        out = np.zeros(n)
        if self.vec is not None:
            i, sgn = self.vec
            if i < n:
                out[i] = sgn
        return out


def _sqrtm_ref(cov):
    """Symmetric PSD square root by eigen-decomposition (independent of scipy.linalg.sqrtm)."""
    w, v = np.linalg.eigh(np.asarray(cov, dtype=float))
    return (v * np.sqrt(np.clip(w, 0.0, None))) @ v.T


# ------------------------------------------------------------------------------------------------ the attempt
SCALE = {"slew": 2 * DEG, "fov": 2 * DEG, "el_mask": 2 * DEG, "az_mask": 2 * DEG, "galactic": 2 * DEG,
         "space_illum": 2 * DEG, "limb": 2 * DEG, "ground_illum": 2 * DEG, "vizmag": 0.1, "radar": 0.2,
         "solar_flux": 2.0, "los": None, "min_range": None, "max_range": None}


def _near(mg, geo):
    """Is some constraint margin within 5 % of its scale (40 deg for masks and cones, the FoV half width, the range, 2 mag)?"""
    for k, m in mg.items():
        if m is None or (isinstance(m, float) and math.isnan(m)):
            continue
        if k in ("min_range", "max_range"):
            if abs(m) < 0.05 * max(geo["range"], 1.0):
                return True
        elif k == "los":
            # clearance in km (both ends outside the equatorial sphere) or sine of the geocentric elevation
            if abs(m) < (100.0 if geo["los_unit"] == "km" else 0.035):
                return True
        elif k == "fov":
            if abs(m) < 0.05 * geo["fov_half"]:
                return True
        elif abs(m) < SCALE[k]:
            return True
    return False


def _failing(st):
    return sorted(k for k, v in st.items() if v == "fail")


def _either(st):
    return sorted(k for k, v in st.items() if v == "either")


def _expected_meas(W, geo, kind, tgt_eci):
    exp = {"azimuth_rad": geo["az"], "elevation_rad": [geo["el"]]}
    if kind != "optical":
        exp["range_km"] = [geo["range"]]
        exp["range_rate_km_p_sec"] = [geo["range_rate"]]
    return exp


EPS = 2.220446049250313e-16


def _tol(label, sez_or_geo, base=None):
    """Tolerance of one measurement component for a given geometry.

    Base values (TOL) plus the conditioning of the two angles next to the zenith: the Earth-fixed relative position is a
    difference of two rotated position vectors of size R = max(|r_sensor|, |r_target|), each rounded to ~6 eps R per
    component in the oracle and ~12 eps R in the library (two matrix products); azimuth = atan2 of horizontal
    components of size h, so its error is <= 32 eps R / h.  The library's elevation is arcsin(z / rho), whose error is
    eps * rho / h, capped by sqrt(2 * 2 eps) = 3e-8 at the zenith itself.  Both terms are < 1e-12 for h > 1 km.
    """
    t = (base or TOL)[label]
    h, rho, rmax = sez_or_geo["h"], sez_or_geo["range"], sez_or_geo["rmax"]
    if label == "azimuth_rad":
        # ... plus the orientation of the horizon frame itself: the library's closed-form ecef2lla (subject of C04) and
        # the oracle's iterated geodetic latitude differ by up to 5.4e-12 rad (measured: 3e-16 at the ground sites,
        # 2.6e-14 at 89.9 N, 3.4e-13 / 5.4e-12 for the near-equatorial LEO / GEO hosts); a tilt d of the vertical moves
        # the azimuth of a direction at elevation el by d * tan(el) <= d * rho / h; og.FRAME_TILT = 1e-10 rad is assumed
        t += 32.0 * EPS * rmax / max(h, 1e-300) + og.FRAME_TILT * rho / max(h, 1e-300)
    elif label == "elevation_rad":
        t += min(4.0 * EPS * rho / max(h, 1e-300), 4e-8)
    return t


def _meas_err(label, got, cands):
    best = None
    for c in cands:
        d = got - c
        if label == "azimuth_rad":
            d = math.remainder(d, 2 * math.pi)
        best = abs(d) if best is None else min(best, abs(d))
    return best


def attempt(res, W, case, item, fam):
    """Run one tasked attempt on the real sensor and compare every returned record with the oracle."""
    tgt_i = case.get("tgt_pool", 0)
    primary = W.targets[tgt_i]
    tgt = np.asarray(case["tgt"], dtype=float)
    est = np.asarray(case.get("est", case["tgt"]), dtype=float)
    bgs = case.get("bg", [])
    prior = case.get("prior")  # (boresight unit vector, time last tasked) or None = leave the sensor as it is
    noise = case.get("noise")  # None | (index, sign)
    if prior is not None:
        W.set_prior(prior[0], prior[1])
    primary.eci_state = tgt
    bg_agents = []
    for j, b in enumerate(bgs):
        ag = W.targets[(tgt_i + 1 + j) % len(W.targets)]
        ag.eci_state = np.asarray(b, dtype=float)
        bg_agents.append(ag)
    b_before = np.array(W.sensor.boresight, dtype=float)
    t_last_before = float(W.sensor.time_last_tasked)
    dt = W.t - t_last_before
    patch = _Randn(noise)
    saved = np.random.randn
    np.random.randn = patch
    err = None
    try:
        out = W.sensor.collectObservations(est, primary, bg_agents)
    except Exception as exc:  # noqa: BLE001
        out = None
        err = f"{type(exc).__name__}: {exc}"
    finally:
        np.random.randn = saved
    ident = dict(case.get("id", {}))
    tag = f"/{ident['sig']}" if ident.get("sig") else ""  # configurations with a known, separately reported root cause
    if W.via:
        tag += "/via_event"  # the sensor went configuration -> sensor_addition event row -> Scenario.addSensor
    ident.update(fam=fam, via=W.via, kind=W.kind, host=W.host if isinstance(W.host, str) else list(W.host), t=W.t,
                 start=W.start.isoformat(), over=fw.jsonable(W.over), n_bg=len(bgs), noise=list(noise) if noise else None)
    if out is None:
        res.violate("attempt/raised", ident, signature=f"C02/raised/{fam}/{err.split(':')[0]}", observed=err, item=item)
        return None
    obs_list, miss_list, b_after, t_after = out
    wrong = [type(o).__name__ for o in obs_list if not isinstance(o, Observation)]
    wrong += [type(m).__name__ for m in miss_list if not isinstance(m, MissedObservation)]
    if wrong:
        res.violate("record_types", ident, signature="C02/record_types/" + "+".join(sorted(set(wrong))),
                    observed=wrong, expected="Observation objects in the first list, MissedObservation in the second", item=item)
        return None

    # ---- oracle
    verdicts = []
    p_area, p_refl = W.tprops[tgt_i]
    st, mg, geo = og.evaluate(W.spec, W.frame, tgt, est, b_before, dt, p_area, p_refl, W.sun)
    verdicts.append(("primary", primary.simulation_id, st, mg, geo, tgt))
    for j, ag in enumerate(bg_agents):
        a, r = W.tprops[(tgt_i + 1 + j) % len(W.targets)]
        s2, m2, g2 = og.evaluate(W.spec, W.frame, np.asarray(bgs[j], dtype=float), est, b_before, dt, a, r, W.sun)
        verdicts.append(("background", ag.simulation_id, s2, m2, g2, np.asarray(bgs[j], dtype=float)))
    near = any(_near(m, g) for _r, _i, _s, m, g, _t in verdicts)
    slew_fail = st["slew"] == "fail"
    nontriv = bool(near or slew_fail or bgs or noise)
    by_id = {v[1]: v for v in verdicts}
    ident["failing_primary"] = _failing(st)

    # ---- (ii) exactly one record for the primary target, observation xor miss
    n_obs_p = sum(1 for o in obs_list if o.target_id == primary.simulation_id)
    n_miss_p = sum(1 for m in miss_list if m.target_id == primary.simulation_id)
    stray = [m.target_id for m in miss_list if m.target_id != primary.simulation_id]
    stray += [o.target_id for o in obs_list if o.target_id not in by_id]
    ok = (n_obs_p + n_miss_p == 1) and not stray
    res.case("one_record", ident, ok, nontrivial=nontriv, signature=f"C02/one_record/obs={n_obs_p}/miss={n_miss_p}/stray={len(stray)}",
             observed={"obs": n_obs_p, "miss": n_miss_p, "stray": stray}, expected="exactly one record for the primary",
             outcome=f"obs={n_obs_p},miss={n_miss_p}", item=item)

    # ---- (i) every returned observation has an empty failing set; metadata; (iv) measurement
    sq = _sqrtm_ref(W.sensor_cfg["covariance"])
    seen_obs = set()
    for o in obs_list:
        v = by_id.get(o.target_id)
        if v is None:
            continue
        role, tid, s_, m_, g_, teci = v
        dup = (tid in seen_obs)
        seen_obs.add(tid)
        fail = _failing(s_)
        cid = dict(ident, role=role, target=tid, failing=fail, either=_either(s_))
        sig_tail = "+".join(fail) if fail else ("duplicate" if dup else "none")
        res.case("obs_constraints", cid, (not fail) and not dup, nontrivial=nontriv,
                 signature=f"C02/obs_constraints/{role}/{sig_tail}{tag}",
                 observed={"reported": "Observation", "margins": {k: m_[k] for k in fail}},
                 expected="no failing constraint", outcome=f"{role}:ok" if not fail else f"{role}:{sig_tail}", item=item)
        if _either(s_):
            res.either_way += 1
        # metadata
        jd_ref = og.julian_date(W.utc)
        meta_ok = (abs(float(o.julian_date) - jd_ref) <= 2e-9 and o.sensor_id == W.sa.simulation_id
                   and o.sensor_type == TYPE_STRING[W.kind] and fw.maxabs(o.sensor_eci, W.frame.sensor_eci) == 0.0
                   and list(o.measurement.labels) == LABELS[W.kind] and o.dim == len(LABELS[W.kind])
                   and fw.maxabs(o.r_matrix, W.sensor_cfg["covariance"]) == 0.0
                   and [int(a) for a in o.angular_values] == ANGLE_KINDS[: len(LABELS[W.kind])])
        res.case("obs_metadata", cid, meta_ok, signature=f"C02/obs_metadata/{role}",
                 observed={"jd": float(o.julian_date), "sensor_id": o.sensor_id, "type": o.sensor_type,
                           "labels": list(o.measurement.labels)},
                 expected={"jd": jd_ref, "sensor_id": W.sa.simulation_id, "type": TYPE_STRING[W.kind]}, item=item)
        # measurement = geometry (+ sqrtm(R) e_i)
        exp = _expected_meas(W, g_, W.kind, teci)
        # noise is drawn once per reported observation, in call order: primary first, then the backgrounds
        shift = np.zeros(len(LABELS[W.kind]))
        if noise is not None:
            shift = sq[:, noise[0]] * noise[1]
        worst, worst_label = 0.0, None
        vals = {}
        for k, label in enumerate(LABELS[W.kind]):
            got = getattr(o, label)
            vals[label] = None if got is None else float(got)
            if got is None:
                worst, worst_label = math.inf, label
                continue
            e = _meas_err(label, float(got) - shift[k], exp[label]) / _tol(label, g_)
            if e > worst:
                worst, worst_label = e, label
        extra = [lab for lab in TOL if lab not in LABELS[W.kind] and getattr(o, lab) is not None]
        ms_ok = worst <= 1.0 and not extra and fw.maxabs(o.measurement_states, [vals[lab] for lab in LABELS[W.kind]]) == 0.0
        sub = "measurement_noise" if noise is not None else "measurement_exact"
        res.case(sub, cid, ms_ok, nontrivial=nontriv,
                 signature=f"C02/{sub}/{role}/{worst_label if worst > 1.0 else ('extra' if extra else 'states')}",
                 observed=vals, expected={"geometry": {k: exp[k] for k in exp}, "noise_shift": shift.tolist(),
                                          "tolerance_units": worst}, item=item)
        res.observe(*[vals[lab] for lab in LABELS[W.kind]])

    # ---- (iii) the miss reason is a constraint that really fails
    for m in miss_list:
        v = by_id.get(m.target_id)
        if v is None:
            continue
        role, tid, s_, m_, g_, teci = v
        cname = og.CONSTRAINT_OF_REASON.get(m.reason)
        status = s_.get(cname) if cname else None
        cid = dict(ident, role=role, target=tid, reason=m.reason, failing=_failing(s_), either=_either(s_))
        ok = status in ("fail", "either")
        if status == "either":
            res.either_way += 1
        res.case("miss_reason", cid, ok, nontrivial=nontriv, signature=f"C02/miss_reason/{cname or 'unknown'}/not_failing{tag}",
                 observed={"reason": m.reason, "margin": m_.get(cname) if cname else None},
                 expected={"failing": _failing(s_), "either": _either(s_)}, outcome=f"reason={cname}", item=item)
        jd_ref = og.julian_date(W.utc)
        meta_ok = (abs(float(m.julian_date) - jd_ref) <= 2e-9 and m.sensor_id == W.sa.simulation_id
                   and m.sensor_type == TYPE_STRING[W.kind] and fw.maxabs(m.sensor_eci, W.frame.sensor_eci) == 0.0)
        res.case("miss_metadata", cid, meta_ok, signature="C02/miss_metadata",
                 observed={"jd": float(m.julian_date), "sensor_id": m.sensor_id, "type": m.sensor_type}, item=item)
        res.observe(m.reason)

    # ---- background completeness / flag: a background target with no failing constraint is reported iff the sensor
    #      was configured for serendipitous observations ("collect observations on all targets within the FOV")
    for role, tid, s_, m_, g_, teci in verdicts[1:]:
        reported = tid in seen_obs
        clean = not _failing(s_) and not _either(s_)
        cid = dict(ident, role=role, target=tid, failing=_failing(s_), either=_either(s_), flag=W.background_flag)
        if not W.background_flag:
            res.case("background_flag", cid, not reported, nontrivial=True, signature="C02/background_flag/reported_when_off",
                     observed=reported, expected=False, item=item)
        elif clean:
            res.case("background_complete", cid, reported, nontrivial=True, signature="C02/background_complete/dropped",
                     observed=reported, expected=True, outcome="reported", item=item)

    # ---- pointing state: boresight / time_last_tasked move iff the slew was feasible
    if st["slew"] != "either":
        if st["slew"] == "pass":
            want_b = np.array(geo["pointing_unit"])
            want_t = W.t
        else:
            want_b = b_before
            want_t = t_last_before
        db = fw.maxabs(b_after, want_b)
        ok = db <= 1e-9 and float(t_after) == want_t and fw.maxabs(W.sensor.boresight, b_after) == 0.0 \
            and float(W.sensor.time_last_tasked) == float(t_after)
        res.case("pointing_state", dict(ident, slew=st["slew"]), ok, nontrivial=nontriv,
                 signature=f"C02/pointing_state/{st['slew']}", observed={"boresight": list(map(float, b_after)), "t": float(t_after)},
                 expected={"boresight": list(map(float, want_b)), "t": want_t}, outcome=st["slew"], item=item)
    else:
        res.either_way += 1
    res.observe(np.asarray(b_after, dtype=float), float(t_after), len(obs_list), len(miss_list))
    return verdicts, obs_list, miss_list


# ================================================================================================ lattices
MASKS = {
    "MK0": {"azimuth_range": [0.0, 359.99], "elevation_range": [1.0, 89.0]},
    "MK1": {"azimuth_range": [350.0, 10.0], "elevation_range": [-89.9, 90.0]},  # wraps through north
    "MK2": {"azimuth_range": [90.0, 180.0], "elevation_range": [1.0, 89.0]},
    "MK3": {"azimuth_range": [0.0, 359.99], "elevation_range": [89.0, 1.0]},  # reversed elevation range
    "MK4": {"azimuth_range": [300.0, 60.0], "elevation_range": [10.0, 80.0]},  # 120 deg sector through north
    "MK5": {"azimuth_range": [200.0, 100.0], "elevation_range": [5.0, 60.0]},  # 260 deg sector through north
}
# masks of the sensors that come through a sensor_addition event: wrapping (narrow / 120 deg / 260 deg) and not wrapping
EVENT_MASKS = ("MK1", "MK2", "MK4", "MK5")
RANGES = {"R0": {}, "R1": {"minimum_range": 500.0, "maximum_range": 5000.0}}
FOVS = {"c1": ("conic", 1.0), "c179": ("conic", 179.0), "r1": ("rect", 1.0, 1.0), "r20": ("rect", 20.0, 10.0)}
KINDS = ["optical", "radar", "adv_radar"]


def _phase(seed, k=0):
    return math.fmod(7.3 + 11.37 * seed + 3.1 * k, 30.0)


def _az_fill(seed, step=30.0):
    ph = _phase(seed)
    return [math.fmod(ph + step * k, 360.0) for k in range(int(360 / step))]


def _hosts(tier):
    q = ["mid", "eq", "south", "polar", "leo_inc", "geo"]
    return q + ["leo_eq", "s30"] if tier == "thorough" else q


def _epoch_for(kind, host):
    # optical sensors get a night epoch of their site so that some attempts succeed; radars a day epoch
    if kind != "optical":
        return "day"
    return {"mid": "night", "eq": "aug", "south": "dec", "polar": "dec", "s30": "aug"}.get(host, "night")


def _mask_mid_az(mask):
    lo, hi = mask["azimuth_range"]
    return math.fmod(lo + math.fmod(hi - lo + 360.0, 360.0) / 2.0, 360.0)


# ------------------------------------------------------------------------------------------------ family A: masks
def _cases_A(W, tier, seed, mask, rng):
    space = W.space
    lo_az, hi_az = mask["azimuth_range"]
    el_lo, el_hi = sorted(mask["elevation_range"])
    mid_az = _mask_mid_az(mask)
    mid_el = 45.0
    cases = []
    d = 0.01
    az_line = _az_fill(seed) + [359.9, 0.0, 0.1, lo_az - d, lo_az + d, hi_az - d, hi_az + d]
    if tier == "thorough":
        az_line += _az_fill(seed + 1, 45.0) + [lo_az - 1e-4, lo_az + 1e-4, hi_az - 1e-4, hi_az + 1e-4, 180.0, 359.9999]
    rho_line0 = 30000.0 if (W.kind == "optical" and not space) else 1000.0  # sunlit at night / detectable by the radar
    for az in az_line:
        cases.append(("az", math.fmod(az + 360.0, 360.0), mid_el, rho_line0))
    el_line = [-5.0, 0.5, el_lo - d, el_lo + d, 45.0, el_hi - d, el_hi + d, 89.999, 90.0]
    if space:
        el_line += [-20.0, -30.0, -60.0]
    else:
        el_line += [-0.45, -0.2]  # either side of the dip of the horizon (0.32 deg at 100 m) / of the geocentric horizon
    if tier == "thorough":
        el_line += [-1.0, 0.0, 10.0, 80.0, el_lo - 1e-4, el_lo + 1e-4, el_hi - 1e-4, el_hi + 1e-4]
    for el in el_line:
        if -90.0 < el <= 90.0:
            for rho in ((1000.0, 40000.0) if space else (rho_line0,)):
                cases.append(("el", mid_az, el, rho))
    rho_line = [400.0, 1000.0, 40000.0, 1.0e5]
    if rng:
        rho_line += [rng["minimum_range"] - 1e-3, rng["minimum_range"] + 1e-3, rng["maximum_range"] - 1e-3,
                     rng["maximum_range"] + 1e-3]
    if tier == "thorough":
        rho_line += [100.0, 2500.0, 8000.0, 2.0e4]
    for rho in rho_line:
        cases.append(("rho", mid_az, mid_el, rho))
    ph = _phase(seed, 1)
    for az in (0.0, 120.0 + ph, 359.9):
        for el in (0.5, 45.0, 80.0):
            for rho in (400.0, 40000.0):
                cases.append(("grid", az, el, rho))
    return cases


def _run_A(res, item):
    _f, kind, host, mask_id, rng_id, tier, seed = item[:7]
    over = dict(MASKS[mask_id])
    over.update(RANGES[rng_id])
    over["fov"] = FOVS["r20"] if mask_id in ("MK1", "MK4") else FOVS["c1"]
    W = make_world(res, item, kind, host, _epoch_for(kind, host), over, via=_via_of(item, 7))
    if W is None:
        return
    for line, az, el, rho in _cases_A(W, tier, seed, MASKS[mask_id], RANGES[rng_id]):
        tgt = W.place(az, el, rho)
        case = {"tgt": tgt, "prior": (W.initial_boresight, 0.0),
                "id": {"line": line, "az": az, "el": el, "rho": rho, "mask": mask_id, "range": rng_id,
                       "el_mask_reversed": mask_id == "MK3", "sig": "reversed_el_mask" if mask_id == "MK3" else ""}}
        if line == "grid":
            # serendipitous observations are switched off for this sensor: a neighbour inside the FoV must not be reported
            case["bg"] = [W.place(az + 0.1, min(el + 0.1, 89.9), rho * 1.001)]
        attempt(res, W, case, item, "A")


# ------------------------------------------------------------------------------------------------ family B: FoV
def _offset_rect(az_p, el_p, daz, del_):
    return math.fmod(az_p + daz + 720.0, 360.0), el_p + del_


def _cases_B(tier, seed, fov):
    ph = _phase(seed, 2)
    # north seam, the SOUTH seam (where an azimuth wrapped to (-180, 180] jumps) and the quadrant edges, plus a fill
    az_ps = [0.0, 0.2, 359.9, 123.4 + ph, 179.9, 180.0, 180.1, 90.0, 270.0]
    el_ps = [20.0, 84.0] if fov[0] == "rect" else [20.0, 88.5]
    fracs = [0.5, 0.98, 1.02]
    if tier == "thorough":
        az_ps += [359.999, 1e-5, 179.999, 180.001, 89.9, 269.9, 45.0, 225.0]
        el_ps += [45.0, 1.5]
        fracs += [0.999, 1.001, 1.5]
    out = []
    for az_p in az_ps:
        for el_p in el_ps:
            for f in fracs:
                if fov[0] == "rect":
                    ha, he = fov[1] / 2.0, fov[2] / 2.0
                    for sa, se in ((1, 0), (-1, 0), (0, 1), (0, -1), (1, 1)):
                        out.append((az_p, el_p, f, ("rect", sa * f * ha, se * f * he)))
                else:
                    for k in range(4):
                        out.append((az_p, el_p, f, ("conic", f * fov[1] / 2.0, 90.0 * k + ph)))
    return out


def _fov_target(W, az_p, el_p, how, rho):
    """State of a point displaced from the pointing direction (az_p, el_p) as described by ``how``."""
    if how[0] == "rect":
        az, el = _offset_rect(az_p, el_p, how[1], how[2])
        el = max(-89.9, min(89.99, el))
        return W.place(az, el, rho)
    p = vg.unit(vg.sez_from_azel(az_p * DEG, el_p * DEG, 1.0)[:3])
    u = vg.offset_target(p, how[1] * DEG, how[2] * DEG)
    pos = W.frame.sez_to_eci_position([rho * x for x in u])
    return W.with_velocity(pos)


def _run_B(res, item):
    _f, kind, host, fov_id, tier, seed = item[:6]
    fov = FOVS[fov_id]
    over = {"fov": fov, "background_observations": True, "azimuth_range": [0.0, 359.9999],
            "elevation_range": [-89.9, 90.0] if host in SPACE else [1.0, 89.999]}
    W = make_world(res, item, kind, host, _epoch_for(kind, host), over, via=_via_of(item, 6))
    if W is None:
        return
    for az_p, el_p, f, how in _cases_B(tier, seed, fov):
        est = W.place(az_p, el_p, 1000.0)
        tgt = _fov_target(W, az_p, el_p, how, 1010.0)
        # two background targets: mirror image of the primary offset at 0.98 and 1.02 of the half width
        if how[0] == "rect":
            sa = -1.0 if how[1] > 0 else 1.0
            base_a = abs(how[1]) / f if how[1] else 0.0
            base_e = abs(how[2]) / f if how[2] else 0.0
            if base_a == 0.0 and base_e == 0.0:
                base_a = fov[1] / 2.0
            bg = [_fov_target(W, az_p, el_p, ("rect", sa * 0.98 * base_a, -0.98 * base_e), 990.0),
                  _fov_target(W, az_p, el_p, ("rect", sa * 1.02 * base_a, -1.02 * base_e), 1020.0)]
        else:
            bg = [_fov_target(W, az_p, el_p, ("conic", 0.98 * fov[1] / 2.0, how[2] + 180.0), 990.0),
                  _fov_target(W, az_p, el_p, ("conic", 1.02 * fov[1] / 2.0, how[2] + 135.0), 1020.0)]
        case = {"tgt": tgt, "est": est, "bg": bg, "prior": (W.initial_boresight, 0.0),
                "id": {"az_p": az_p, "el_p": el_p, "frac": f, "how": list(how), "fov": fov_id,
                       "straddles_north": az_p < 15.0 or az_p > 345.0, "straddles_south": 165.0 < az_p < 195.0}}
        attempt(res, W, case, item, "B")


# ------------------------------------------------------------------------------------------------ family C: slew
def _run_C(res, item):
    _f, kind, host, rate, tier, seed = item[:6]
    via = _via_of(item, 6)
    over = {"slew_rate": rate, "background_observations": True, "fov": FOVS["r20"] if kind == "optical" else ("conic", 10.0),
            "azimuth_range": [0.0, 359.9999], "elevation_range": [-89.9, 90.0] if host in SPACE else [1.0, 89.999]}
    W = make_world(res, item, kind, host, _epoch_for(kind, host), over, via=via)
    if W is None:
        return
    ph = _phase(seed, 3)
    bases = [(40.0 + ph, 30.0), (350.0, 60.0), (200.0 + ph, 75.0)]
    fracs = [0.0, 0.5, 0.98, 1.02, 2.0]
    if tier == "thorough":
        bases += [(0.0, 10.0), (123.0, 45.0), (270.0 + ph, 88.0)]
        fracs += [0.999, 1.001, 10.0]
    for bi, (az_b, el_b) in enumerate(bases):
        b_unit = vg.unit(vg.sez_from_azel(az_b * DEG, el_b * DEG, 1.0)[:3])
        for f in fracs + ["opposite"]:
            for mode in ("set", "carried"):
                t_last = 60.0
                dt = T_OBS - t_last
                reach = rate * dt
                ang = 179.9 if f == "opposite" else f * reach
                if ang > 180.0:
                    continue
                psi = (37.0 + 90.0 * bi + ph) * DEG
                p_unit = vg.offset_target(b_unit, ang * DEG, psi)
                if mode == "carried":
                    # the prior state is produced by a real, feasible tasking at t = 60 s pointing at the base direction
                    W.goto(60.0)
                    W.set_prior(b_unit, 0.0)
                    first = W.with_velocity(W.frame.sez_to_eci_position([900.0 * x for x in b_unit]))
                    case0 = {"tgt": first, "id": {"step": "prime", "base": [az_b, el_b], "rate": rate}}
                    attempt(res, W, case0, item, "C")
                    W.goto(T_OBS)
                    prior = None
                else:
                    W.goto(T_OBS)
                    prior = (b_unit, t_last)
                est = W.with_velocity(W.frame.sez_to_eci_position([1000.0 * x for x in p_unit]))
                # background: one next to the commanded pointing (inside the FoV), one next to the old boresight
                near_p = vg.offset_target(p_unit, 0.3 * DEG, psi + 1.0)
                near_b = vg.offset_target(b_unit, 0.3 * DEG, psi + 2.0)
                bg = [W.with_velocity(W.frame.sez_to_eci_position([1005.0 * x for x in near_p])),
                      W.with_velocity(W.frame.sez_to_eci_position([995.0 * x for x in near_b]))]
                case = {"tgt": est.copy(), "est": est, "bg": bg, "prior": prior,
                        "id": {"base": [az_b, el_b], "frac": f, "mode": mode, "rate": rate, "slew_deg": ang}}
                attempt(res, W, case, item, "C")
    # untouched sensor: initial boresight, last tasked at scenario start
    W2 = make_world(res, item, kind, host, _epoch_for(kind, host), dict(over, **MASKS["MK2"]), via=via)
    if W2 is None:
        return
    for az, el in ((135.0, 45.0), (95.0, 5.0), (45.0, 45.0), (315.0, 45.0)):
        est = W2.place(az, el, 1000.0)
        case = {"tgt": est.copy(), "est": est, "bg": [W2.place(az + 0.2, el, 1001.0)], "prior": None,
                "id": {"mode": "untouched", "az": az, "el": el, "rate": rate}}
        attempt(res, W2, case, item, "C")
        W2.set_prior(W2.initial_boresight, 0.0)


# ------------------------------------------------------------------------------------------------ family D: radar
RADAR_VARIANTS = {
    "default": {},
    "power": {"tx_power": 1.0e7},
    "freq": {"tx_frequency": 3.0e9},
    "pmin": {"min_detectable_power": 1.4314085925969573e-13},
    "diam": {"aperture_diameter": 10.0},
    "eff": {"efficiency": 0.5},
    "band": {"tx_frequency": "X"},
    "lowfreq": {"tx_frequency": 1.0e5},
}


def _radar_max_range(spec, area):
    """Range (km) at which the oracle's received power equals the minimum detectable power (bisection)."""
    lo, hi = 1e-3, 1e9
    for _ in range(200):
        mid = math.sqrt(lo * hi)
        p = og.radar_received_power(spec["tx_power"], spec["tx_frequency"], spec["diameter"], spec["efficiency"], area, mid)
        if p >= spec["min_detectable_power"]:
            lo = mid
        else:
            hi = mid
    return lo


def _run_D(res, item):
    _f, kind, host, variant, tier, seed = item[:6]
    over = dict(RADAR_VARIANTS[variant])
    over.update({"azimuth_range": [0.0, 359.9999], "elevation_range": [-89.9, 90.0] if host in SPACE else [1.0, 89.999]})
    W = make_world(res, item, kind, host, "day", over, via=_via_of(item, 6))
    if W is None:
        return
    ph = _phase(seed, 4)
    fr = [0.5, 0.999, 1.001, 2.0]
    if tier == "thorough":
        fr += [0.9, 0.99999, 1.00001, 1.1]
    for pool in range(3):
        area = W.tprops[pool][0]
        rmax = _radar_max_range(W.spec, area)
        for f in fr:
            rho = f * rmax
            if not 0.05 < rho < 5e5:
                continue
            tgt = W.place(135.0 + ph, 50.0, rho)
            case = {"tgt": tgt, "tgt_pool": pool, "prior": (W.initial_boresight, 0.0),
                    "id": {"variant": variant, "area": area, "frac": f, "rmax": rmax}}
            attempt(res, W, case, item, "D")
    # default minimum range of a radar: half a wavelength
    mr = W.spec["min_range"]
    for f in (0.9, 1.1):
        rho = f * mr
        if rho < 1e-3:
            continue
        tgt = W.place(135.0 + ph, 50.0, rho)
        case = {"tgt": tgt, "prior": (W.initial_boresight, 0.0), "id": {"variant": variant, "min_range_frac": f}}
        attempt(res, W, case, item, "D")


# ------------------------------------------------------------------------------------------------ family E: optical
def _bisect(fun, lo, hi, iters=80):
    """Parameter where ``fun`` changes sign on [lo, hi] (fun(lo) and fun(hi) of opposite sign)."""
    flo = fun(lo)
    for _ in range(iters):
        mid = 0.5 * (lo + hi)
        fm = fun(mid)
        if (fm > 0) == (flo > 0):
            lo, flo = mid, fm
        else:
            hi = mid
    return 0.5 * (lo + hi)


def _unit_at(axis, ang, psi):
    return vg.offset_target(vg.unit(list(axis)), ang, psi)


def _run_E_ground(res, item):
    """Site darkness, umbra, limiting magnitude, galactic exclusion for a ground-based optical sensor."""
    _f, what, tier, seed = item[:4]
    via = _via_of(item, 4)
    ph = _phase(seed, 5)
    deltas = [1e-3, 1e-2] if tier == "quick" else [1e-5, 1e-4, 1e-3, 1e-2, 5e-2]
    base_over = {"azimuth_range": [0.0, 359.9999], "elevation_range": [1.0, 89.999], "fov": ("conic", 10.0)}
    if what == "darkness":
        # sites along a parallel: the longitude at which the Sun is exactly 15 deg below the horizontal plane
        for epoch, lat in (("night", 45.0), ("aug", -30.0), ("dec", 10.0)):
            start = EPOCHS[epoch]
            utc = start + timedelta(seconds=T_OBS)
            sun = np.asarray(Sun.getPosition(og.julian_date(utc)), dtype=float).reshape(-1)[:3]

            def margin(lon, lat=lat, utc=utc, sun=sun):
                site = np.asarray(lla2eci(np.array([lat * DEG, lon * DEG, 0.1]), utc), dtype=float)[:3]
                return vg.angle_between(list(sun), list(site)) - (math.pi / 2 + og.TWILIGHT)

            # anti-solar longitude: scan for sign changes
            lons = [-180.0 + 5.0 * k for k in range(73)]
            vals = [margin(x) for x in lons]
            crossings = [_bisect(margin, lons[k], lons[k + 1]) for k in range(72) if (vals[k] > 0) != (vals[k + 1] > 0)]
            for lon_c in crossings:
                dark_side = 1.0 if margin(lon_c + 1.0) > 0 else -1.0
                for dd in [0.5, 2.0] + ([0.25, 1.0, 10.0] if tier == "thorough" else []):
                    for sgn in (-1.0, 1.0):
                        lon = lon_c + sgn * dd
                        lon = (lon + 180.0) % 360.0 - 180.0
                        W = World("optical", ("ground", lat, lon, 0.1), start, dict(base_over))
                        # a bright, sunlit, high target towards the dark side of the sky
                        for az, el, rho in ((90.0 if dark_side > 0 else 270.0, 40.0, 30000.0), (180.0 + ph, 70.0, 38000.0)):
                            tgt = W.place(az, el, rho)
                            case = {"tgt": tgt, "prior": (W.initial_boresight, 0.0),
                                    "id": {"what": what, "lat": lat, "lon": lon, "lon_cross": lon_c, "dlon": sgn * dd}}
                            attempt(res, W, case, item, "E")
        return
    if what == "umbra":
        W = World("optical", "mid", "night", dict(base_over))
        sun_hat = vg.unit(list(W.sun))
        for dist in (9000.0, 20000.0, 42000.0):
            for k in range(3 if tier == "quick" else 8):
                psi = (ph + 360.0 / (3 if tier == "quick" else 8) * k) * DEG
                e1, e2 = vg.perp_frame(sun_hat)
                side = vg.add(vg.scale(e1, math.cos(psi)), vg.scale(e2, math.sin(psi)))

                def margin(off, dist=dist, side=side):
                    pos = vg.add(vg.scale(sun_hat, -dist), vg.scale(side, off))
                    _fr, _k, (a, b, c) = vg.sun_fraction(pos, list(W.sun))
                    return (c - (b - a)) / a

                off_c = _bisect(margin, 0.0, 9000.0)
                for d_km in [-50.0, -1.0, 1.0, 50.0] + ([-0.01, 0.01, 500.0] if tier == "thorough" else []):
                    pos = vg.add(vg.scale(sun_hat, -dist), vg.scale(side, off_c + d_km))
                    tgt = W.with_velocity(pos)
                    case = {"tgt": tgt, "prior": (W.initial_boresight, 0.0),
                            "id": {"what": what, "dist": dist, "psi": psi, "offset_from_umbra_edge_km": d_km}}
                    attempt(res, W, case, item, "E")
        return
    if what == "vizmag":
        # limiting magnitude set to the target's magnitude -/+ delta (a separate real sensor for each)
        probe = World("optical", "mid", "night", dict(base_over))
        for pool, (az, el, rho) in enumerate(((100.0 + ph, 50.0, 36000.0), (250.0, 30.0, 20000.0), (20.0 + ph, 70.0, 50000.0))):
            tgt = probe.place(az, el, rho)
            st, mg, geo = og.evaluate(dict(probe.spec, detectable_vismag=99.0), probe.frame, tgt, tgt,
                                      probe.initial_boresight, T_OBS, probe.tprops[pool][0], probe.tprops[pool][1], probe.sun)
            mag = geo["vismag"]
            for d_mag in [-0.01, 0.01] + ([-1e-6, 1e-6, -1.0, 1.0] if tier == "thorough" else [-1.0, 1.0]):
                W = make_world(res, item, "optical", "mid", "night", dict(base_over, detectable_vismag=mag + d_mag), via=via)
                if W is None:
                    continue
                case = {"tgt": tgt, "tgt_pool": pool, "prior": (W.initial_boresight, 0.0),
                        "id": {"what": what, "mag": mag, "limit_minus_mag": d_mag, "area": W.tprops[pool][0]}}
                attempt(res, W, case, item, "E")
        return
    if what == "galactic":
        W = World("optical", "s30", "aug", dict(base_over))
        for k in range(4 if tier == "quick" else 12):
            psi = (ph + 360.0 / (4 if tier == "quick" else 12) * k) * DEG
            for d in [-x for x in deltas] + deltas + [0.2]:
                u = _unit_at(vg.GALACTIC_UNIT, og.GALACTIC_EXCLUSION + d, psi)
                for rho in (30000.0,):
                    tgt = W.place_dir(u, rho)
                    case = {"tgt": tgt, "prior": (W.initial_boresight, 0.0),
                            "id": {"what": what, "psi": psi, "angle_minus_cone": d, "rho": rho}}
                    attempt(res, W, case, item, "E")
        return
    raise ValueError(what)


def _run_E_space(res, item):
    """Sun exclusion, Earth limb, galactic exclusion for a space-based optical sensor."""
    _f, what, host, tier, seed = item
    ph = _phase(seed, 6)
    over = {"azimuth_range": [0.0, 359.9999], "elevation_range": [-89.999, 89.999], "fov": ("conic", 10.0)}
    if what == "los":
        _run_E_los(res, item, over, ph)
        return
    W = World("optical", host, "day", over)
    npsi = 4 if tier == "quick" else 12
    if what == "sun":
        axis = [W.sun[i] - W.frame.sensor_eci[i] for i in range(3)]
        cone, rhos = og.SUN_EXCLUSION, (1000.0, 20000.0)
        deltas = [1e-4, 1e-2] if tier == "quick" else [1e-5, 1e-4, 1e-3, 1e-2, 0.1]
    elif what == "galactic":
        axis, cone, rhos = vg.GALACTIC_UNIT, og.GALACTIC_EXCLUSION, (1000.0, 20000.0)
        deltas = [1e-6, 1e-3] if tier == "quick" else [1e-7, 1e-6, 1e-5, 1e-4, 1e-3, 1e-2]
    elif what == "limb":
        axis = [-x for x in W.frame.sensor_eci[:3]]
        cone = math.asin((og.A_EARTH + og.ATMOSPHERE) / vg.norm(W.frame.sensor_eci))
        rhos = (500.0, 30000.0)
        # the library measures the cone from the geodetic vertical: the smallest offsets sit just outside that band
        base = 1.5 * W.frame.deflection
        deltas = [base + 2e-6, base + 1e-4, 6e-3, 5e-2] if tier == "quick" else [base + 2e-6, base + 1e-5, base + 1e-4, 6e-3, 1e-2, 5e-2, 0.2]
    else:
        raise ValueError(what)
    for k in range(npsi):
        psi = (ph + 360.0 / npsi * k) * DEG
        for d in [-x for x in deltas] + deltas:
            u = _unit_at(axis, cone + d, psi)
            for rho in rhos:
                tgt = W.place_dir(u, rho)
                case = {"tgt": tgt, "prior": (W.initial_boresight, 0.0),
                        "id": {"what": what, "psi": psi, "angle_minus_cone": d, "rho": rho}}
                attempt(res, W, case, item, "E")


def _run_E_los(res, item, over, ph):
    """Sight lines of a space-based radar grazing the Earth: closest approach of the segment = R_eq + clearance."""
    _f, what, host, tier, seed = item
    W = World("adv_radar", host, "day", dict(over, tx_power=1.0e12))  # sensitivity out of the way: the sight line decides
    sen = [float(x) for x in W.frame.sensor_eci[:3]]
    r_s = vg.norm(sen)
    tangent = math.sqrt(r_s * r_s - og.A_EARTH**2)
    clear = [1e-3, 1.0, 100.0] if tier == "quick" else [1e-5, 1e-3, 0.1, 1.0, 10.0, 100.0, 1000.0]
    npsi = 4 if tier == "quick" else 12
    for k in range(npsi):
        psi = (ph + 360.0 / npsi * k) * DEG
        for c in [-x for x in clear] + clear:
            if og.A_EARTH + c >= r_s:
                continue  # the line cannot pass that far from the geocentre when it starts at the sensor
            ang = math.asin((og.A_EARTH + c) / r_s)
            u = _unit_at([-x for x in sen], ang, psi)
            for f_rho in (0.5, 1.5, 3.0):  # before the tangent point (never blocked), beyond it, far beyond it
                tgt = W.place_dir(u, f_rho * tangent)
                case = {"tgt": tgt, "prior": (W.initial_boresight, 0.0),
                        "id": {"what": what, "psi": psi, "clearance_km": c, "range_over_tangent": f_rho}}
                attempt(res, W, case, item, "E")


# ------------------------------------------------------------------------------------------------ family F: noise
def _run_F(res, item):
    _f, kind, host, cov_id, tier, seed = item[:6]
    n = len(LABELS[kind])
    cov = {"diag": scen.OPT_COV if kind == "optical" else scen.RADAR_COV,
           "full": OPT_COV_FULL if kind == "optical" else RADAR_COV_FULL}[cov_id]
    over = {"covariance": cov, "background_observations": True, "fov": ("conic", 10.0),
            "azimuth_range": [0.0, 359.9999], "elevation_range": [-89.9, 90.0] if host in SPACE else [1.0, 89.999]}
    W = make_world(res, item, kind, host, _epoch_for(kind, host), over, via=_via_of(item, 6))
    if W is None:
        return
    ph = _phase(seed, 7)
    if host in SPACE:
        spots = [(100.0 + ph, 30.0, 3000.0), (0.0, 60.0, 2000.0), (250.0 + ph, 10.0, 5000.0)]
    elif kind == "optical":
        spots = [(100.0 + ph, 50.0, 36000.0), (0.0, 40.0, 30000.0), (250.0, 30.0, 20000.0)]
    else:
        spots = [(100.0 + ph, 50.0, 1000.0), (0.0, 40.0, 800.0), (359.99, 20.0, 1500.0)]
    vecs = [None] + [(i, s) for i in range(n) for s in (1.0, -1.0)]
    for az, el, rho in spots:
        tgt = W.place(az, el, rho)
        bg = [W.place(az + 1.0, el + 0.5, rho * 1.01)]
        for vec in vecs:
            case = {"tgt": tgt, "bg": bg, "noise": vec, "prior": (W.initial_boresight, 0.0),
                    "id": {"az": az, "el": el, "rho": rho, "cov": cov_id}}
            attempt(res, W, case, item, "F")


# ------------------------------------------------------------------------------------------------ family G: API level
def _ref_rates(v):
    """Azimuth / elevation rates of a SEZ 6-vector by differentiating atan2 forms (independent of Vallado's layout)."""
    s, e, z, sd, ed, zd = v
    h2 = s * s + e * e
    h = math.sqrt(h2)
    az_rate = ((-s) * ed - e * (-sd)) / h2  # d/dt atan2(e, -s)
    hd = (s * sd + e * ed) / h
    el_rate = (h * zd - z * hd) / (h2 + z * z)  # d/dt atan2(z, h)
    return az_rate, el_rate


def _run_G_measure(res, item):
    """Measurement helper functions and classes driven directly on the target lattice of a host."""
    _f, host, tier, seed = item
    W = World("adv_radar", host, "day", {})
    ph = _phase(seed, 8)
    az_list = _az_fill(seed, 45.0) + [0.0, 359.9, 90.0, 180.0, 270.0]
    el_list = [-60.0, -5.0, 0.0, 45.0, 89.999, 90.0]
    rho_list = [400.0, 40000.0] if tier == "quick" else [1.0, 400.0, 5000.0, 40000.0, 1e5]
    labels4 = ["azimuth_rad", "elevation_rad", "range_km", "range_rate_km_p_sec"]
    order_b = ["range_rate_km_p_sec", "azimuth_rad", "range_km", "elevation_rad"]
    r_vec = np.array([1e-5, 2e-5, 3e-4, 4e-6])
    m_diag = rmeas.Measurement.fromMeasurementLabels(order_b, r_vec)  # 1-d input = standard deviations
    ok = fw.maxabs(m_diag.r_matrix, np.diag(r_vec**2)) <= 1e-24 and m_diag.labels == order_b and m_diag.dim == 4
    res.case("measurement_class/r_vector", {"host": host}, ok, signature="C02/measurement_class/r_vector",
             observed=np.diag(m_diag.r_matrix).tolist(), expected=(r_vec**2).tolist(), item=item)
    cls_of = {"azimuth_rad": rmeas.Azimuth, "elevation_rad": rmeas.Elevation, "range_km": rmeas.Range,
              "range_rate_km_p_sec": rmeas.RangeRate}
    res.case("measurement_class/type_map", {"host": host},
             all(rmeas.MEASUREMENT_TYPE_MAP[k] is c and c.LABEL == k for k, c in cls_of.items())
             and rmeas.Azimuth().is_angular == rmeas.IsAngle.ANGLE_0_2PI
             and rmeas.Elevation().is_angular == rmeas.IsAngle.ANGLE_NEG_PI_PI
             and rmeas.Range().is_angular == rmeas.IsAngle.NOT_ANGLE and rmeas.RangeRate().is_angular == rmeas.IsAngle.NOT_ANGLE,
             signature="C02/measurement_class/type_map", item=item)
    sen = W.frame.sensor_eci
    for az in az_list:
        for el in el_list:
            for rho in rho_list:
                tgt = W.place(az, el, rho)
                sez = W.frame.sez(tgt)
                full = np.asarray(eci2ecef(tgt, W.utc), dtype=float)
                vel = W.frame.B @ (full[3:] - W.frame.sensor_ecef[3:])
                sez6 = sez[:3] + [float(x) for x in vel]
                ident = {"host": host, "az": az, "el": el, "rho": rho}
                exp = {"azimuth_rad": og.azimuths(sez6), "elevation_rad": [og.elevation(sez6)], "range_km": [vg.norm(sez6)],
                       "range_rate_km_p_sec": [og.range_rate_eci(sen, tgt)]}
                near = el >= 89.0 or az in (0.0, 359.9) or el == 0.0
                cond = {"h": math.hypot(sez6[0], sez6[1]), "range": vg.norm(sez6),
                        "rmax": max(vg.norm(sen), vg.norm(tgt))}
                # classes
                got = {lab: float(cls_of[lab]().calculate(sen, tgt, W.utc)) for lab in labels4}
                bad = [lab for lab in labels4 if _meas_err(lab, got[lab], exp[lab]) > _tol(lab, cond)]
                res.case("measurement_class/calculate", ident, not bad, nontrivial=near,
                         signature=f"C02/measurement_class/calculate/{'+'.join(bad)}", observed=got, expected=exp, item=item)
                # Measurement.calculateMeasurement with a permuted label order, noise off and on (+e_k)
                k = (len(res.samples) + int(az) + int(el)) % 4
                saved = np.random.randn
                np.random.randn = _Randn((k, 1.0))
                try:
                    clean = m_diag.calculateMeasurement(sen, tgt, W.utc)
                    noisy = m_diag.calculateNoisyMeasurement(sen, tgt, W.utc)
                finally:
                    np.random.randn = saved
                bad = [lab for lab in order_b if _meas_err(lab, float(clean[lab]), exp[lab]) > _tol(lab, cond)]
                shift = {lab: (r_vec[j] if j == k else 0.0) for j, lab in enumerate(order_b)}
                bad += [lab + ":noise" for lab in order_b
                        if abs((float(noisy[lab]) - float(clean[lab])) - shift[lab]) > 1e-6 * max(shift[lab], 1e-9)]
                bad += ["keys"] if list(clean.keys()) != order_b else []
                res.case("measurement_class/calculateMeasurement", dict(ident, noise_index=k), not bad, nontrivial=True,
                         signature=f"C02/measurement_class/calculateMeasurement/{'+'.join(bad)}",
                         observed={"clean": {a: float(b) for a, b in clean.items()}, "noisy": {a: float(b) for a, b in noisy.items()}},
                         expected=exp, item=item)
                # helper functions incl. the rates (not used by the sensors but part of the anchored file)
                v = np.array(sez6)
                h = math.hypot(sez6[0], sez6[1])
                if h > 1e-6 * rho:
                    # both sides evaluate closed forms on the SAME 6-vector: only the different operation order matters
                    # (relative 1e-12 .. 1e-9 when h is small); 1e-7 relative exposes any wrong term or sign
                    azr, elr = _ref_rates(sez6)
                    g_azr, g_elr, g_rr = float(rmeas.getAzimuthRate(v)), float(rmeas.getElevationRate(v)), float(rmeas.getRangeRate(v))
                    scale = max(abs(azr), abs(elr), 1e-9)
                    okr = abs(g_azr - azr) <= 1e-7 * scale + 1e-15 and abs(g_elr - elr) <= 1e-7 * scale + 1e-15 \
                        and abs(g_rr - exp["range_rate_km_p_sec"][0]) <= 1e-9
                    res.case("measurement_funcs/rates", ident, okr, nontrivial=near, signature="C02/measurement_funcs/rates",
                             observed=[g_azr, g_elr, g_rr], expected=[azr, elr, exp["range_rate_km_p_sec"][0]], item=item)
                res.observe(*[got[lab] for lab in labels4])
    # zenith rule of getAzimuth on exact vectors: azimuth of the velocity
    for vel in ((0.3, -0.2, 0.1), (-1.0, 0.0, 0.0), (0.0, 1.0, 0.2), (0.5, 0.5, 0.0)):
        v = np.array([0.0, 0.0, 1234.5, *vel])
        want = vg.wrap_0_2pi(math.atan2(vel[1], -vel[0]))
        got = float(rmeas.getAzimuth(v))
        res.case("measurement_funcs/zenith_azimuth", {"vel": list(vel)}, abs(math.remainder(got - want, 2 * math.pi)) <= 1e-12,
                 nontrivial=True, signature="C02/measurement_funcs/zenith_azimuth", observed=got, expected=want, item=item)


def _run_G_static(res, item):
    """Frequency-band table, default minimum radar range, initial boresight of the configured field of regard."""
    for name, (lo, hi) in IEEE_BANDS.items():
        mean = float(rsu.FrequencyBand(name).mean)
        res.case("band_table", {"band": name}, lo <= mean <= hi, nontrivial=True, signature=f"C02/band_table/{name}",
                 observed=mean, expected=[lo, hi], item=item)
    for f in (1e5, 1.5e9, 1e10):
        got = float(rsu.calculateMinRadarRange(f))
        want = og.C_LIGHT / f / 2.0 / 1000.0
        res.case("min_radar_range", {"f": f}, abs(got - want) <= 1e-12 * want, nontrivial=True,
                 signature="C02/min_radar_range", observed=got, expected=want, item=item)
    for kind in KINDS:
        for cov in ("diag", "full"):
            c = {"diag": scen.OPT_COV if kind == "optical" else scen.RADAR_COV,
                 "full": OPT_COV_FULL if kind == "optical" else RADAR_COV_FULL}[cov]
            W = World(kind, "mid", "day", {"covariance": c})
            n = len(LABELS[kind])
            ok = ([int(a) for a in W.sensor.angle_measurements] == ANGLE_KINDS[:n] and fw.maxabs(W.sensor.r_matrix, c) == 0.0
                  and W.sensor.measurement.dim == n and list(W.sensor.measurement.labels) == LABELS[kind]
                  and type(W.sensor).__name__ == TYPE_STRING[kind]
                  and fw.maxabs(W.sensor.measurement._sqrt_noise_covar, _sqrtm_ref(c)) <= 1e-9 * math.sqrt(np.max(np.abs(c))))  # noqa: SLF001
            res.case("sensor_measurement_model", {"kind": kind, "cov": cov}, ok, nontrivial=True,
                     signature=f"C02/sensor_measurement_model/{kind}", observed=[int(a) for a in W.sensor.angle_measurements], item=item)
    for mk, mask in MASKS.items():
        for kind in ("optical", "radar"):
            W = World(kind, "mid", "day", dict(mask))
            want, mid_az, mid_el = og.initial_boresight(mask["azimuth_range"], sorted(mask["elevation_range"]))
            got = [float(x) for x in W.initial_boresight]
            err = vg.angle_between(got, want)
            mirrored = [-want[0], want[1], want[2]]  # azimuth measured from south instead of north
            lo, hi = mask["azimuth_range"]
            naive_mid = (lo + hi) / 2.0 * DEG  # arithmetic middle: the far side of a mask that wraps through north
            naive = [math.cos(mid_el) * math.cos(naive_mid), math.cos(mid_el) * math.sin(naive_mid), math.sin(mid_el)]
            naive_north = [-naive[0], naive[1], naive[2]]
            if err <= 1e-9:
                tag = "ok"
            elif vg.angle_between(got, mirrored) <= 1e-9:
                tag = "azimuth_from_south"
            elif vg.angle_between(got, naive) <= 1e-9:
                tag = "azimuth_from_south+arithmetic_middle_of_wrapping_mask"
            elif vg.angle_between(got, naive_north) <= 1e-9:
                tag = "arithmetic_middle_of_wrapping_mask"
            else:
                tag = "other"
            az_got = math.degrees(vg.wrap_0_2pi(math.atan2(got[1], -got[0])))
            res.case("initial_boresight", {"mask": mk, "kind": kind, "tag": tag, "wraps": lo > hi}, err <= 1e-9, nontrivial=True,
                     signature=f"C02/initial_boresight/{tag}", observed={"boresight": got, "azimuth_deg": az_got},
                     expected={"boresight": want, "azimuth_deg": math.degrees(mid_az)}, outcome=tag, item=item)


def _oracle_visible(W, state, area, refl, b_before, dt):
    st, mg, geo = og.evaluate(W.spec, W.frame, state, state, b_before, dt, area, refl, W.sun)
    st = dict(st)
    st.pop("fov", None)
    return st, mg, geo


def _run_G_predict(res, item):
    """tasking.predictions.predictObservation on a real EstimateAgent, and asyncExecuteTasking through the fake ray."""
    _f, kind, host, tier, seed = item
    over = {"background_observations": True, "fov": ("conic", 10.0), "slew_rate": 0.5,
            "azimuth_range": [0.0, 359.9999], "elevation_range": [-89.9, 90.0] if host in SPACE else [1.0, 89.999]}
    W = World(kind, host, _epoch_for(kind, host), over, estimate=True)
    ph = _phase(seed, 9)
    est_agent = W.estimate
    b0 = vg.unit(vg.sez_from_azel((100.0 + ph) * DEG, 45.0 * DEG, 1.0)[:3])
    rho0 = 30000.0 if kind == "optical" else 1000.0
    spots = [(100.0 + ph, 45.0, rho0), (100.0 + ph, 60.0, rho0), (100.0 + ph, 85.0, rho0), (0.0, 45.0, rho0),
             (100.0 + ph, 0.5, rho0), (100.0 + ph, 45.0, 9.0e4), (300.0, 45.0, rho0), (100.0 + ph, 70.0, rho0)]
    for az, el, rho in spots:
        state = W.place(az, el, rho)
        est_agent.state_estimate = state
        W.set_prior(b0, 60.0)
        dt = W.t - 60.0
        saved = np.random.randn
        patch = _Randn((0, 1.0))
        np.random.randn = patch
        raised = None
        try:
            got = predictObservation(W.sa, est_agent)
        except Exception as exc:  # noqa: BLE001
            got, raised = None, f"{type(exc).__name__}: {exc}"
        finally:
            np.random.randn = saved
        if raised:
            res.violate("predict/raised", {"fam": "G", "kind": kind, "host": host, "az": az, "el": el, "rho": rho},
                        signature=f"C02/predict/raised/{raised.split(':')[0]}", observed=raised, item=item)
            continue
        area, refl = est_agent.visual_cross_section, est_agent.reflectivity
        st, mg, geo = _oracle_visible(W, state, area, refl, b0, dt)
        fail, either = _failing(st), _either(st)
        ident = {"fam": "G", "kind": kind, "host": host, "az": az, "el": el, "rho": rho, "failing": fail, "either": either}
        if either:
            res.either_way += 1
            ok = True
        else:
            ok = (got is None) == bool(fail)
        res.case("predict/decision", ident, ok, nontrivial=True, signature=f"C02/predict/decision/{'+'.join(fail) or 'none'}",
                 observed="None" if got is None else "Observation", expected="None" if fail else "Observation",
                 outcome="none" if got is None else "obs", item=item)
        if got is not None:
            exp = _expected_meas(W, geo, kind, state)
            bad = [lab for lab in LABELS[kind] if _meas_err(lab, float(getattr(got, lab)), exp[lab]) > _tol(lab, geo)]
            meta = (got.target_id == est_agent.simulation_id and got.sensor_id == W.sa.simulation_id
                    and got.sensor_type == TYPE_STRING[kind] and abs(float(got.julian_date) - og.julian_date(W.utc)) <= 2e-9)
            res.case("predict/noise_free_measurement", ident, not bad and meta and patch.calls == 0, nontrivial=True,
                     signature=f"C02/predict/measurement/{'+'.join(bad) or ('noise' if patch.calls else 'meta')}",
                     observed={lab: float(getattr(got, lab)) for lab in LABELS[kind]}, expected=exp, item=item)
        # predictObservation must not move the sensor
        res.case("predict/pure", ident, fw.maxabs(W.sensor.boresight, b0) == 0.0 and float(W.sensor.time_last_tasked) == 60.0,
                 signature="C02/predict/pure", item=item)

    # ---- asyncExecuteTasking: two tasked sensors, one primary, two background targets, through ray.put / .remote
    W1 = World(kind, host, _epoch_for(kind, host), dict(over, slew_rate=3.0), estimate=False)
    W2 = World(kind, host, _epoch_for(kind, host), dict(over, slew_rate=3.0, fov=FOVS["r20"]), estimate=False)
    W2.sa._id = 20002  # noqa: SLF001  (second tasked sensor with its own id; same site)
    W = W1
    est_agent.time = ScenarioTime(W.t)
    merge = _MergeHarness(W1, [W1.sa.simulation_id, W2.sa.simulation_id], [tg.simulation_id for tg in W.targets])
    mixes = set()
    for az, el, daz, del_ in ((100.0 + ph, 45.0, 0.5, -0.3), (359.95, 30.0, 0.5, -0.3), (200.0, 80.0, 0.5, -0.3),
                              (100.0 + ph, 45.0, 9.5, 0.5), (359.95, 30.0, -9.5, 0.5), (100.0 + ph, 45.0, 25.0, 0.0),
                              (100.0 + ph, 45.0, 40.0, 0.0), (359.95, 30.0, 40.0, 0.0)):
        # pointing error (daz, del): inside both fields of view / outside the 10 deg cone of the first sensor but inside
        # the 20x10 deg rectangle of the second / outside both / outside both and straight at the second background target
        for sensors in ((W1,), (W2,), (W1, W2), (W2, W1)):
            truth = W.place(az, el, rho0)
            est_state = W.place(az + daz, el + del_, rho0 * 1.001)
            bgs = [W.place(az + 3.0, el + 1.0, rho0 * 0.99), W.place(az + 40.0, el, rho0)]
            est_agent.state_estimate = est_state
            handles = {}
            priors = []
            for Wk in sensors:
                Wk.set_prior(Wk.initial_boresight, 0.0)
                priors.append((np.array(Wk.sensor.boresight, dtype=float), 0.0))
            W.targets[0].eci_state = truth
            W.targets[1].eci_state = bgs[0]
            W.targets[2].eci_state = bgs[1]
            for tg in W.targets:
                handles[tg.simulation_id] = ray.put(tg)
            sub = TaskExecutionSubmission(ray.put(est_agent), handles, [ray.put(Wk.sa) for Wk in sensors])
            saved = np.random.randn
            np.random.randn = _Randn(None)
            raised = None
            try:
                result = ray.get(asyncExecuteTasking.remote(sub))
            except Exception as exc:  # noqa: BLE001
                raised = f"{type(exc).__name__}: {exc}"
            finally:
                np.random.randn = saved
            ident = {"fam": "G", "kind": kind, "host": host, "az": az, "el": el, "n_sensors": len(sensors), "d_est": [daz, del_],
                     "first": sensors[0].sa.simulation_id}
            if raised:
                res.violate("execute/raised", ident, signature=f"C02/execute/raised/{raised.split(':')[0]}", observed=raised, item=item)
                continue
            ok_shape = (result.target_id == W.targets[0].simulation_id and len(result.sensor_info_list) == len(sensors)
                        and [d["sensor_id"] for d in result.sensor_info_list] == [Wk.sa.simulation_id for Wk in sensors])
            res.case("execute/shape", ident, ok_shape, nontrivial=True, signature="C02/execute/shape",
                     observed={"target_id": result.target_id, "sensors": [d["sensor_id"] for d in result.sensor_info_list]}, item=item)
            for Wk, (b_before, t_last), info in zip(sensors, priors, result.sensor_info_list):
                sid = Wk.sa.simulation_id
                obs = [o for o in result.observations if o.sensor_id == sid]
                miss = [m for m in result.missed_observations if m.sensor_id == sid]
                n_p = sum(1 for o in obs if o.target_id == 10001) + sum(1 for m in miss if m.target_id == 10001)
                res.case("execute/one_record", dict(ident, sensor=sid), n_p == 1, nontrivial=True,
                         signature="C02/execute/one_record", observed=n_p, expected=1, item=item)
                states = {10001: truth, 10002: bgs[0], 10003: bgs[1]}
                for o in obs:
                    a, r = W.tprops[o.target_id - 10001]
                    st, mg, geo = og.evaluate(Wk.spec, Wk.frame, states[o.target_id], est_state, b_before, Wk.t - t_last, a, r, Wk.sun)
                    fail = _failing(st)
                    exp = _expected_meas(Wk, geo, kind, states[o.target_id])
                    bad = [lab for lab in LABELS[kind] if _meas_err(lab, float(getattr(o, lab)), exp[lab]) > _tol(lab, geo)]
                    res.case("execute/obs_constraints", dict(ident, sensor=sid, target=o.target_id, failing=fail), not fail and not bad,
                             nontrivial=True, signature=f"C02/execute/obs/{'+'.join(fail + bad)}", item=item)
                for m in miss:
                    a, r = W.tprops[m.target_id - 10001]
                    st, mg, geo = og.evaluate(Wk.spec, Wk.frame, states[m.target_id], est_state, b_before, Wk.t - t_last, a, r, Wk.sun)
                    cname = og.CONSTRAINT_OF_REASON.get(m.reason)
                    res.case("execute/miss_reason", dict(ident, sensor=sid, target=m.target_id, reason=m.reason),
                             m.target_id == 10001 and st.get(cname) in ("fail", "either"), nontrivial=True,
                             signature=f"C02/execute/miss_reason/{cname}", item=item)
                # the reported sensor update is the commanded pointing (slew is always feasible here) at the current time
                st, mg, geo = og.evaluate(Wk.spec, Wk.frame, truth, est_state, b_before, Wk.t - t_last, 10.0, 0.21, Wk.sun)
                okp = fw.maxabs(info["boresight"], geo["pointing_unit"]) <= 1e-9 and float(info["time_last_tasked"]) == Wk.t
                # ... and the driver-side objects were not touched (results cross a pickle boundary)
                okp = okp and fw.maxabs(Wk.sensor.boresight, b_before) == 0.0
                res.case("execute/sensor_info", dict(ident, sensor=sid), okp, nontrivial=True, signature="C02/execute/sensor_info",
                         observed={"boresight": list(map(float, info["boresight"])), "t": float(info["time_last_tasked"])},
                         expected={"boresight": geo["pointing_unit"], "t": Wk.t}, item=item)
            res.observe(len(result.observations), len(result.missed_observations))
            # ---- the merge of this very result into a real tasking engine and into the database
            oracle = {}
            for Wk, (b_before, t_last) in zip(sensors, priors):
                a, r = W.tprops[0]
                oracle[Wk.sa.simulation_id] = og.evaluate(Wk.spec, Wk.frame, truth, est_state, b_before, Wk.t - t_last, a, r, Wk.sun)[0]
            mixes.add(merge.check(res, item, ident, result, [Wk.sa.simulation_id for Wk in sensors], oracle))
    # a job without a tasked sensor (empty result) leaves nothing behind
    handles = {tg.simulation_id: ray.put(tg) for tg in W.targets}
    empty = ray.get(asyncExecuteTasking.remote(TaskExecutionSubmission(ray.put(est_agent), handles, [])))
    mixes.add(merge.check(res, item, {"fam": "G", "kind": kind, "host": host, "n_sensors": 0}, empty, [], {}))
    # every outcome mix of one job has been through the merge (otherwise the enumeration above lost its point)
    want = set(MERGE_MIXES)
    res.case("merge/mixes_enumerated", {"fam": "G", "kind": kind, "host": host, "seen": sorted(mixes)}, want <= mixes,
             nontrivial=True, signature="C02/merge/mixes_enumerated", observed=sorted(mixes), expected=sorted(want), item=item)


# outcome mixes of one task-execution job (one job = one primary target, every sensor tasked on it, background targets)
MERGE_MIXES = ("all_observed", "all_missed", "mixed_per_sensor", "primary_missed+background_observed", "empty")


class _MergeHarness:
    """A real CentralizedTaskingEngine (reward / decision objects from the factories, the in-memory database of the
    current fake cluster) that receives real TaskExecutionResult objects through the real
    TaskExecutionRegistration.processResults, followed by the same hand-over to the database as
    Scenario.saveDatabaseOutput (getCurrentObservations + getCurrentMissedObservations -> bulkSave)."""

    def __init__(self, W, sensor_ids, target_ids):
        from resonaate.data.agent import AgentModel  # noqa: PLC0415
        from resonaate.data.epoch import Epoch  # noqa: PLC0415
        from resonaate.data.resonaate_database import ResonaateDatabase  # noqa: PLC0415
        from resonaate.tasking.decisions import decisionFactory  # noqa: PLC0415
        from resonaate.tasking.engine.centralized_engine import CentralizedTaskingEngine  # noqa: PLC0415
        from resonaate.tasking.rewards import rewardsFactory  # noqa: PLC0415
        from sqlalchemy.orm import Query  # noqa: PLC0415

        ecfg = W.scfg.engines[0]
        self.sensor_ids, self.target_ids = list(sensor_ids), list(target_ids)
        self.primary = self.target_ids[0]
        self.make = lambda: CentralizedTaskingEngine(1, list(sensor_ids), list(target_ids), rewardsFactory(ecfg.reward),
                                                     decisionFactory(ecfg.decision), None, True)
        self.engine = self.make()
        self.db = self.engine._database  # noqa: SLF001
        assert isinstance(self.db, ResonaateDatabase)
        # rows the observation tables refer to (the Scenario writes them at build time / at every output step)
        have = {a.unique_id for a in self.db.getData(Query(AgentModel))}
        self.db.bulkSave([AgentModel(unique_id=i, name=f"A{i}") for i in self.sensor_ids + self.target_ids if i not in have])
        jd = float(W.sa.julian_date_epoch)
        if not any(abs(e.julian_date - jd) < 1e-9 for e in self.db.getData(Query(Epoch))):  # the real clock wrote its epochs
            self.db.bulkSave([Epoch(julian_date=jd, timestampISO=W.utc.isoformat(timespec="microseconds"))])
        self.jobs = 0

    def check(self, res, item, ident, result, tasked, oracle):
        """Clause (ii) after the merge: every tasked sensor has exactly one record for the primary target, an
        observation xor a miss, and a miss states a constraint that the oracle finds failing.  Returns the mix label."""
        from resonaate.parallel.tasking_execution import TaskExecutionRegistration  # noqa: PLC0415
        from sqlalchemy.orm import Query  # noqa: PLC0415

        prim = self.primary
        r_obs = sorted((o.sensor_id, o.target_id) for o in result.observations)
        r_miss = sorted((m.sensor_id, m.target_id, m.reason) for m in result.missed_observations)
        hit = {sid for sid, tid in r_obs if tid == prim}
        lost = {sid for sid, tid, _r in r_miss if tid == prim}
        bg = [1 for sid, tid in r_obs if tid != prim]
        if not tasked:
            mix = "empty"
        elif hit and lost:
            mix = "mixed_per_sensor"
        elif lost and bg:
            mix = "primary_missed+background_observed"
        elif lost:
            mix = "all_missed"
        else:
            mix = "all_observed"
        ident = dict(ident, mix=mix, job=self.jobs)
        self.jobs += 1
        # every second job goes into an engine that already holds the previous job's records of the same step (the engine
        # merges one job per target into the same lists), the others into a fresh engine
        if self.jobs % 2:
            self.engine = self.make()
        eng = self.engine
        n0 = (len(eng.observations), len(eng.missed_observations))
        raised = None
        try:
            TaskExecutionRegistration(eng, None, {}, []).processResults(result)
        except Exception as exc:  # noqa: BLE001
            raised = f"{type(exc).__name__}: {exc}"
        if raised:
            res.violate("merge/raised", ident, signature=f"C02/merge/raised/{raised.split(':')[0]}", observed=raised, item=item)
            return mix
        e_obs = sorted((o.sensor_id, o.target_id) for o in eng.observations[n0[0]:])
        e_miss = sorted((m.sensor_id, m.target_id, m.reason) for m in eng.missed_observations[n0[1]:])
        # (a) nothing of the job's result is lost or invented by the merge
        res.case("merge/engine_lists", ident, e_obs == r_obs and e_miss == r_miss, nontrivial=True,
                 signature=f"C02/merge/engine_lists/{mix}", observed={"obs": e_obs, "miss": e_miss},
                 expected={"obs": r_obs, "miss": r_miss}, outcome=f"merge:{mix}", item=item)
        # (b) clause (ii) on the engine's lists
        for sid in tasked:
            no = sum(1 for s_, t_ in e_obs if s_ == sid and t_ == prim)
            reasons = [r_ for s_, t_, r_ in e_miss if s_ == sid and t_ == prim]
            st = oracle[sid]
            true_reason = all(st.get(og.CONSTRAINT_OF_REASON.get(r_)) in ("fail", "either") for r_ in reasons)
            res.case("merge/engine_one_record", dict(ident, sensor=sid), no + len(reasons) == 1 and true_reason, nontrivial=True,
                     signature=f"C02/merge/engine_one_record/obs={no}/miss={len(reasons)}" + ("" if true_reason else "/untrue_reason"),
                     observed={"obs": no, "miss": reasons}, expected=_failing(st), item=item)
        # (c) the sensor changes of every tasked sensor are recorded
        info = {d["sensor_id"]: d for d in result.sensor_info_list}
        ok_ch = sorted(info) == sorted(tasked) and all(
            sid in eng.sensor_changes and fw.maxabs(eng.sensor_changes[sid]["boresight"], info[sid]["boresight"]) == 0.0
            and float(eng.sensor_changes[sid]["time_last_tasked"]) == float(info[sid]["time_last_tasked"]) for sid in tasked)
        res.case("merge/sensor_changes", ident, ok_ch, nontrivial=bool(tasked), signature="C02/merge/sensor_changes",
                 observed=sorted(eng.sensor_changes), expected=sorted(tasked), item=item)
        # (d) clause (ii) on the rows: what the engine hands over for saving, saved the way the Scenario saves it
        out = list(eng.getCurrentObservations()) + list(eng.getCurrentMissedObservations())
        self.db.bulkSave(out)
        o_rows = self.db.getData(Query(Observation))
        m_rows = self.db.getData(Query(MissedObservation))
        d_obs = sorted((o.sensor_id, o.target_id) for o in o_rows)
        d_miss = sorted((m.sensor_id, m.target_id, m.reason) for m in m_rows)
        res.case("merge/rows", ident, d_obs == r_obs and d_miss == r_miss, nontrivial=True, signature=f"C02/merge/rows/{mix}",
                 observed={"obs": d_obs, "miss": d_miss}, expected={"obs": r_obs, "miss": r_miss}, item=item)
        for sid in tasked:
            no = sum(1 for s_, t_ in d_obs if s_ == sid and t_ == prim)
            reasons = [r_ for s_, t_, r_ in d_miss if s_ == sid and t_ == prim]
            st = oracle[sid]
            true_reason = all(st.get(og.CONSTRAINT_OF_REASON.get(r_)) in ("fail", "either") for r_ in reasons)
            res.case("merge/rows_one_record", dict(ident, sensor=sid), no + len(reasons) == 1 and true_reason, nontrivial=True,
                     signature=f"C02/merge/rows_one_record/obs={no}/miss={len(reasons)}" + ("" if true_reason else "/untrue_reason"),
                     observed={"obs": no, "miss": reasons}, expected=_failing(st), item=item)
        self.db.deleteData(Query(Observation))
        self.db.deleteData(Query(MissedObservation))
        res.observe(mix, len(d_obs), len(d_miss))
        return mix


def _run_G_from_measurement(res, item):
    """Observation.fromMeasurement / Observation.__init__ directly: fields, ordering, epoch recovered from the JD."""
    _f, tier, seed = item
    starts = [datetime(2021, 3, 30, 16, 0, 1), datetime(2019, 12, 31, 23, 59, 29), datetime(2020, 2, 29, 12, 30, 59),
              datetime(2021, 3, 30, 16, 0, 0, 250000)]
    for start in starts:
        for kind in ("optical", "adv_radar"):
            W = World(kind, "mid", start, {})
            for t in (0.0, 60.0, 120.0, 420.0):
                W.goto(t)
                tgt = W.place(77.0, 33.0, 1200.0)
                jd = W.sa.julian_date_epoch
                o = Observation.fromMeasurement(epoch_jd=jd, target_id=7, tgt_eci_state=tgt, sensor_id=9,
                                                sensor_eci=W.sa.eci_state, sensor_type="X", measurement=W.sensor.measurement, noisy=False)
                sez = W.frame.sez(tgt)
                exp = {"azimuth_rad": og.azimuths(sez), "elevation_rad": [og.elevation(sez)], "range_km": [vg.norm(sez)],
                       "range_rate_km_p_sec": [og.range_rate_eci(W.frame.sensor_eci, tgt)]}
                cond = {"h": math.hypot(sez[0], sez[1]), "range": vg.norm(sez), "rmax": max(vg.norm(W.frame.sensor_eci), vg.norm(tgt))}
                bad = [lab for lab in LABELS[kind] if _meas_err(lab, float(getattr(o, lab)), exp[lab]) > _tol(lab, cond)]
                none_ok = all(getattr(o, lab) is None for lab in TOL if lab not in LABELS[kind])
                meta = o.target_id == 7 and o.sensor_id == 9 and o.sensor_type == "X" and float(o.julian_date) == float(jd) \
                    and fw.maxabs(o.sensor_eci, W.sa.eci_state) == 0.0 and o.reason.value == "Visible"
                res.case("from_measurement", {"start": start.isoformat(), "t": t, "kind": kind, "second": start.second},
                         not bad and none_ok and meta, nontrivial=start.second != 0 or start.microsecond != 0,
                         signature=f"C02/from_measurement/{'+'.join(bad) or 'fields'}",
                         observed={lab: getattr(o, lab) for lab in TOL}, expected=exp, item=item)
                res.observe(*[float(getattr(o, lab)) for lab in LABELS[kind]])
                if kind == "adv_radar":
                    # a measurement object with another component order: measurement_states follows its labels
                    order = ["range_rate_km_p_sec", "azimuth_rad", "range_km", "elevation_rad"]
                    mm = rmeas.Measurement.fromMeasurementLabels(order, np.array([1e-5, 2e-5, 3e-4, 4e-6]))
                    o2 = Observation.fromMeasurement(epoch_jd=jd, target_id=7, tgt_eci_state=tgt, sensor_id=9,
                                                     sensor_eci=W.sa.eci_state, sensor_type="X", measurement=mm, noisy=False)
                    want = [float(getattr(o, lab)) for lab in order]
                    res.case("from_measurement/state_order", {"start": start.isoformat(), "t": t},
                             fw.maxabs(o2.measurement_states, want) == 0.0 and o2.dim == 4, nontrivial=True,
                             signature="C02/from_measurement/state_order", observed=list(map(float, o2.measurement_states)),
                             expected=want, item=item)


# ------------------------------------------------------------------------------------------------ family H: time bias
TOL_BIAS = {"azimuth_rad": 1e-7, "elevation_rad": 1e-7, "range_km": 1e-4, "range_rate_km_p_sec": 1e-6}
# the biased target state is integrated by the library (RK45, rtol 1e-10) and by the oracle in closed form (Kepler):
# <= 1e-5 km after 120 s -> 1e-8 rad at 1000 km; the smallest bias defect to expose is 1 s = 7 km = 7e-3 rad.


def _run_H(res, item):
    """Sensor clock bias (SensorTimeBiasEvent queued on the host): the target is seen where it is at t + bias."""
    from resonaate.data.events import EventScope, SensorTimeBiasEvent  # noqa: PLC0415

    from verif.oracles import kepler_ref  # noqa: PLC0415

    _f, kind, tier, seed = item
    over = {"azimuth_range": [0.0, 359.9999], "elevation_range": [1.0, 89.999], "fov": ("conic", 40.0)}
    W = World(kind, "mid", "day" if kind != "optical" else "night", over)
    alt = 900.0 if kind != "optical" else 20000.0
    pos, vel = scen.overhead_orbit(W.start + timedelta(seconds=T_OBS), 45.0 + 2.0, -120.0 + 3.0, alt, 60.0 + _phase(seed, 10))
    x120 = np.array(pos + vel, dtype=float)
    x60 = np.array(kepler_ref.propagate([float(v) for v in x120], -DT_STEP), dtype=float)
    tg = W.targets[0]
    biases = [0.0, 5.0, -5.0, 30.0, -59.0, 60.0] + ([1.0, -1.0, 0.25, -30.0] if tier == "thorough" else [])
    for bias in biases + [61.0, -75.0]:
        W.goto(60.0)
        tg.eci_state = x60
        W.goto(T_OBS)
        tg.eci_state = x120
        W.sa.sensor_time_bias_event_queue = []
        if bias != 0.0:
            jd = og.julian_date(W.utc)
            ev = SensorTimeBiasEvent(scope=EventScope.OBSERVATION_GENERATION.value, scope_instance_id=W.sa.simulation_id,
                                     start_time_jd=jd - 1e-3, end_time_jd=jd + 1e-3, event_type="sensor_time_bias",
                                     applied_bias=bias)
            W.sa.appendTimeBiasEvent(ev)
        W.set_prior(W.initial_boresight, 0.0)
        ident = {"fam": "H", "kind": kind, "bias": bias}
        saved = np.random.randn
        np.random.randn = _Randn(None)
        err = None
        try:
            obs, miss, _b, _t = W.sensor.collectObservations(x120, tg, [])
        except ValueError as exc:
            err = str(exc)
        finally:
            np.random.randn = saved
        if abs(bias) > DT_STEP:
            res.case("time_bias/too_large", ident, err is not None, nontrivial=True, signature="C02/time_bias/too_large_accepted",
                     observed=err, expected="ValueError (bias larger than the time step)", item=item)
            continue
        if err is not None:
            res.violate("time_bias/raised", ident, signature="C02/time_bias/raised", observed=err, item=item)
            continue
        seen = np.array(kepler_ref.propagate([float(v) for v in x60], DT_STEP + bias), dtype=float)
        st, mg, geo = og.evaluate(W.spec, W.frame, seen, x120, W.initial_boresight, T_OBS, W.tprops[0][0], W.tprops[0][1], W.sun)
        fail = _failing(st)
        one = len(obs) + len(miss) == 1
        res.case("time_bias/one_record", ident, one, nontrivial=True, signature="C02/time_bias/one_record", item=item)
        for o in obs:
            exp = _expected_meas(W, geo, kind, seen)
            bad = [lab for lab in LABELS[kind] if _meas_err(lab, float(getattr(o, lab)), exp[lab]) > _tol(lab, geo, TOL_BIAS)]
            res.case("time_bias/measurement", dict(ident, failing=fail), not bad and not fail, nontrivial=True,
                     signature=f"C02/time_bias/measurement/{'+'.join(bad + fail)}",
                     observed={lab: float(getattr(o, lab)) for lab in LABELS[kind]}, expected=exp, item=item)
            res.observe(*[float(getattr(o, lab)) for lab in LABELS[kind]])
        for m in miss:
            cname = og.CONSTRAINT_OF_REASON.get(m.reason)
            res.case("time_bias/miss_reason", dict(ident, reason=m.reason), st.get(cname) in ("fail", "either"), nontrivial=True,
                     signature=f"C02/time_bias/miss_reason/{cname}", observed=m.reason, expected=fail, item=item)
    W.sa.sensor_time_bias_event_queue = []


# ------------------------------------------------------------------------------------------------ family S: DB rows
def _spec_from_cfg(sensor_cfg, space):
    sc = sensor_cfg["sensor"]
    fovc = sc["field_of_view"]
    fov = ("conic", fovc["cone_angle"]) if fovc["fov_shape"] == "conic" else ("rect", fovc["azimuth_angle"], fovc["elevation_angle"])
    spec = {"kind": sc["type"], "space": space, "az_mask": list(sc["azimuth_range"]), "el_mask": list(sc["elevation_range"]),
            "fov": fov, "slew_rate": sc["slew_rate"], "max_range": sc.get("maximum_range")}
    if sc["type"] == "optical":
        spec["min_range"] = 0.0
        spec["detectable_vismag"] = sc.get("detectable_vismag", 25.0)
    else:
        spec.update(tx_power=sc["tx_power"], tx_frequency=sc["tx_frequency"], min_detectable_power=sc["min_detectable_power"],
                    diameter=sc["aperture_diameter"], efficiency=sc["efficiency"])
        spec["min_range"] = (og.C_LIGHT / sc["tx_frequency"] / 2.0) / 1000.0
    return spec


def _run_S(res, item):
    """Rows of the observations / missed_observations tables written by a real Scenario (tasking engine, fake-ray jobs,
    database) against the oracle evaluated on the truth ephemeris rows of the same epoch; the engines' own lists after
    every step and the rows at the end against the tasked attempts (decision matrices, tasks rows): exactly one record
    per tasked attempt, also when one job returns observations and misses together."""
    from resonaate.data.ephemeris import TruthEphemeris  # noqa: PLC0415
    from resonaate.physics.time.stardate import datetimeToJulianDate  # noqa: PLC0415
    from sqlalchemy.orm import Query  # noqa: PLC0415

    from resonaate.data.task import Task  # noqa: PLC0415

    _f, variant, tier, seed = item
    start = EPOCHS["night"]
    ph = _phase(seed, 11)
    when = start + timedelta(seconds=120)
    subs = [(45.5, -120.5, 900.0, 60.0 + ph), (46.0, -118.0, 20000.0, 90.0), (43.5, -121.0, 1500.0, 120.0 + ph)]
    tg = []
    for j, sub in enumerate(subs):
        tc = scen.target_eci(10001 + j, *scen.overhead_orbit(when, *sub))
        tc["platform"].update(visual_cross_section=10.0, reflectivity=0.21, mass=100.0)
        tg.append(tc)
    n_steps = 3 if tier == "quick" else 6
    cone = lambda deg: {"fov_shape": "conic", "cone_angle": deg}  # noqa: E731
    # sensor of the second engine (whose targets are background targets for the first): on the far side of the Earth,
    # never visible, never tasked (a second precise radar track of a 60 km prior in the same step makes the UKF
    # covariance indefinite: not C02's subject)
    far = scen.ground_sensor(20005, -45.0, 60.0, kind="adv_radar", fov=cone(60.0))
    # a target 40 km above the first one on the same ground track (2-3 deg from it as seen from the sites)
    near = scen.target_eci(10004, *scen.overhead_orbit(when, subs[0][0], subs[0][1], subs[0][2] + 40.0, subs[0][3]))
    near["platform"].update(visual_cross_section=10.0, reflectivity=0.21, mass=100.0)
    if variant in ("wide", "narrow"):
        # one sensor per target (Munkres): every job has a single tasked sensor
        wide = cone(60.0 if variant == "wide" else 5.0)
        ss = [scen.ground_sensor(20001, 45.0, -120.0, kind="adv_radar", fov=wide),
              scen.ground_sensor(20002, 44.0, -119.0, kind="optical", fov=wide),
              scen.ground_sensor(20003, 46.0, -121.5, kind="radar", fov=wide, azimuth_range=[300.0, 200.0])]
        engines = [scen.engine(1, tg, ss)]
        cfg = scen.config(start, n_steps + 1, engines, physics=60, observation={"background": True}, seed=3)
        if variant == "narrow":
            cfg["noise"]["init_position_std_km"] = 40.0  # poor initial estimates: the narrow field of view misses the truth
    elif variant in ("shared", "shared_bg", "shared_out2"):
        # every sensor is tasked on the single target of the engine (greedy decision): ONE job per step carries the
        # attempts of all of them; the initial estimate is poor (60 km at 900 km range = 4 deg), so the 0.5 deg fields
        # of view miss the truth while the 60 deg one holds it -> jobs with observations AND misses
        ss = [scen.ground_sensor(20001, 45.0, -120.0, kind="adv_radar", fov=cone(60.0)),
              scen.ground_sensor(20002, 44.0, -119.0, kind="adv_radar", fov=cone(0.5)),
              scen.ground_sensor(20003, 46.0, -121.5, kind="radar", fov=cone(0.5)),
              scen.ground_sensor(20004, 44.5, -121.0, kind="optical", fov=cone(0.5))]
        engines = [scen.engine(1, tg[:1], ss, decision="MyopicNaiveGreedyDecision"),
                   scen.engine(2, [near], [far])]
        # shared_out2: database output every second step only - the records of the steps in between wait in the engine
        if variant == "shared_out2":
            n_steps += n_steps % 2
        cfg = scen.config(start, n_steps + 2, engines, physics=60, output=120 if variant == "shared_out2" else None,
                          observation={"background": variant != "shared"}, seed=3)
        cfg["noise"]["init_position_std_km"] = 60.0
    elif variant == "companion":
        # a single narrow sensor with background observations on, tasked on a poorly estimated primary; a second target
        # (of another engine) flies exactly where the primary is believed to be -> primary missed, background observed,
        # both in the result of one job
        ss = [scen.ground_sensor(20001, 45.0, -120.0, kind="adv_radar", fov=cone(0.5))]
        engines = [scen.engine(1, tg[:1], ss, decision="MyopicNaiveGreedyDecision"),
                   scen.engine(2, tg[1:2], [far])]
        cfg = scen.config(start, n_steps + 1, engines, physics=60, observation={"background": True}, seed=3)
        cfg["noise"]["init_position_std_km"] = 60.0
    else:
        raise ValueError(variant)
    ss = [c for e in engines for c in e["sensors"]]
    sc = scen.build(cfg)
    if variant == "companion":
        sc.target_agents[10002].eci_state = np.array(sc.estimate_agents[10001].eci_state, dtype=float)
    # one step at a time: after every step the engines' own lists are compared with their decision matrices
    # clause (ii) on the engine: every tasked (sensor, target) pair has exactly one record, observation xor miss
    eng_mixed = 0
    live, attempts = {}, []
    for k in range(1, n_steps + 1):
        sc.propagateTo(datetimeToJulianDate(start + timedelta(seconds=60 * k)))
        for aid, agent in list(sc.target_agents.items()) + list(sc.sensor_agents.items()):
            live[(aid, 60 * k)] = np.array(agent.eci_state, dtype=float)
        for eid, eng in sorted(sc._tasking_engines.items()):  # noqa: SLF001
            e_obs = [(o.sensor_id, o.target_id) for o in eng.observations]
            e_miss = [(m.sensor_id, m.target_id) for m in eng.missed_observations]
            for tid, ti in eng.target_indices.items():
                tasked_here = [sid for sid, si in eng.sensor_indices.items() if eng.decision_matrix[ti, si]]
                hits = [sid for sid in tasked_here if (sid, tid) in e_obs]
                if tasked_here and len(hits) < len(tasked_here) and any(o[0] in tasked_here for o in e_obs):
                    eng_mixed += 1
                for sid in tasked_here:
                    attempts.append((sid, tid, 60 * k))
                    no, nm = e_obs.count((sid, tid)), e_miss.count((sid, tid))
                    res.case("engine/one_record", {"fam": "S", "variant": variant, "engine": eid, "step": k, "sensor": sid,
                                                   "target": tid}, no + nm == 1, nontrivial=True,
                             signature=f"C02/engine/one_record/obs={no}/miss={nm}", observed=[no, nm], expected="one record",
                             outcome=f"engine:{'obs' if no else 'miss' if nm else 'none'}", item=item)
            # no miss record for an attempt that was not tasked
            stray = [m for m in e_miss if not (m[1] in eng.target_indices and m[0] in eng.sensor_indices
                                               and eng.decision_matrix[eng.target_indices[m[1]], eng.sensor_indices[m[0]]])]
            res.case("engine/no_stray_miss", {"fam": "S", "variant": variant, "engine": eid, "step": k}, not stray,
                     signature="C02/engine/stray_miss", observed=stray, item=item)
    truth = {}
    for r in sc.database.getData(Query(TruthEphemeris)):
        truth[(r.agent_id, round((r.julian_date - float(sc.clock.julian_date_start)) * 86400.0))] = np.array(r.eci, dtype=float)
    for key, val in live.items():
        truth.setdefault(key, val)  # steps without database output: the agents' own states at that step
    specs = {c["id"]: _spec_from_cfg(c, False) for c in ss}
    covs = {c["id"]: np.array(c["sensor"]["covariance"], dtype=float) for c in ss}
    jd0 = float(sc.clock.julian_date_start)
    frames = {}

    def _eval(row):
        k = round((row.julian_date - jd0) * 86400.0)
        utc = start + timedelta(seconds=k)
        sen = truth.get((row.sensor_id, k))
        tgt = truth.get((row.target_id, k))
        if sen is None or tgt is None:
            return None
        key = (row.sensor_id, k)
        if key not in frames:
            frames[key] = (og.Frame(sen, utc, eci2ecef), np.asarray(Sun.getPosition(og.julian_date(utc)), dtype=float).reshape(-1)[:3])
        fr, sun = frames[key]
        # pointing (the filter's predicted state) is not stored: FoV and slew are not evaluated here
        st, mg, geo = og.evaluate(specs[row.sensor_id], fr, tgt, tgt, [0.0, 0.0, 1.0], 1e9, 10.0, 0.21, sun)
        st.pop("fov"); st.pop("slew")
        return k, sen, st, mg, geo

    obs_rows = sc.database.getData(Query(Observation))
    miss_rows = sc.database.getData(Query(MissedObservation))
    for o in obs_rows:
        ev = _eval(o)
        ident = {"fam": "S", "variant": variant, "sensor": o.sensor_id, "target": o.target_id, "jd": o.julian_date}
        if ev is None:
            res.violate("db/obs_row_without_truth", ident, signature="C02/db/obs_row_without_truth", item=item)
            continue
        k, sen, st, mg, geo = ev
        fail = _failing(st)
        kind = specs[o.sensor_id]["kind"]
        ok_meta = o.sensor_type == TYPE_STRING[kind] and fw.maxabs(o.sensor_eci, sen) <= 1e-9
        res.case("db/obs_constraints", dict(ident, failing=fail), not fail and ok_meta, nontrivial=True,
                 signature=f"C02/db/obs/{'+'.join(fail) or 'meta'}", observed={"type": o.sensor_type}, item=item)
        exp = {"azimuth_rad": geo["az"], "elevation_rad": [geo["el"]], "range_km": [geo["range"]],
               "range_rate_km_p_sec": [geo["range_rate"]]}
        sig = np.sqrt(np.diag(covs[o.sensor_id]))
        bad = []
        for j, lab in enumerate(LABELS[kind]):
            val = getattr(o, lab)
            # "within the sensor's stated noise": 6 sigma (deterministic draws; P(false alarm) = 2e-9 per component)
            if val is None or _meas_err(lab, float(val), exp[lab]) > 6.0 * sig[j] + _tol(lab, geo):
                bad.append(lab)
        bad += [lab for lab in TOL if lab not in LABELS[kind] and getattr(o, lab) is not None]
        res.case("db/obs_measurement_within_noise", ident, not bad, nontrivial=True, signature=f"C02/db/measurement/{'+'.join(bad)}",
                 observed={lab: getattr(o, lab) for lab in TOL}, expected=exp, item=item)
        res.observe(o.sensor_id, o.target_id, float(o.azimuth_rad), float(o.elevation_rad))
    for m in miss_rows:
        ev = _eval(m)
        ident = {"fam": "S", "variant": variant, "sensor": m.sensor_id, "target": m.target_id, "jd": m.julian_date, "reason": m.reason}
        if ev is None:
            res.violate("db/miss_row_without_truth", ident, signature="C02/db/miss_row_without_truth", item=item)
            continue
        k, sen, st, mg, geo = ev
        cname = og.CONSTRAINT_OF_REASON.get(m.reason)
        ok = cname in ("fov", "slew") or st.get(cname) in ("fail", "either")
        res.case("db/miss_reason", dict(ident, failing=_failing(st)), ok, nontrivial=True, signature=f"C02/db/miss_reason/{cname}",
                 observed=m.reason, expected=_failing(st), outcome=f"reason={cname}", item=item)
        res.observe(m.sensor_id, m.target_id, m.reason)
    # one record per (tasked sensor, primary target, step): no (sensor, target, epoch) appears both observed and missed
    seen = {}
    for o in obs_rows:
        seen.setdefault((o.sensor_id, o.target_id, round((o.julian_date - jd0) * 86400.0)), [0, 0])[0] += 1
    for m in miss_rows:
        seen.setdefault((m.sensor_id, m.target_id, round((m.julian_date - jd0) * 86400.0)), [0, 0])[1] += 1
    for key, (no, nm) in sorted(seen.items()):
        res.case("db/xor", {"fam": "S", "variant": variant, "key": list(key)}, no + nm == 1, nontrivial=True,
                 signature=f"C02/db/xor/obs={no}/miss={nm}", observed=[no, nm], item=item)
    # every tasked attempt (tasks row with decision set) has exactly one row for its primary target, observation xor miss
    task_rows = [t for t in sc.database.getData(Query(Task)) if t.decision]
    mixed_jobs = 0
    per_job = {}
    for t in task_rows:
        key = (t.sensor_id, t.target_id, round((t.julian_date - jd0) * 86400.0))
        no, nm = seen.get(key, [0, 0])
        res.case("db/tasked_attempt_one_record", {"fam": "S", "variant": variant, "key": list(key)}, no + nm == 1, nontrivial=True,
                 signature=f"C02/db/tasked_attempt/obs={no}/miss={nm}", observed=[no, nm], expected="one row",
                 outcome=f"tasked:{'obs' if no else 'miss' if nm else 'none'}", item=item)
        per_job.setdefault((t.target_id, key[2]), []).append((t.sensor_id, no))
    for (tid, k), att in per_job.items():
        tasked_ids = {sid for sid, _n in att}
        missed_primary = any(n == 0 for _s, n in att)
        any_obs = any(o.sensor_id in tasked_ids and round((o.julian_date - jd0) * 86400.0) == k for o in obs_rows)
        mixed_jobs += bool(missed_primary and any_obs)
    # the same against the engines' decision matrices of every step (the tasks table has rows of the output steps only)
    for key in attempts:
        no, nm = seen.get(key, [0, 0])
        res.case("db/engine_attempt_one_record", {"fam": "S", "variant": variant, "key": list(key)}, no + nm == 1, nontrivial=True,
                 signature=f"C02/db/engine_attempt/obs={no}/miss={nm}", observed=[no, nm], expected="one row", item=item)
    res.case("db/tasks_rows_are_engine_attempts", {"fam": "S", "variant": variant},
             {(t.sensor_id, t.target_id, round((t.julian_date - jd0) * 86400.0)) for t in task_rows} <= set(attempts),
             signature="C02/db/tasks_rows_not_engine_attempts", item=item)
    # ... and every miss row belongs to a tasked attempt
    tasked_keys = set(attempts)
    for m in miss_rows:
        key = (m.sensor_id, m.target_id, round((m.julian_date - jd0) * 86400.0))
        res.case("db/miss_row_is_tasked", {"fam": "S", "variant": variant, "key": list(key)}, key in tasked_keys,
                 signature="C02/db/miss_row_not_tasked", item=item)
    if variant in ("shared", "shared_bg", "shared_out2", "companion"):
        # the variant exists for the jobs with a mixed outcome: it must contain them (steps of the real engine and rows)
        res.case("db/mixed_jobs_present", {"fam": "S", "variant": variant}, mixed_jobs >= 1 and eng_mixed >= 1, nontrivial=True,
                 signature="C02/db/mixed_jobs_present", observed={"rows": mixed_jobs, "engine_steps": eng_mixed}, item=item)
    res.extra["db_tasked_attempts"] = res.extra.get("db_tasked_attempts", 0) + len(task_rows)
    res.extra["db_mixed_outcome_jobs"] = res.extra.get("db_mixed_outcome_jobs", 0) + mixed_jobs
    res.extra["db_observation_rows"] = res.extra.get("db_observation_rows", 0) + len(obs_rows)
    res.extra["db_missed_rows"] = res.extra.get("db_missed_rows", 0) + len(miss_rows)


# ------------------------------------------------------------------------------------------------ family M: engines
M_VARIANTS = ("two", "two_rev", "three", "three_rot", "pair", "joined")
M_RATES = (0.2, 0.35)  # deg/s: 12 / 21 deg per 60 s step - one / two ~10 deg hops of the belts below per step
GEO_ALT = 35786.0


def _belt(start, first_id, lons):
    """Geostationary targets (fixed on a ground sensor's sky) at the given sub-satellite longitudes."""
    out = []
    for j, lon in enumerate(lons):
        tc = scen.target_eci(first_id + j, *scen.overhead_orbit(start, 0.0, lon, GEO_ALT, 90.0))
        tc["platform"].update(visual_cross_section=25.0, reflectivity=0.3, mass=500.0)
        out.append(tc)
    return out


def _m_config(variant, rate, start, n_steps, ph):
    """Engines (in configuration order), sensors added by event, per-variant description."""
    cone = {"fov_shape": "conic", "cone_angle": 4.0}
    strong = {"tx_power": 1.0e9}  # radar sensitivity out of the way at geostationary range: pointing decides
    # engine "west": a slow radar at 35 N 0 E; the belt 0, 9 W, 18 W, 27 W is a chain of ~10 deg hops on its sky, the
    # target at 50 W is ~55 deg from the first one
    d = 0.5 * ph / 30.0  # phase of the lattice: the whole belt moves by up to half a degree
    s_w = scen.ground_sensor(20001, 35.0, 0.0, kind="adv_radar", fov=cone, slew_rate=rate, **strong)
    t_w = _belt(start, 10001, [0.0 + d, -9.0 + d, -18.0 + d, -27.0 + d, -50.0])
    # engine "south": a slow radar at 30 S 20 E looking north (mask wraps through north), belt 20 E ... 47 E and 75 E
    s_s = scen.ground_sensor(20011, -30.0, 20.0, kind="radar", fov=cone, slew_rate=rate, azimuth_range=[270.0, 90.0], **strong)
    t_s = _belt(start, 10011, [20.0 - d, 29.0 - d, 38.0 - d, 47.0 - d, 75.0])
    # engine "east": a slow telescope at 35 N 45 E (night), belt 45 E ... 18 E and 100 E
    s_e = scen.ground_sensor(20021, 35.0, 45.0, kind="optical", fov=cone, slew_rate=rate)
    t_e = _belt(start, 10021, [45.0 + d, 36.0 + d, 27.0 + d, 18.0 + d, 100.0])
    # a second slow radar of the west engine (two sensors share one belt)
    s_w2 = scen.ground_sensor(20002, 33.0, -4.0, kind="radar", fov=cone, slew_rate=rate, **strong)
    # a slow radar that joins the west engine through a sensor_addition event; its azimuth mask wraps through north
    # ([100, 260] clockwise would be the southern sky; [260, 100] is everything but a 160 deg sector to the south ...
    # the belt lies to the south of a northern site, so the joining sensor sits in the southern hemisphere)
    s_add = scen.ground_sensor(20031, -25.0, -10.0, kind="adv_radar", fov=cone, slew_rate=rate, azimuth_range=[300.0, 60.0],
                               elevation_range=[20.0, 80.0], **strong)
    west = lambda eid, sensors=None: scen.engine(eid, t_w, sensors or [s_w])  # noqa: E731
    south = lambda eid: scen.engine(eid, t_s, [s_s])  # noqa: E731
    east = lambda eid: scen.engine(eid, t_e, [s_e])  # noqa: E731
    events = []
    if variant == "two":
        engines = [west(1), south(2)]
    elif variant == "two_rev":
        engines = [south(2), west(1)]
    elif variant == "three":
        engines = [west(5), east(3), south(9)]
    elif variant == "three_rot":
        engines = [south(9), west(5), east(3)]
    elif variant == "pair":
        engines = [west(4, [s_w, s_w2]), east(2)]
    elif variant == "joined":
        engines = [west(4), south(7)]
        events = [{"scope": "scenario_step", "scope_instance_id": 0, "start_time": scen.iso(start + timedelta(seconds=120)),
                   "end_time": scen.iso(start + timedelta(seconds=120)), "event_type": "sensor_addition", "tasking_engine_id": 4,
                   "sensor_agent": s_add}]
    else:
        raise ValueError(variant)
    cfg = scen.config(start, n_steps + 1, engines, physics=60, observation={"background": True}, seed=3, events=events)
    return cfg, engines, ([s_add] if events else [])


def _run_M(res, item):
    """Scenarios with two / three tasking engines and slew rates that bind: the pointing history of every sensor is
    replayed by the oracle from the records of every step (decision matrices, the engines' observation / miss lists,
    the estimates the sensors were pointed at, the truth states): after every step the boresight and last-tasked time of
    every SensingAgent of the Scenario must be those of its last feasible tasked attempt, every reported observation
    must pass every constraint INCLUDING slew reachability from the replayed previous pointing, every miss must state a
    failing constraint; at the end the rows of the database must be the records of the steps."""
    from resonaate.physics.time.stardate import datetimeToJulianDate  # noqa: PLC0415
    from sqlalchemy.orm import Query  # noqa: PLC0415

    _f, variant, rate, tier, seed = item
    start = EPOCHS["aug"]
    ph = _phase(seed, 12)
    n_steps = 6 if tier == "quick" else 10
    cfg, engines, added = _m_config(variant, rate, start, n_steps, ph)
    sensor_cfgs = {c["id"]: c for e in engines for c in e["sensors"]}
    sensor_cfgs.update({c["id"]: c for c in added})
    specs = {sid: _spec_from_cfg(c, False) for sid, c in sensor_cfgs.items()}
    props = {t["id"]: (t["platform"]["visual_cross_section"], t["platform"]["reflectivity"]) for e in engines for t in e["targets"]}
    sc = scen.build(cfg)
    order = list(sc._tasking_engines)  # noqa: SLF001  (the order in which stepForward visits the engines)
    place = {eid: ("last" if k == len(order) - 1 else "first" if k == 0 else "middle") for k, eid in enumerate(order)}
    # the replayed pointing state of every sensor: (boresight unit vector in its horizon frame, time last tasked)
    replay = {}
    for sid, agent in sc.sensor_agents.items():
        sp = specs[sid]
        want, _a, _e = og.initial_boresight(sp["az_mask"], sorted(sp["el_mask"]))
        replay[sid] = (np.array(want, dtype=float), 0.0)
    stats = {"tasked": 0, "idle": 0, "obs": 0, "miss": 0, "hops": [], "binding": 0, "joined_obs": 0}
    joined = {c["id"] for c in added}
    all_records = {"obs": [], "miss": []}
    for k in range(1, n_steps + 1):
        t = 60.0 * k
        utc = start + timedelta(seconds=t)
        sc.propagateTo(datetimeToJulianDate(utc))
        sun = np.asarray(Sun.getPosition(og.julian_date(utc)), dtype=float).reshape(-1)[:3]
        for sid in sc.sensor_agents:
            if sid not in replay:  # joined during this step (sensor_addition event): not tasked before it exists
                sp = specs[sid]
                want, _a, _e = og.initial_boresight(sp["az_mask"], sorted(sp["el_mask"]))
                replay[sid] = (np.array(want, dtype=float), t - 60.0)
        engine_of = {}
        tasked = {}
        records = {}
        for eid, eng in sc._tasking_engines.items():  # noqa: SLF001
            for sid, si in eng.sensor_indices.items():
                engine_of[sid] = eid
                tasked.setdefault(sid, [])
                for tid, ti in eng.target_indices.items():
                    if eng.decision_matrix[ti, si]:
                        tasked[sid].append(tid)
            for o in eng.observations:
                records.setdefault(o.sensor_id, {"obs": [], "miss": []})["obs"].append(o)
                all_records["obs"].append((o.sensor_id, o.target_id, k))
            for m in eng.missed_observations:
                records.setdefault(m.sensor_id, {"obs": [], "miss": []})["miss"].append(m)
                all_records["miss"].append((m.sensor_id, m.target_id, k, m.reason))
        for sid, agent in sorted(sc.sensor_agents.items()):
            eid = engine_of.get(sid)
            ident = {"fam": "M", "variant": variant, "rate": rate, "step": k, "t": t, "sensor": sid, "engine": eid,
                     "engine_position": place.get(eid), "n_engines": len(order), "kind": specs[sid]["kind"]}
            rec = records.get(sid, {"obs": [], "miss": []})
            b_prev, t_prev = replay[sid]
            tids = tasked.get(sid, [])
            ok_one = len(tids) <= 1
            res.case("multi_engine/one_task_per_sensor", dict(ident, tasked=tids), ok_one, signature="C02/multi_engine/one_task_per_sensor",
                     observed=tids, item=item)
            if not ok_one:
                replay[sid] = (np.array(agent.sensors.boresight, dtype=float), float(agent.sensors.time_last_tasked))
                continue
            fr = og.Frame(np.array(agent.eci_state, dtype=float), utc, eci2ecef)
            slew_status = None
            if tids:
                tid = tids[0]
                stats["tasked"] += 1
                est = np.array(sc.estimate_agents[tid].nominal_filter.pred_x, dtype=float)
                truth = np.array(sc.target_agents[tid].eci_state, dtype=float)
                st, mg, geo = og.evaluate(specs[sid], fr, truth, est, b_prev, t - t_prev, *props[tid], sun)
                fail, either = _failing(st), _either(st)
                slew_status = st["slew"]
                hop = math.degrees(geo["slew_angle"])
                reach = specs[sid]["slew_rate"] * (t - t_prev)
                stats["hops"].append(round(hop, 2))
                # the slew rate shapes this step when some target of the sensor's engine is out of reach
                eng_targets = list(sc._tasking_engines[eid].target_indices)  # noqa: SLF001
                far = [t2 for t2 in eng_targets if math.degrees(vg.angle_between(
                    fr.sez(np.array(sc.target_agents[t2].eci_state, dtype=float))[:3], list(b_prev))) > reach]
                stats["binding"] += bool(far)
                cid = dict(ident, target=tid, failing=fail, either=either, hop_deg=hop, reach_deg=reach, last_tasked=t_prev,
                           out_of_reach=far)
                n_o = sum(1 for o in rec["obs"] if o.target_id == tid)
                reasons = [m.reason for m in rec["miss"] if m.target_id == tid]
                res.case("multi_engine/one_record", cid, n_o + len(reasons) == 1, nontrivial=True,
                         signature=f"C02/multi_engine/one_record/obs={n_o}/miss={len(reasons)}", observed=[n_o, reasons],
                         outcome=f"M:{'obs' if n_o else 'miss'}", item=item)
                if n_o:
                    stats["obs"] += 1
                    stats["joined_obs"] += sid in joined
                    # clause (i) with the TRUE previous pointing: reachable within slew_rate x time since the last slew
                    res.case("multi_engine/obs_constraints", cid, not fail, nontrivial=True,
                             signature=f"C02/multi_engine/obs_constraints/{'+'.join(fail) or 'none'}/engine_{place.get(eid)}",
                             observed={"reported": "Observation", "margins": {c: mg[c] for c in fail}},
                             expected="no failing constraint (slew: hop <= reach from the previous pointing)",
                             outcome="M:obs_ok" if not fail else f"M:obs_{'+'.join(fail)}", item=item)
                    if either:
                        res.either_way += 1
                for r_ in reasons:
                    stats["miss"] += 1
                    cname = og.CONSTRAINT_OF_REASON.get(r_)
                    ok = st.get(cname) in ("fail", "either")
                    res.case("multi_engine/miss_reason", dict(cid, reason=r_), ok, nontrivial=True,
                             signature=f"C02/multi_engine/miss_reason/{cname or 'unknown'}/not_failing/engine_{place.get(eid)}",
                             observed=r_, expected=fail, outcome=f"M:miss_{cname}", item=item)
                # serendipitous observations of this sensor: same pointing, same previous boresight
                for o in rec["obs"]:
                    if o.target_id == tid:
                        continue
                    tr2 = np.array(sc.target_agents[o.target_id].eci_state, dtype=float)
                    s2, m2, _g2 = og.evaluate(specs[sid], fr, tr2, est, b_prev, t - t_prev, *props[o.target_id], sun)
                    f2 = _failing(s2)
                    res.case("multi_engine/background_constraints", dict(cid, background=o.target_id, failing=f2), not f2,
                             nontrivial=True, signature=f"C02/multi_engine/background_constraints/{'+'.join(f2) or 'none'}",
                             observed={c: m2[c] for c in f2}, item=item)
                if slew_status == "pass":
                    replay[sid] = (np.array(geo["pointing_unit"], dtype=float), t)
                elif slew_status == "either":
                    res.either_way += 1
                    replay[sid] = (np.array(agent.sensors.boresight, dtype=float), float(agent.sensors.time_last_tasked))
                res.observe(sid, tid, n_o, reasons, round(hop, 6))
            else:
                stats["idle"] += 1
                stray = [(o.target_id) for o in rec["obs"]] + [(m.target_id, m.reason) for m in rec["miss"]]
                res.case("multi_engine/idle_no_records", ident, not stray, nontrivial=True, signature="C02/multi_engine/idle_records",
                         observed=stray, expected=[], item=item)
            # ---- the Scenario's own SensingAgent after the step: boresight / time_last_tasked of the last feasible attempt
            if slew_status != "either":
                b_want, t_want = replay[sid]
                b_live = np.array(agent.sensors.boresight, dtype=float)
                t_live = float(agent.sensors.time_last_tasked)
                # 1e-9: the pointing is the unit vector of one rotated difference of positions (rounding 1e-15)
                ok = fw.maxabs(b_live, b_want) <= 1e-9 and t_live == t_want
                mode = "idle" if not tids else ("slewed" if slew_status == "pass" else "refused")
                res.case("multi_engine/pointing_state", dict(ident, mode=mode), ok, nontrivial=True,
                         signature=f"C02/multi_engine/pointing_state/{mode}/engine_{place.get(eid)}",
                         observed={"boresight": b_live.tolist(), "time_last_tasked": t_live},
                         expected={"boresight": b_want.tolist(), "time_last_tasked": t_want}, outcome=f"M:state_{mode}", item=item)
                res.observe(b_live, t_live)
    # the variant exists for pointing histories in which the slew rate decides: they must be there
    res.case("multi_engine/histories_present", {"fam": "M", "variant": variant, "rate": rate, "stats": {k_: v for k_, v in stats.items() if k_ != "hops"}},
             stats["obs"] >= 2 * len(order) and stats["binding"] >= 2 and len(order) >= 2
             and (not joined or stats["joined_obs"] >= 2), nontrivial=True,
             signature="C02/multi_engine/histories_present", observed=stats, item=item)
    # the rows of the database are the records of the steps
    jd0 = float(sc.clock.julian_date_start)
    d_obs = sorted((o.sensor_id, o.target_id, round((o.julian_date - jd0) * 1440.0)) for o in sc.database.getData(Query(Observation)))
    d_miss = sorted((m.sensor_id, m.target_id, round((m.julian_date - jd0) * 1440.0), m.reason)
                    for m in sc.database.getData(Query(MissedObservation)))
    res.case("multi_engine/rows", {"fam": "M", "variant": variant}, d_obs == sorted(all_records["obs"]) and d_miss == sorted(all_records["miss"]),
             nontrivial=True, signature="C02/multi_engine/rows", observed={"obs": len(d_obs), "miss": len(d_miss)},
             expected={"obs": len(all_records["obs"]), "miss": len(all_records["miss"])}, item=item)
    for sid in [c["id"] for c in added]:
        res.case("multi_engine/joined_sensor_present", {"fam": "M", "variant": variant, "sensor": sid}, sid in sc.sensor_agents,
                 nontrivial=True, signature="C02/multi_engine/joined_sensor_missing", item=item)
    res.extra["multi_engine_tasked_attempts"] = res.extra.get("multi_engine_tasked_attempts", 0) + stats["tasked"]
    res.extra["multi_engine_hops_deg"] = res.extra.get("multi_engine_hops_deg", []) + [[variant, rate, stats["hops"]]]


# ================================================================================================ items
def items(tier, seed):
    out = []
    hosts = _hosts(tier)
    for kind in KINDS:
        for host in hosts:
            for mk in ("MK0", "MK1", "MK2"):
                for rg in ("R0", "R1"):
                    out.append(("A", kind, host, mk, rg, tier, seed))
    for kind in KINDS:
        out.append(("A", kind, "mid", "MK3", "R0", tier, seed))
        for mk in ("MK4", "MK5"):
            out.append(("A", kind, "mid", mk, "R0", tier, seed))
    # ---- the same lattices for sensors that join through a sensor_addition event (event handled at t = 0 / 60 s)
    n = 0
    for ki, kind in enumerate(KINDS):
        for hi, host in enumerate(("mid", "south", "leo_inc") if tier == "quick" else ("mid", "south", "leo_inc", "eq", "polar", "geo")):
            for mi, mk in enumerate(EVENT_MASKS):
                # every mask meets both range settings and both handling times, every kind and host likewise
                out.append(("A", kind, host, mk, ("R0", "R1")[(hi + mi) % 2], tier, seed,
                            ("event0", "event60")[(ki + hi + mi // 2) % 2]))
    for ki, kind in enumerate(KINDS):
        for k, fov_id in enumerate(FOVS):
            for host in ((("mid", "leo_inc")[(k + ki) % 2],) if tier == "quick" else ("mid", "leo_inc")):
                out.append(("B", kind, host, fov_id, tier, seed, ("event0", "event60")[(k // 2 + ki) % 2]))
    for ki, kind in enumerate(KINDS):
        for k, rate in enumerate((0.01, 0.5)):
            for hi, host in enumerate(("mid", "leo_inc")):
                out.append(("C", kind, host, rate, tier, seed, ("event0", "event60")[(ki + k + hi) % 2]))
    for ki, kind in enumerate(("radar", "adv_radar")):
        for k, variant in enumerate(RADAR_VARIANTS):
            out.append(("D", kind, ("mid", "leo_inc")[(k + ki) % 2] if variant != "lowfreq" else "mid", variant, tier, seed,
                        ("event0", "event60")[(k // 2 + ki) % 2]))
    out.append(("Eg", "vizmag", tier, seed, "event0"))
    for kind in KINDS:
        out.append(("F", kind, "mid", "full", tier, seed, "event60"))
    for kind in KINDS:
        for host in (("mid", "eq", "leo_inc") if tier == "quick" else ("mid", "eq", "leo_inc", "polar", "geo")):
            for fov_id in FOVS:
                out.append(("B", kind, host, fov_id, tier, seed))
    for kind in KINDS:
        for host in (("mid", "leo_inc") if tier == "quick" else ("mid", "south", "leo_inc", "geo")):
            for rate in (0.01, 0.5):
                out.append(("C", kind, host, rate, tier, seed))
    for kind in ("radar", "adv_radar"):
        for variant in RADAR_VARIANTS:
            for host in (("mid", "eq") if tier == "quick" else ("mid", "eq", "south", "leo_inc")):
                out.append(("D", kind, host, variant, tier, seed))
        out.append(("D", kind, "leo_eq", "lowfreq", tier, seed))
    for what in ("darkness", "umbra", "vizmag", "galactic"):
        out.append(("Eg", what, tier, seed))
    for what in ("sun", "galactic", "limb", "los"):
        for host in ("leo_eq", "leo_inc", "geo"):
            out.append(("Es", what, host, tier, seed))
    for kind in KINDS:
        for host in (("mid", "leo_inc") if tier == "quick" else ("mid", "eq", "leo_inc")):
            for cov_id in ("diag", "full"):
                out.append(("F", kind, host, cov_id, tier, seed))
    for host in (("mid", "leo_inc") if tier == "quick" else ("mid", "eq", "polar", "leo_inc", "geo")):
        out.append(("Gm", host, tier, seed))
    out.append(("Gs",))
    for kind in KINDS:
        for host in ("mid", "leo_inc"):
            out.append(("Gp", kind, host, tier, seed))
    out.append(("Gf", tier, seed))
    for kind in KINDS:
        out.append(("H", kind, tier, seed))
    for variant in ("wide", "narrow", "shared", "shared_bg", "shared_out2", "companion"):
        out.append(("S", variant, tier, seed))
    for variant in M_VARIANTS:
        for rate in M_RATES:
            if tier == "thorough" or rate == M_RATES[0] or variant in ("three", "pair"):
                out.append(("M", variant, rate, tier, seed))
    return out


def bounds(tier, seed):
    its = items(tier, seed)
    per_family = {}
    for it in its:
        per_family[it[0]] = per_family.get(it[0], 0) + 1
    return {
        "sensor_kinds": KINDS,
        "hosts": {h: (GROUND.get(h) or SPACE.get(h)) for h in sorted(set(_hosts(tier)) | {"s30", "leo_eq", "geo"})},
        "epochs": {k: v.isoformat() for k, v in EPOCHS.items()},
        "attempt_time_s": T_OBS,
        "step_s": DT_STEP,
        "masks": MASKS,
        "range_limits": RANGES,
        "fov": FOVS,
        "slew_rates_deg_s": [0.01, 0.5, 3.0],
        "sensor_built_via": {"direct": "SensingAgent.fromConfig on the configuration",
                             "event0": "sensor_addition event round trip, handled at scenario time 0 s",
                             "event60": "sensor_addition event round trip, handled at scenario time 60 s"},
        "event_round_trip": {
            "path": "SensorAdditionEventConfig -> Event.concreteFromConfig -> insertData (+AgentModel dependency) -> "
                    "handleRelevantEvents(step window) -> SensorAdditionEvent.handleEvent -> Scenario.addSensor",
            "masks": {k: MASKS[k] for k in EVENT_MASKS},
            "work_items": sorted({(it[0], it[-1]) for it in its if str(it[-1]).startswith("event")}),
            "n_work_items": sum(1 for it in its if str(it[-1]).startswith("event")),
            "compared_after_round_trip": ["type", "az_mask (ordered)", "el_mask", "slew_rate", "fov shape and angles",
                                          "minimum_range", "maximum_range", "background flag", "covariance",
                                          "aperture_diameter", "efficiency", "tx_power", "tx_frequency",
                                          "min_detectable_power", "detectable_vismag", "every attribute of a directly built twin"],
        },
        "multi_engine": {
            "variants": {"two": "engines [west, south]", "two_rev": "engines [south, west]",
                         "three": "engines [west, east(optical), south]", "three_rot": "engines [south, west, east(optical)]",
                         "pair": "engines [west with two radars, east(optical)]",
                         "joined": "engines [west, south]; a radar with azimuth mask [300, 60] joins west by event at 120 s"},
            "work_items": [list(it[1:3]) for it in its if it[0] == "M"],
            "slew_rates_deg_s": list(M_RATES),
            "belts_sub_satellite_longitude_deg": {"west (35N 0E)": [0, -9, -18, -27, -50], "south (30S 20E, mask [270, 90])": [20, 29, 38, 47, 75],
                                                   "east (35N 45E)": [45, 36, 27, 18, 100]},
            "steps": 6 if tier == "quick" else 10,
        },
        "radar_variants": RADAR_VARIANTS,
        "azimuth_fill_deg": _az_fill(seed),
        "fov_fractions": [0.5, 0.98, 1.02] + ([0.999, 1.001, 1.5] if tier == "thorough" else []),
        "slew_fractions": [0.0, 0.5, 0.98, 1.02, 2.0, "179.9 deg"] + ([0.999, 1.001, 10.0] if tier == "thorough" else []),
        "radar_range_fractions": [0.5, 0.999, 1.001, 2.0] + ([0.9, 0.99999, 1.00001, 1.1] if tier == "thorough" else []),
        "noise_vectors": "0, +e_i, -e_i for every measurement component; diagonal and correlated covariance",
        "time_biases_s": [0.0, 5.0, -5.0, 30.0, -59.0, 60.0, 61.0, -75.0],
        "execute_jobs": {"tasked_sensor_sets": ["cone10", "rect20x10", "cone10+rect20x10", "rect20x10+cone10", "none"],
                         "estimate_pointing_error_deg": [[0.5, -0.3], [9.5, 0.5], [-9.5, 0.5], [25.0, 0.0], [40.0, 0.0]],
                         "background_targets_offset_deg": [[3.0, 1.0], [40.0, 0.0]],
                         "result_outcome_mixes_required_per_item": list(MERGE_MIXES),
                         "merge": "TaskExecutionRegistration.processResults -> CentralizedTaskingEngine (fresh / holding "
                                  "the previous job) -> getCurrentObservations + getCurrentMissedObservations -> bulkSave"},
        "scenario_variants": {
            "wide": "Munkres, 3 sensors x 3 targets, 60 deg cones, background on",
            "narrow": "Munkres, 3 sensors x 3 targets, 5 deg cones, 40 km initial error, background on",
            "shared": "greedy, 4 sensors (60 / 0.5 / 0.5 / 0.5 deg cones) on 1 target, 60 km initial error, background off",
            "shared_bg": "as shared, background on, a second target 40 km above the first",
            "shared_out2": "as shared_bg, database output every second step",
            "companion": "greedy, one 0.5 deg sensor, background on, 60 km initial error, a second target placed on the "
                         "primary's initial estimate",
            "steps": 3 if tier == "quick" else 6,
        },
        "work_items_per_family": per_family,
    }


_RUN = {"A": _run_A, "B": _run_B, "C": _run_C, "D": _run_D, "Eg": _run_E_ground, "Es": _run_E_space, "F": _run_F,
        "Gm": _run_G_measure, "Gs": _run_G_static, "Gp": _run_G_predict, "Gf": _run_G_from_measurement, "H": _run_H, "S": _run_S, "M": _run_M}


def run_item(item):
    item = tuple(item)
    res = fw.Result()
    with warnings.catch_warnings():
        warnings.simplefilter("ignore")
        old = np.seterr(all="ignore")
        try:
            _RUN[item[0]](res, item)
        finally:
            np.seterr(**old)
    return res
